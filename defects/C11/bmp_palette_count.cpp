// C11 / R2c: the bmp readers sized the palette with the header's 32-bit colour count alone: a 74-byte 1-bit file declaring
// 0x03ffffff colours made the reader allocate and clear 256 MiB (8 GiB for 0x7fffffff) before reading the first palette byte.
// The allocator of the palette vector is std::allocator, so the replay counts bytes through operator new.
// Build: g++ -std=c++14 -I /repo/include bmp_palette_count.cpp && ./a.out
#include <boost/gil.hpp>
#include <boost/gil/extension/io/bmp.hpp>
#include <cstdio>
#include <cstdlib>
#include <new>
#include <sstream>
static std::size_t largest = 0;
void* operator new(std::size_t n) { if (n > largest) largest = n; void* p = std::malloc(n); if (!p) throw std::bad_alloc(); return p; }
void operator delete(void* p) noexcept { std::free(p); }
void operator delete(void* p, std::size_t) noexcept { std::free(p); }
using namespace boost::gil;
int main()
{
    std::string f;
    auto u8 = [&](unsigned v) { f.push_back(char(v)); };
    auto u16 = [&](unsigned v) { u8(v & 255); u8((v >> 8) & 255); };
    auto u32 = [&](unsigned v) { u16(v & 65535); u16(v >> 16); };
    u8('B'); u8('M'); u32(74); u16(0); u16(0); u32(62);
    u32(40); u32(8); u32(1); u16(1); u16(1); u32(0); u32(0); u32(0); u32(0); u32(0x03ffffffu); u32(0);
    u32(0); u32(0x00ffffff); u32(0); u32(0); u32(0);
    std::istringstream in(f);
    rgba8_image_t img;
    try { read_image(in, img, bmp_tag()); std::printf("accepted\n"); }
    catch (std::exception const& e) { std::printf("rejected: %s\n", e.what()); }
    std::printf("largest allocation: %zu bytes for a %zu-byte file\n", largest, f.size());
    return largest > (1u << 20);
}
