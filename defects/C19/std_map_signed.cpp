// C19 replay: fill_histogram(view, std::map<double,int>&) of a signed image: the key goes through size_t
// g++ -std=c++14 -I/repo/include std_map_signed.cpp && ./a.out
#include <boost/gil.hpp>
#include <boost/gil/histogram.hpp>
#include <boost/gil/extension/histogram/std.hpp>
#include <cstdio>
namespace gil = boost::gil;
int main()
{
    gil::gray8s_image_t img(2, 1); gil::view(img)(0, 0) = gil::gray8s_pixel_t(-1); gil::view(img)(1, 0) = gil::gray8s_pixel_t(-2);
    std::map<double, int> m; gil::fill_histogram(gil::view(img), m);
    for (auto const& b : m) std::printf("key %g: %d\n", b.first, b.second);
    return m.size() == 2 && m.count(-1.0) == 1 && m.count(-2.0) == 1 ? 0 : 1;
}
