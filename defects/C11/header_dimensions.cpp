// C11 / R9: bmp and pnm accepted a width or height below 1 (targa rejects them).
//  * "P5\n0 2\n255\n": BOOST_ASSERT(settings._dim.x && settings._dim.y) in debug builds, &row.front() of an empty vector otherwise;
//  * bmp height 0x80000000: negation overflows (UBSan), the height stays negative;
//  * bmp width -1 with read_view: null pointer arithmetic and SIGSEGV in the row copy (before the region check of d8df241).
// Build: g++ -std=c++14 -fsanitize=undefined -fno-sanitize-recover=all -I /repo/include header_dimensions.cpp && ./a.out
#include <boost/gil.hpp>
#include <boost/gil/extension/io/bmp.hpp>
#include <boost/gil/extension/io/pnm.hpp>
#include <cstdio>
#include <sstream>
using namespace boost::gil;
static std::string bmp_header(unsigned w, unsigned h, unsigned bpp)
{
    std::string f;
    auto u8 = [&](unsigned v) { f.push_back(char(v)); };
    auto u16 = [&](unsigned v) { u8(v & 255); u8((v >> 8) & 255); };
    auto u32 = [&](unsigned v) { u16(v & 65535); u16(v >> 16); };
    u8('B'); u8('M'); u32(54 + 1100); u16(0); u16(0); u32(54);
    u32(40); u32(w); u32(h); u16(1); u16(bpp); u32(0); u32(0); u32(0); u32(0); u32(0); u32(0);
    return f + std::string(1100, '\0');
}
template <class F> static int rejected(char const* what, F f)
{
    try { f(); std::printf("%s: accepted\n", what); return 1; }
    catch (std::exception const& e) { std::printf("%s: rejected (%s)\n", what, e.what()); return 0; }
}
int main()
{
    int bad = 0;
    bad += rejected("pnm 0x2", [] { std::istringstream in("P5\n0 2\n255\n"); gray8_image_t g; read_image(in, g, pnm_tag()); });
    bad += rejected("bmp height 0x80000000", [] { std::istringstream in(bmp_header(1, 0x80000000u, 24)); read_image_info(in, bmp_tag()); });
    bad += rejected("bmp width -1", [] { std::istringstream in(bmp_header(0xFFFFFFFFu, 1, 8)); rgba8_image_t img(4, 4); read_view(in, view(img), bmp_tag()); });
    bad += rejected("bmp height 0", [] { std::istringstream in(bmp_header(3, 0, 24)); rgb8_image_t img; read_image(in, img, bmp_tag()); });
    return bad;
}
