// C20 / K8: midpoint_ellipse_rasterizer::obtain_trajectory squared its semi-axes in unsigned int and widened afterwards.
// semi-axes (65536, 2): t1 == 0, hence t2 == t3 == 0, d2 stays negative and `while (d2 < 0)` pushes points until memory is exhausted.
// Build: g++ -std=c++14 -I /repo/include ellipse_wide.cpp && ./a.out      (before the fix: killed by the 5 s alarm / bad_alloc)
#include <boost/gil.hpp>
#include <boost/gil/extension/rasterization/ellipse.hpp>
#include <cstdio>
#include <unistd.h>
namespace gil = boost::gil;
int main()
{
    alarm(5);
    gil::midpoint_ellipse_rasterizer r({0u, 0u}, {65536u, 2u});
    auto t = r.obtain_trajectory();
    std::printf("%zu points, first (%ld,%ld), last (%ld,%ld)\n", t.size(), (long)t.front().x, (long)t.front().y, (long)t.back().x, (long)t.back().y);
    return !(t.front().x == 65536 && t.front().y == 0 && t.back().x == 0 && t.back().y == 2);
}
