"""C18 toolbox colour spaces (decided part): hue-sector dispatch covers its selector's whole range (no output left
uninitialised), pass-through channels, luminance weights, access by colour name."""
import os
from fractions import Fraction as Fr
from . import common as C
from .ir.num import NumInterp, Unsupported
from .pairs import Pair, run_pairs
from .p06 import inner_fn, accept_inconclusive
from .p09 import walk

LEVEL = "other"
EXPLANATION = ("Static analysis of the toolbox converters: (S1) for every switch in the inlined hsv/hsl -> rgb converters the "
               "selector's value range (interval domain with attained bounds, from hue/saturation/value in [0,1]) must be covered "
               "by the case labels, or the default edge must not leave an output undefined (phi with undef); an uncovered value "
               "with an attained witness is a violation; every float->int conversion inside is in range; (S3) gray_alpha -> rgba "
               "carries alpha and copies channel_convert(gray), gray_alpha -> rgb/gray == convert(gray*alpha) (value numbering); "
               "(S4) the double-precision luminance functor has the core weights 0.30/0.59/0.11 (affine form); (S5) AST: every "
               "toolbox converter reaches channels by colour name only. Not decided: round-trip tolerance and intermediate "
               "ranges of rgb->hsv/hsl/xyz/lab (relational floating-point reasoning).")
W = "include/boost/gil/extension/toolbox/color_spaces/"
HDR = '''#include "vf_common.hpp"
#include <boost/gil/extension/toolbox/color_spaces.hpp>
#include <boost/gil/extension/toolbox/color_converters.hpp>
#include <boost/gil/extension/toolbox/color_spaces/ycbcr.hpp>
using namespace vf;
'''


def run(rep):
    C.need_tools(C.IRDUMP, C.ASTDUMP)
    wd = C.workdir("C18num")
    L = [HDR, 'extern "C" {']
    obl = []
    for sp, ns, cols in (("hsv", "hsv_color_space", ("hue_t", "saturation_t", "value_t")), ("hsl", "hsl_color_space", ("hue_t", "saturation_t", "lightness_t"))):
        for dch, raw in (("rgb8_pixel_t", "std::uint8_t"), ("rgb16_pixel_t", "std::uint16_t"), ("rgb32f_pixel_t", "float")):
            for col in ("red_t", "green_t", "blue_t"):
                nm = "w_%s_%s_%s" % (sp, dch, col)
                L.append("%s %s(float h, float s, float v){ %s32f_pixel_t p; get_color(p, %s::%s()) = h; get_color(p, %s::%s()) = s; get_color(p, %s::%s()) = v; %s d; color_convert(p, d); return (%s)get_color(d, %s()); }"
                         % (raw, nm, sp, ns, cols[0], ns, cols[1], ns, cols[2], dch, raw, col))
                obl.append((nm, sp, dch, col))
    L.append("double w_lum(double r, double g, double b){ return (double)boost::gil::detail::rgb_to_luminance<double>(r, g, b); }")
    L.append("}")
    src = os.path.join(wd, "c18_num.cpp")
    open(src, "w").write("\n".join(L) + "\n")
    bc = C.emit_ir(src, src[:-4] + ".bc")
    dump = C.irdump(bc, src[:-4] + ".json")
    fns = {f["name"]: f for f in dump["functions"]}
    rep.trusted += ["clang front end, LLVM inliner/SROA/mem2reg", "harness/ir/num.py", "documented ranges: hue, saturation, value/lightness in [0,1]"]
    rep.rule("S1 every switch selector value in its range has a case, or the switch has default code of its own")
    reported = set()
    for nm, sp, dch, col in obl:
        fn = fns[nm]
        what = "%s -> %s [%s]" % (sp, dch, col)
        rep.count("converters")
        try:
            it = NumInterp(fn, {"a0": ("float", 32, 0.0, 1.0), "a1": ("float", 32, 0.0, 1.0), "a2": ("float", 32, 0.0, 1.0)})
            it.run()
        except Unsupported as e:
            rep.fail_analysis("%s: %s" % (what, e))
            continue
        for sw in getattr(it, "switch_info", []):
            inst = sw["inst"]
            rep.count("switches")
            key = "switch:%s:%s" % (what, inner_fn_of(inst))
            where = where_of(inst)
            cases = set(sw["cases"])
            # does the default edge leave something undefined?
            dflt = it.block[inst["default"]]
            sw_block = [b["id"] for b in fn["blocks"] if inst in b["insts"]]
            case_blocks = set(c["bb"] for c in inst["cases"])
            # the source has no default label when the default edge goes straight to the block where the cases join
            undef_default = any(inst["default"] in it.block[cb]["succ"] for cb in case_blocks if cb != inst["default"]) or \
                any(i["op"] == "phi" and any(inc["v"]["k"] == "undef" for inc in i["incoming"]) for i in dflt["insts"])
            if sw["top"]:
                if undef_default:
                    rep.incon("S1-switch", key, "selector range unknown and the default edge leaves a value undefined")
                else:
                    rep.ok("S1-switch", key, "explicit default")
                continue
            lo, hi = int(sw["lo"]), int(sw["hi"])
            missing = [v for v in range(lo, hi + 1) if v not in cases] if hi - lo < 4096 else ["range too wide"]
            if not missing or not undef_default:
                rep.ok("S1-switch", key, {"selector_range": [lo, hi], "cases": sorted(cases), "default_defines_outputs": not undef_default})
            else:
                wit = None
                if hi in missing and sw["hi_w"] is not None:
                    wit = {"input": sw["hi_w"], "selector": hi}
                elif lo in missing and sw["lo_w"] is not None:
                    wit = {"input": sw["lo_w"], "selector": lo}
                if not wit:
                    # confirm feasibility of an uncovered selector value by constant propagation of candidate hues
                    # (sector mid-points and boundaries); this only produces the witness, the verdict "uncovered value
                    # inside the selector's range" is the interval analysis above
                    for k in range(0, 25):
                        hval = k / 24.0
                        try:
                            it4 = NumInterp(fn, {"a0": ("float", 32, hval, hval), "a1": ("float", 32, 0.5, 0.5), "a2": ("float", 32, 0.5, 0.5)})
                            it4.run()
                        except Unsupported:
                            continue
                        for sw4 in getattr(it4, "switch_info", []):
                            if sw4["inst"].get("dbg") == inst.get("dbg") and not sw4["top"] and sw4["lo"] == sw4["hi"] and int(sw4["lo"]) in missing:
                                wit = {"input": {"a0": hval, "a1": 0.5, "a2": 0.5}, "selector": int(sw4["lo"])}
                        if wit:
                            break
                if wit:
                    key = "switch:%s -> rgb:%s" % (sp, inner_fn_of(inst))
                    if key in reported:
                        continue
                    reported.add(key)
                    rep.violation("S1-switch", key, where, {"selector_range": [lo, hi], "cases": sorted(cases), "uncovered": missing, "witness": wit,
                                                             "effect": "no case is executed: red, green, blue keep their indeterminate initial values"})
                else:
                    rep.incon("S1-switch", key, "uncovered selector values %s but no attained witness" % missing)
    # S7 gamut: float -> integer channel conversions of xyz -> rgb are in range for every xyz in [0,1]^3
    gamut(rep, wd)
    # S4 luminance weights
    rep.rule("S4 detail::rgb_to_luminance_fn<double,double,double,G> has affine coefficients 0.30, 0.59, 0.11")
    try:
        it = NumInterp(fns["w_lum"], {"a0": ("float", 64, 0.0, 1.0), "a1": ("float", 64, 0.0, 1.0), "a2": ("float", 64, 0.0, 1.0)})
        r = it.run()
        want = {"a0": 0.30, "a1": 0.59, "a2": 0.11}
        rep.count("luminance")
        if r is not None and r.aff is not None and all(abs(float(r.aff.get(k, 0)) - v) < 1e-6 for k, v in want.items()) and set(r.aff) <= set(want):
            rep.ok("S4-luminance", "rgb_to_luminance<double>", {k: float(v) for k, v in r.aff.items()})
        elif r is not None and r.aff is not None:
            rep.violation("S4-luminance", "S4:rgb_to_luminance<double>:weights", "include/boost/gil/extension/toolbox/color_converters/rgb_to_luminance.hpp",
                          {"weights": {k: float(v) for k, v in r.aff.items()}, "expected": want})
        else:
            rep.incon("S4-luminance", "rgb_to_luminance<double>", "no affine form")
    except (Unsupported, KeyError) as e:
        rep.incon("S4-luminance", "rgb_to_luminance<double>", str(e))
    passthrough(rep)
    ast_rules(rep)
    rep.floor("converters", 18)
    rep.floor("switches", 9)
    accept_inconclusive(rep, "c18_inconclusive.json")


def inner_fn_of(inst):
    d = inst.get("dbg") or []
    for x in d:
        if x["file"].startswith(C.REPO):
            return (x.get("fn") or "?").split("<")[0] + "@" + os.path.basename(x["file"])
    return "?"


def where_of(inst):
    d = inst.get("dbg") or []
    for x in d:
        if x["file"].startswith(C.REPO):
            return "%s:%d" % (C.repo_rel(x["file"]), x["line"])
    return W


def passthrough(rep):
    pairs = []
    par = "std::uint8_t g, std::uint8_t a"
    src = "gray_alpha8_pixel_t p; get_color(p, gray_color_t()) = g; get_color(p, alpha_t()) = a;"

    def conv(dt, col):
        return "[&]{ %s %s d; color_convert(p, d); return (iptr)get_color(d, %s()); }()" % (src, dt, col)
    for dt, ch in (("rgba8_pixel_t", "std::uint8_t"), ("rgba16_pixel_t", "std::uint16_t")):
        pairs.append(Pair(par, conv(dt, "alpha_t"), "(iptr)channel_convert<%s>(a)" % ch, "S3-passthrough", "gray_alpha8 -> %s alpha == channel_convert(alpha)" % dt, "S3:gray_alpha:%s:alpha" % dt, W + "gray_alpha.hpp"))
        for col in ("red_t", "green_t", "blue_t"):
            pairs.append(Pair(par, conv(dt, col), "(iptr)channel_convert<%s>(g)" % ch, "S3-passthrough", "gray_alpha8 -> %s %s == channel_convert(gray)" % (dt, col), "S3:gray_alpha:%s:%s" % (dt, col), W + "gray_alpha.hpp"))
    for dt, ch, cols in (("rgb8_pixel_t", "std::uint8_t", ("red_t", "green_t", "blue_t")), ("gray8_pixel_t", "std::uint8_t", ("gray_color_t",)), ("rgb16_pixel_t", "std::uint16_t", ("red_t", "green_t", "blue_t"))):
        for col in cols:
            pairs.append(Pair(par, conv(dt, col), "(iptr)channel_convert<%s>(channel_multiply(g, a))" % ch, "S3-passthrough", "gray_alpha8 -> %s %s == convert(gray*alpha)" % (dt, col), "S3:gray_alpha:%s:%s" % (dt, col), W + "gray_alpha.hpp"))
    # gray -> rgba (toolbox converter): colours = convert(gray), alpha = max
    par1 = "std::uint8_t g, std::uint8_t a"
    for col in ("red_t", "green_t", "blue_t"):
        pairs.append(Pair(par1, "[&]{ gray8_pixel_t p(g); rgba8_pixel_t d; color_convert(p, d); return (iptr)get_color(d, %s()); }()" % col, "(iptr)g", "S3-passthrough", "gray8 -> rgba8 %s == gray" % col, "S3:gray_to_rgba:%s" % col, "include/boost/gil/extension/toolbox/color_converters/gray_to_rgba.hpp"))
    pairs.append(Pair(par1, "[&]{ gray8_pixel_t p(g); rgba8_pixel_t d; color_convert(p, d); return (iptr)get_color(d, alpha_t()); }()", "(iptr)255", "S3-passthrough", "gray8 -> rgba8 alpha == max", "S3:gray_to_rgba:alpha", "include/boost/gil/extension/toolbox/color_converters/gray_to_rgba.hpp"))
    rep.rule("S3 pass-through channels: equal value-numbering normal forms")
    run_pairs(rep, "C18", pairs, header=HDR, nchunks=4)
    rep.floor("obligations:S3-passthrough", 15)


def ast_rules(rep):
    wd = C.workdir("C18ast")
    src = os.path.join(wd, "c18_ast.cpp")
    open(src, "w").write(HDR + '''
template <class S, class D> void cc(){ S s; D d; color_convert(s, d); }
void inst(){
  cc<rgb8_pixel_t,hsv32f_pixel_t>(); cc<hsv32f_pixel_t,rgb8_pixel_t>(); cc<rgb8_pixel_t,hsl32f_pixel_t>(); cc<hsl32f_pixel_t,rgb8_pixel_t>();
  cc<rgb8_pixel_t,xyz32f_pixel_t>(); cc<xyz32f_pixel_t,rgb8_pixel_t>(); cc<rgb8_pixel_t,lab32f_pixel_t>(); cc<lab32f_pixel_t,rgb8_pixel_t>();
  cc<rgb8_pixel_t,ycbcr_601_8_pixel_t>(); cc<ycbcr_601_8_pixel_t,rgb8_pixel_t>(); cc<gray_alpha8_pixel_t,rgba8_pixel_t>(); cc<gray_alpha8_pixel_t,rgb8_pixel_t>();
  cc<gray_alpha8_pixel_t,gray8_pixel_t>(); cc<cmyka8_pixel_t,rgba8_pixel_t>(); cc<gray8_pixel_t,rgba8_pixel_t>();
}
''')
    d = C.astdump(src, src[:-4] + ".json", ["^boost::gil::default_color_converter_impl::operator\\(\\)$"], extra=[])
    rep.rule("S5 toolbox converters reach channels only through get_color/static_for_each (no at_c, semantic_at_c, dynamic_at_c, operator[])")
    POS = ("boost::gil::at_c", "boost::gil::semantic_at_c", "boost::gil::dynamic_at_c")
    for f in d["functions"]:
        if "toolbox" not in f["file"]:
            continue
        bad = []

        def chk(n):
            if n.get("k") == "Call":
                nm = n["callee"]["name"]
                if nm in POS or (n.get("op") == "[]" and "pixel" in nm):
                    bad.append((nm, n.get("line")))
        walk(f["body"], chk)
        rep.count("obligations:S5")
        key = "S5:%s:%s" % (os.path.basename(f["file"]), f["full"].split("default_color_converter_impl")[1][:60])
        if bad:
            rep.violation("S5-by-name", key, "%s:%s" % (C.repo_rel(f["file"]), f["line"]), {"positional_access": bad[:5]})
        else:
            rep.ok("S5-by-name", key, "only named access")
    rep.floor("obligations:S5", 12)
    grey_thresholds(rep, d["functions"])


def grey_thresholds(rep, fns):
    """S6: rgb->hsv drops the hue when saturation < t_f, hsv->rgb ignores the hue when |saturation| < t_b. The two
    decisions must agree on every 8-bit pixel, otherwise a pixel whose hue was dropped is rebuilt with hue 0."""
    from .ast import rules as R
    rep.rule("S6 the grey thresholds of rgb->hsv (hue dropped) and hsv->rgb (hue ignored) select the same set of 8-bit pixels: no pixel has "
             "(max-min)/max between the two constants")
    tf = tb = None
    wf = wb = None
    for f in fns:
        if not f["file"].endswith("color_spaces/hsv.hpp"):
            continue
        sig = f["full"].split("default_color_converter_impl")[1]
        fwd = sig.replace(" ", "").startswith("<boost::mp11::mp_list<boost::gil::red_t")
        for x, _ in R.find(f["body"], lambda x: x.get("k") == "Binary" and x.get("op") == "<"):
            lk, r = R.key(x["l"]), R.strip(x["r"])
            val = r.get("v") if r.get("k") in ("Float", "Int") else r.get("const")
            if val is None:
                continue
            try:
                val = float(val)
            except ValueError:
                continue
            if fwd and lk in ("saturation", "saturation.operator float()"):
                tf, wf = val, "%s:%s" % (C.repo_rel(f["file"]), x.get("line"))
            if not fwd and "saturation_t" in lk and "abs" in lk:
                tb, wb = val, "%s:%s" % (C.repo_rel(f["file"]), x.get("line"))
    rep.count("obligations:S6")
    if tf is None or tb is None:
        rep.fail_analysis("S6: grey threshold comparisons of the hsv converters not found (forward %s, backward %s)" % (tf, tb))
        return
    lo, hi = min(tf, tb), max(tf, tb)
    wit = None
    if lo != hi:
        for mx in range(1, 256):
            for diff in range(1, mx + 1):
                if lo <= diff / mx < hi:
                    wit = {"pixel": [mx - diff, mx, mx], "saturation": diff / mx}
                    break
            if wit:
                break
    if wit is None:
        rep.ok("S6-grey-threshold", "S6:hsv", {"rgb->hsv": tf, "hsv->rgb": tb})
    else:
        rep.violation("S6-grey-threshold", "S6:hsv", wf + " vs " + wb, {"rgb->hsv drops hue below": tf, "hsv->rgb ignores hue below": tb, "witness": wit,
                                                                      "problem": "for this pixel the forward conversion discards the hue but the backward conversion still uses it (as 0): rgb8 -> hsv -> rgb8 does not return the pixel"})


def gamut(rep, wd):
    """S7: xyz -> rgb8/rgb16 (also the second half of lab -> rgb): the value handed to the float -> integer channel conversion lies in
    the channel range for every x,y,z in [0,1] -- i.e. the converter clamps out-of-gamut colours (constant-propagated witness on refutation)"""
    rep.rule("S7 xyz -> rgb8/rgb16: for all x,y,z in [0,1] the float handed to the float->integer conversion is inside [0,1] (out-of-gamut colours and "
             "in-gamut colours that leave the gamut by rounding are clamped); a refutation is confirmed by constant propagation of a corner of the cube")
    L = [HDR, 'extern "C" {']
    obl = []
    for dch, raw in (("rgb8_pixel_t", "std::uint8_t"), ("rgb16_pixel_t", "std::uint16_t")):
        for col in ("red_t", "green_t", "blue_t"):
            nm = "w_xyz_%s_%s" % (dch, col)
            L.append("%s %s(float x, float y, float z){ xyz32f_pixel_t p; get_color(p, xyz_color_space::x_t()) = x; get_color(p, xyz_color_space::y_t()) = y; get_color(p, xyz_color_space::z_t()) = z; %s d; color_convert(p, d); return (%s)get_color(d, %s()); }"
                     % (raw, nm, dch, raw, col))
            obl.append((nm, dch, col))
    L.append("}")
    src = os.path.join(wd, "c18_gamut.cpp")
    open(src, "w").write("\n".join(L) + "\n")
    bc = C.emit_ir(src, src[:-4] + ".bc")
    dump = C.irdump(bc, src[:-4] + ".json")
    fns = {f["name"]: f for f in dump["functions"]}
    import itertools
    for nm, dch, col in obl:
        rep.count("obligations:S7")
        key = "S7:xyz -> %s [%s]" % (dch, col)
        try:
            it = NumInterp(fns[nm], {"a0": ("float", 32, 0.0, 1.0), "a1": ("float", 32, 0.0, 1.0), "a2": ("float", 32, 0.0, 1.0)})
            it.run()
        except Unsupported as e:
            rep.fail_analysis("%s: %s" % (key, e))
            continue
        bad = [ev for ev in it.final_events() if ev.kind.startswith("fptoint") and ev.status != "proved"]
        if not bad:
            rep.ok("S7-gamut", key, "float->int operand in range for every x,y,z in [0,1]")
            continue
        wit = None
        for corner in itertools.product((0.0, 1.0), repeat=3):
            try:
                it2 = NumInterp(fns[nm], {"a%d" % i: ("float", 32, corner[i], corner[i]) for i in range(3)})
                it2.run()
            except Unsupported:
                continue
            b2 = [ev for ev in it2.final_events() if ev.kind.startswith("fptoint") and ev.status == "refuted"]
            if b2:
                wit = {"xyz": list(corner), "detail": b2[0].detail}
                break
        if wit:
            rep.violation("S7-gamut", key, "include/boost/gil/extension/toolbox/color_spaces/xyz.hpp",
                          {"witness": wit, "problem": "a negative (or > 1) component reaches the float -> integer conversion: undefined behaviour, in practice it wraps (rgb8(0,0,42) -> lab -> rgb8 gives red 255)"})
        else:
            rep.incon("S7-gamut", key, bad[0].detail)
    rep.floor("obligations:S7", 6)
