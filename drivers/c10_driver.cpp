// C10 driver: instantiates every member of image<> for the configurations of the typestate analysis.
// Compiled by astdump only; never executed.
#include "vf_common.hpp"
#include <memory>
namespace vf {
template <class T, bool POCMA, bool POCS>
struct salloc {
    using value_type = T;
    int id;
    salloc(int i = 0) : id(i) {}
    template <class U> salloc(salloc<U, POCMA, POCS> const& o) : id(o.id) {}
    T* allocate(std::size_t n);
    void deallocate(T* p, std::size_t n);
    using propagate_on_container_move_assignment = std::integral_constant<bool, POCMA>;
    using propagate_on_container_swap = std::integral_constant<bool, POCS>;
    using propagate_on_container_copy_assignment = std::false_type;
    using is_always_equal = std::false_type;
    template <class U> struct rebind { using other = salloc<U, POCMA, POCS>; };
    friend bool operator==(salloc const& a, salloc const& b) { return a.id == b.id; }
    friend bool operator!=(salloc const& a, salloc const& b) { return a.id != b.id; }
};
// an element type with non-trivial, possibly throwing special members
struct elem {
    int v;
    elem();
    elem(elem const&);
    elem& operator=(elem const&);
    ~elem();
    bool operator==(elem const& o) const { return v == o.v; }
};
}
template <class Img> void use_all(Img& a, Img& b, typename Img::value_type const& p, typename Img::allocator_type const& al)
{
    using pt = typename Img::point_t;
    Img c0; Img c1(std::size_t(8), al);
    Img c(3, 4, 8, al); Img c2(pt(3, 4), 8, al); Img d(pt(2, 2), p, 0, al); Img d2(2, 2, p, 0, al);
    Img e(a); Img f(std::move(b)); Img g(const_view(a), 4, al);
    a = e; a = std::move(f);
    a.recreate(5, 5); a.recreate(pt(5, 5), 16); a.recreate(pt(1, 1), p, 2); a.recreate(1, 1, p, 2);
    a.recreate(4, 4, 8, al); a.recreate(pt(4, 4), 8, al); a.recreate(pt(4, 4), p, 8, al); a.recreate(4, 4, p, 8, al);
    a.swap(c); swap(a, d);
}
using namespace vf;
void t_std_i(image<rgb8_pixel_t, false>& a, image<rgb8_pixel_t, false>& b) { use_all(a, b, rgb8_pixel_t(), std::allocator<unsigned char>()); }
void t_std_p(image<rgb8_pixel_t, true>& a, image<rgb8_pixel_t, true>& b) { use_all(a, b, rgb8_pixel_t(), std::allocator<unsigned char>()); }
using prop_alloc = salloc<unsigned char, true, true>;
using sticky_alloc = salloc<unsigned char, false, false>;
void t_prop_i(image<rgb8_pixel_t, false, prop_alloc>& a, image<rgb8_pixel_t, false, prop_alloc>& b) { use_all(a, b, rgb8_pixel_t(), prop_alloc(1)); }
void t_sticky_i(image<rgb8_pixel_t, false, sticky_alloc>& a, image<rgb8_pixel_t, false, sticky_alloc>& b) { use_all(a, b, rgb8_pixel_t(), sticky_alloc(1)); }
void t_sticky_p(image<rgb8_pixel_t, true, sticky_alloc>& a, image<rgb8_pixel_t, true, sticky_alloc>& b) { use_all(a, b, rgb8_pixel_t(), sticky_alloc(1)); }
// converting copy between organisations
void t_conv(image<rgb8_pixel_t, true>& a, image<rgb8_pixel_t, false> const& b) { image<rgb8_pixel_t, true> x(b); a = b; }
