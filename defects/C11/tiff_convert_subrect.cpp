// C11/C13 replay: read_and_convert_image of a sub-rectangle of a strip tiff overflows the scanline buffer (g++ -fsanitize=address -I/repo/include ... -ltiff -ltiffxx)
#include <boost/gil.hpp>
#include <boost/gil/extension/io/tiff.hpp>
#include <cstdio>
using namespace boost::gil;
int main(int argc, char**)
{
    gray8_image_t src(10, 4);
    int k = 0; for (auto& p : view(src)) p = gray8_pixel_t(k++);
    write_view("/tmp/tsub.tif", const_view(src), tiff_tag());
    image_read_settings<tiff_tag> st(point_t(2, 1), point_t(3, 2));
    gray8_image_t a; read_image("/tmp/tsub.tif", a, st);
    std::printf("no-convert sub-rectangle: %d %d %d / %d\n", int(view(a)(0,0)[0]), int(view(a)(1,0)[0]), int(view(a)(2,0)[0]), int(view(a)(0,1)[0]));
    rgb8_image_t b; read_and_convert_image("/tmp/tsub.tif", b, st);
    std::printf("converting sub-rectangle: %d %d\n", int(view(b)(0,0)[0]), int(view(b)(2,1)[2]));
}
