// C13 replay: read_and_convert_image of a palette BMP bypasses the color converter
// g++ -std=c++14 -I/repo/include bmp_palette_convert.cpp && ./a.out
#include <boost/gil.hpp>
#include <boost/gil/extension/io/bmp.hpp>
#include <cstdio>
#include <fstream>
#include <vector>
using namespace boost::gil;
static void u16(std::vector<unsigned char>& v, unsigned x) { v.push_back(x & 255); v.push_back((x >> 8) & 255); }
static void u32(std::vector<unsigned char>& v, unsigned x) { u16(v, x & 65535); u16(v, x >> 16); }
int main()
{
    // 2x1, 8 bit, 2 palette entries: index 0 = (r 81, g 120, b 30), index 1 = (r 10, g 200, b 90)
    std::vector<unsigned char> f;
    f.push_back('B'); f.push_back('M'); u32(f, 14 + 40 + 8 + 4); u16(f, 0); u16(f, 0); u32(f, 14 + 40 + 8);
    u32(f, 40); u32(f, 2); u32(f, 1); u16(f, 1); u16(f, 8); u32(f, 0); u32(f, 4); u32(f, 0); u32(f, 0); u32(f, 2); u32(f, 2);
    unsigned char pal[8] = {30, 120, 81, 0, 90, 200, 10, 0};
    f.insert(f.end(), pal, pal + 8);
    unsigned char row[4] = {0, 1, 0, 0};
    f.insert(f.end(), row, row + 4);
    std::ofstream("/tmp/c13_pal.bmp", std::ios::binary).write(reinterpret_cast<char const*>(f.data()), f.size());
    rgba8_image_t native; read_image("/tmp/c13_pal.bmp", native, bmp_tag());
    gray8_image_t conv; read_and_convert_image("/tmp/c13_pal.bmp", conv, bmp_tag());
    gray8_pixel_t want; color_convert(view(native)(0, 0), want);
    std::printf("native (%d,%d,%d); read_and_convert into gray8: %d, color_convert(native): %d\n", int(view(native)(0,0)[0]), int(view(native)(0,0)[1]), int(view(native)(0,0)[2]), int(view(conv)(0,0)[0]), int(want[0]));
    return view(conv)(0, 0)[0] == want[0] ? 0 : 1;
}
