"""D-bits: bit provenance on top of the D-poly interpreter.

Every integer SSA value additionally carries a little-endian list of abstract bits:
   0, 1, ("in", cell, i)  -- bit i of an input cell, or None (unknown).
Input cells are arguments ("a1") and bytes of memory reachable from pointer arguments, named
("m", <root polynomial repr>, byte offset). Memory written by the function is tracked per byte
keyed by (root polynomial without constant, constant offset); addresses come from D-poly.
At the end `final_memory()` gives, for every written byte, its 8 abstract bits, so a check can state
exactly which destination bits received which source bits and that all others kept their own value.
"""
from .poly import PolyInterp, Poly, Unsupported, Agg


def cbits(v, n):
    return [(v >> i) & 1 for i in range(n)]


class BitsInterp(PolyInterp):
    def __init__(self, fn, arg_bits=None, **kw):
        super().__init__(fn, **kw)
        self.bits = {}
        self.bmem = {}        # (rootkey, off) -> [8 bits]
        self.written = {}     # (rootkey, off) -> True
        self.reads = set()    # (rootkey, off) of input bytes read
        self.arg_bits = arg_bits or {}    # arg id -> number of significant low bits (others known zero)
        self.width = {}

    # ---------------------------------------------------------------- helpers
    def split_addr(self, p):
        c = p.const_value()
        root = p - Poly.const(c)
        return repr(root), c

    def obits(self, o, n=None):
        k = o["k"]
        if k == "c":
            return cbits(int(o["u"]), o["bits"])
        if k == "arg":
            t = self.fn["args"][o["idx"]]["type"]
            w = t.get("bits", 64)
            sig = self.arg_bits.get(o["id"], w)
            return [("in", o["id"], i) if i < sig else 0 for i in range(w)]
        if k == "v":
            b = self.bits.get(o["id"])
            if b is None:
                w = self.inst_of.get(o["id"], {}).get("type", {}).get("bits", n or 64)
                return [None] * w
            return b
        if k in ("null",):
            return [0] * 64
        return [None] * (n or 64)

    def rd_byte(self, key):
        if key in self.bmem:
            return self.bmem[key]
        self.reads.add(key)
        return [("in", ("m",) + key, i) for i in range(8)]

    def enter_block(self, bid, preds):
        self._bout = getattr(self, "_bout", {})
        sts = [self._bout[p] for p in preds if p in self._bout]
        if not sts:
            return
        if len(sts) == 1:
            self.bmem, self.written = dict(sts[0][0]), dict(sts[0][1])
            return
        keys = set()
        for m, w in sts:
            keys |= set(m)
        bm, wr = {}, {}
        for k in keys:
            vals = [m.get(k) for m, w in sts]
            if any(v is None for v in vals):
                # written on some paths only: the other paths keep the input byte
                vals = [v if v is not None else [("in", ("m",) + k, i) for i in range(8)] for v in vals]
            out = vals[0]
            for v in vals[1:]:
                out = [x if x == y else None for x, y in zip(out, v)]
            bm[k] = out
            if any(w.get(k) for m, w in sts):
                wr[k] = True
        self.bmem, self.written = bm, wr

    def leave_block(self, bid):
        self._bout = getattr(self, "_bout", {})
        self._bout[bid] = (dict(self.bmem), dict(self.written))

    # ---------------------------------------------------------------- step
    def step(self, inst, bid, reach, rets):
        op = inst["op"]
        i = inst.get("id")
        ops = inst.get("ops", [])
        # bits first for store (needs operand bits), then delegate to poly
        if op == "store":
            addr = self.operand(ops[1])
            size = inst["size"]
            vb = self.obits(ops[0], size * 8) if inst.get("val_type", {}).get("k") == "int" else [None] * (size * 8)
            if inst.get("val_type", {}).get("k") == "ptr":
                vb = [None] * 64
            root, c = self.split_addr(addr)
            for j in range(size):
                self.bmem[(root, c + j)] = vb[8 * j:8 * j + 8] + [None] * max(0, 8 - len(vb[8 * j:8 * j + 8]))
                self.written[(root, c + j)] = True
            # a store through a different root may alias other tracked roots: only allocas are provably separate
            if not self.is_local(addr):
                for key in list(self.bmem):
                    if key[0] != root and not key[0].startswith("ALLOCA"):
                        # conservative: unknown now
                        if key not in self.written:
                            del self.bmem[key]
        super().step(inst, bid, reach, rets)
        if not i:
            return
        t = inst["type"]
        if t.get("k") != "int":
            return
        w = t["bits"]
        if op == "load":
            addr = self.operand(ops[0])
            root, c = self.split_addr(addr)
            out = []
            for j in range(inst["size"]):
                out += self.rd_byte((root, c + j))
            self.bits[i] = out[:w]
            return
        if op in ("and", "or", "xor"):
            a, b = self.obits(ops[0], w), self.obits(ops[1], w)
            out = []
            for x, y in zip(a, b):
                if op == "and":
                    r = 0 if (x == 0 or y == 0) else (y if x == 1 else (x if y == 1 else (x if x == y else None)))
                elif op == "or":
                    r = 1 if (x == 1 or y == 1) else (y if x == 0 else (x if y == 0 else (x if x == y else None)))
                else:
                    if x in (0, 1) and y in (0, 1):
                        r = x ^ y
                    elif x == 0:
                        r = y
                    elif y == 0:
                        r = x
                    elif x == y and x is not None:
                        r = 0
                    elif x == 1 and isinstance(y, tuple):
                        r = ("not",) + y if y[0] != "not" else y[1:]
                    elif y == 1 and isinstance(x, tuple):
                        r = ("not",) + x if x[0] != "not" else x[1:]
                    else:
                        r = None
                out.append(r)
            self.bits[i] = out
            return
        if op in ("shl", "lshr", "ashr"):
            a = self.obits(ops[0], w)
            s = ops[1]
            if s["k"] == "c":
                k = int(s["u"])
            else:
                sp = self.operand(s)
                k = sp.const_value() if sp.is_const() else None
            if k is None or k >= w:
                self.bits[i] = [None] * w
            elif op == "shl":
                self.bits[i] = ([0] * k + a)[:w]
            elif op == "lshr":
                self.bits[i] = a[k:] + [0] * k
            else:
                self.bits[i] = a[k:] + [a[-1]] * k
            return
        if op in ("zext", "sext", "trunc"):
            a = self.obits(ops[0])
            if op == "trunc":
                self.bits[i] = a[:w]
            elif op == "zext":
                self.bits[i] = a + [0] * (w - len(a))
            else:
                self.bits[i] = a + [a[-1]] * (w - len(a))
            return
        if op in ("add", "sub", "mul"):
            a, b = self.obits(ops[0], w), self.obits(ops[1], w)
            if all(x in (0, 1) for x in a) and all(y in (0, 1) for y in b):
                va = sum(x << n for n, x in enumerate(a))
                vb = sum(y << n for n, y in enumerate(b))
                r = {"add": va + vb, "sub": va - vb, "mul": va * vb}[op] & ((1 << w) - 1)
                self.bits[i] = cbits(r, w)
                return
            if op == "add" and all(x == 0 or y == 0 for x, y in zip(a, b)):
                self.bits[i] = [y if x == 0 else x for x, y in zip(a, b)]
                return
            if op == "mul":
                for x, y in ((a, b), (b, a)):
                    if all(v in (0, 1) for v in y):
                        vy = sum(v << n for n, v in enumerate(y))
                        if vy and vy & (vy - 1) == 0:
                            k = vy.bit_length() - 1
                            self.bits[i] = ([0] * k + x)[:w]
                            return
                        if vy == 0:
                            self.bits[i] = [0] * w
                            return
            # low zero bits are preserved by add/sub/mul
            tz = 0
            for x, y in zip(a, b):
                if (op == "mul" and (x == 0 or y == 0)) or (op != "mul" and x == 0 and y == 0):
                    tz += 1
                else:
                    break
            # high zero bits: if both operands have known-zero high parts the sum/product is bounded
            def ub(v):
                n = len(v)
                while n > 0 and v[n - 1] == 0:
                    n -= 1
                return n
            ha, hb = ub(a), ub(b)
            if op == "add":
                top = max(ha, hb) + 1
            elif op == "mul":
                top = ha + hb
            else:
                top = w
            self.bits[i] = [0] * tz + [None] * (min(top, w) - tz if min(top, w) > tz else 0) + [0] * (w - max(min(top, w), tz))
            return
        if op in ("udiv", "urem"):
            a, b = self.obits(ops[0], w), self.obits(ops[1], w)
            if all(y in (0, 1) for y in b):
                vy = sum(v << n for n, v in enumerate(b))
                if vy and vy & (vy - 1) == 0:
                    k = vy.bit_length() - 1
                    self.bits[i] = (a[k:] + [0] * k) if op == "udiv" else (a[:k] + [0] * (w - k))
                    return
                if vy and op == "urem":
                    n = (vy - 1).bit_length()
                    self.bits[i] = [None] * n + [0] * (w - n)
                    return
            self.bits[i] = [None] * w
            return
        if op in ("srem", "sdiv"):
            a, b = self.obits(ops[0], w), self.obits(ops[1], w)
            # non-negative operands (known-zero sign bits) behave like the unsigned forms
            if a[-1] == 0 and b[-1] == 0 and all(y in (0, 1) for y in b):
                vy = sum(v << n for n, v in enumerate(b))
                if vy and vy & (vy - 1) == 0:
                    k = vy.bit_length() - 1
                    self.bits[i] = (a[k:] + [0] * k) if op == "sdiv" else (a[:k] + [0] * (w - k))
                    return
                if vy and op == "srem":
                    n = (vy - 1).bit_length()
                    self.bits[i] = [None] * n + [0] * (w - n)
                    return
            self.bits[i] = [None] * w
            return
        if op == "select":
            a, b = self.obits(ops[1], w), self.obits(ops[2], w)
            c = self.operand(ops[0])
            if c.is_const():
                self.bits[i] = a if c.const_value() else b
            else:
                self.bits[i] = [x if x == y else None for x, y in zip(a, b)]
            return
        if op == "phi":
            vals = [self.obits(inc["v"], w) for inc in inst["incoming"] if (inc["bb"], bid) in self.cond_of_edge]
            out = vals[0]
            for v in vals[1:]:
                out = [x if x == y else None for x, y in zip(out, v)]
            self.bits[i] = out
            return
        if op in ("icmp",):
            p = self.val.get(i)
            self.bits[i] = cbits(p.const_value(), 1) if isinstance(p, Poly) and p.is_const() else [None]
            return
        self.bits[i] = [None] * w

    def memcpy(self, args, inst):
        dst, src, n = args[0], args[1], args[2]
        if isinstance(n, Poly) and n.is_const() and isinstance(dst, Poly) and isinstance(src, Poly):
            rs, cs = self.split_addr(src)
            rd, cd = self.split_addr(dst)
            tmp = [self.rd_byte((rs, cs + j)) for j in range(n.const_value())]
            for j, b in enumerate(tmp):
                self.bmem[(rd, cd + j)] = b
                self.written[(rd, cd + j)] = True
        super().memcpy(args, inst)

    def final_memory(self):
        """bytes written to non-local memory: {(root, off): [8 bits]}"""
        return {k: v for k, v in self.bmem.items() if k in self.written and not k[0].startswith("ALLOCA")}

    def ret_bits(self):
        for b in self.fn["blocks"]:
            for inst in b["insts"]:
                if inst["op"] == "ret" and inst["ops"]:
                    return self.obits(inst["ops"][0])
        return None
