// JPEG files on which libjpeg reports an error while the GIL reader's jump buffer is stale.
//  mode 0: baseline file, a second SOF0 segment right before EOI -> error inside jpeg_finish_decompress (reader::apply)
//  mode 1: progressive file, same corruption -> error inside jpeg_start_decompress (scanline_reader::initialize)
#include <boost/gil.hpp>
#include <boost/gil/extension/io/jpeg.hpp>
#include <fstream>
#include <iostream>
using namespace boost::gil;
static std::string make(bool progressive){
  jpeg_compress_struct c; jpeg_error_mgr e; c.err = jpeg_std_error(&e); jpeg_create_compress(&c);
  unsigned char* out = nullptr; unsigned long n = 0; jpeg_mem_dest(&c, &out, &n);
  c.image_width = 40; c.image_height = 30; c.input_components = 3; c.in_color_space = JCS_RGB;
  jpeg_set_defaults(&c); if (progressive) jpeg_simple_progression(&c);
  jpeg_start_compress(&c, TRUE);
  std::vector<unsigned char> row(120);
  for (int y = 0; y < 30; ++y){ for (int x = 0; x < 120; ++x) row[x] = (unsigned char)(x*2 + y*5); JSAMPROW r = row.data(); jpeg_write_scanlines(&c, &r, 1); }
  jpeg_finish_compress(&c); std::string s((char*)out, n); jpeg_destroy_compress(&c); free(out); return s;
}
int main(int argc, char** argv){
  int mode = atoi(argv[1]);
  std::string s = make(mode == 1);
  std::string sof("\xFF\xC0\x00\x0B\x08\x00\x01\x00\x01\x01\x01\x11\x00", 13);
  if ((unsigned char)s[s.size()-2] != 0xFF || (unsigned char)s[s.size()-1] != 0xD9) { std::cout << "no EOI?\n"; return 2; }
  s.insert(s.size() - 2, sof);
  { std::ofstream f("/tmp/c11demo/t.jpg", std::ios::binary); f.write(s.data(), s.size()); }
  try {
    if (mode == 0) { rgb8_image_t back; read_image("/tmp/c11demo/t.jpg", back, jpeg_tag()); }
    else {
      using reader_t = scanline_reader<typename get_read_device<std::string, jpeg_tag>::type, jpeg_tag>;
      reader_t reader = make_scanline_reader(std::string("/tmp/c11demo/t.jpg"), jpeg_tag());
      std::vector<unsigned char> buf(reader._scanline_length);
      reader.read(buf.data(), 0);
    }
    std::cout << "returned normally\n"; return 0; }
  catch (std::exception& e) { std::cout << "exception: " << e.what() << "\n"; return 0; }
}
