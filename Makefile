# Builds the two extraction tools offline against the pre-installed LLVM/clang 14.
LLVMCXX := $(shell llvm-config-14 --cxxflags)
LIBS := /usr/lib/llvm-14/lib/libclang-cpp.so.14 /usr/lib/llvm-14/lib/libLLVM-14.so
CXX := clang++

TOOLS := build/irdump $(if $(wildcard tools/astdump/astdump.cc),build/astdump)
all: $(TOOLS)

build/irdump: tools/irdump/irdump.cc
	@mkdir -p build
	$(CXX) $(LLVMCXX) -fno-rtti -O1 $< -o $@ /usr/lib/llvm-14/lib/libLLVM-14.so

build/astdump: tools/astdump/astdump.cc
	@mkdir -p build
	$(CXX) $(LLVMCXX) -fno-rtti -O1 $< -o $@ $(LIBS)

clean:
	rm -rf build
.PHONY: all clean
