"""C13 all ways of reading one file agree -- structural agreement rules over the instantiated AST of the I/O layer and
bit-provenance of the devices' integer readers."""
import os, re
from . import common as C
from .ast import rules as R

LEVEL = "other"
EXPLANATION = ("Static analysis over the instantiated AST of drivers/io_driver.cpp (every format x {file name, std::istream} x "
               "{read_image, read_view, read_and_convert_*, partial read, scanline reader}): (S1) read_view / "
               "read_and_convert_view call reader.check_image_size(view.dimensions()) before init_view and apply, unconditionally; "
               "(S2) the check_image_size of every back end raises io_error under exactly the four documented conditions "
               "(settings dimension when positive, else the file's dimension, per axis) -- sibling agreement; (S3) the two input "
               "devices agree: both array-reading wrappers turn a short read into io_error, and read_uint16/32 assemble bytes in the "
               "same (little-endian) order (bit provenance); (S4) reader and scanline reader of one format compute the same row "
               "pitch / scanline length expressions (clone-pair agreement); (S5) read_and_no_convert::read is std::copy(begin,end,"
               "out), read_and_convert::read is std::transform with the stored converter; (S6) at every _cc_policy.read(b,e,dst) "
               "of bmp/pnm/targa/png/jpeg the source range is row + _settings._top_left.x ... + _settings._dim.x. Not decided: "
               "equality of the pixels themselves.")
W = "include/boost/gil/"
PATTERNS = ['^boost::gil::reader_backend::', '^boost::gil::reader::', '^boost::gil::scanline_reader::',
            '^boost::gil::detail::(file_stream_device|istream_device|ostream_device)::',
            '^boost::gil::(read_view|read_and_convert_view|read_image|read_and_convert_image|read_image_info)$',
            '^boost::gil::detail::(read_and_no_convert|read_and_convert)::', '^boost::gil::writer::', '^boost::gil::reader_base::',
            '^boost::gil::scanline_read_iterator::']


def io_ast(wd):
    src = os.path.join(C.DRIVERS, "io_driver.cpp")
    d = C.astdump(src, os.path.join(wd, "io.json"), PATTERNS, defs=C.IO_DEFS)
    if d.get("errors"):
        raise C.AnalysisBroken("drivers/io_driver.cpp has compile errors")
    return d["functions"]


ENTRY_WITNESS = r"""
#include "vf_common.hpp"
#include <boost/gil/extension/io/bmp.hpp>
#include <boost/gil/extension/io/pnm.hpp>
#include <boost/gil/extension/io/targa.hpp>
#include <boost/gil/extension/io/png.hpp>
#include <boost/gil/extension/io/jpeg.hpp>
#include <fstream>
using namespace vf;
// the statement's "by file name, FILE* or std::istream", for the factory of the scanline reader as well
template <class Tag> void scan_devices(Tag tag){
  std::ifstream in("f", std::ios::binary); FILE* fp = nullptr; std::string name("f");
  auto r1 = make_scanline_reader(name, tag); auto r2 = make_scanline_reader(in, tag); auto r3 = make_scanline_reader(fp, tag); (void)r1; (void)r2; (void)r3;
}
void inst(){ scan_devices(bmp_tag()); scan_devices(pnm_tag()); scan_devices(targa_tag()); scan_devices(png_tag()); scan_devices(jpeg_tag()); }
"""


def entry_points_compile(rep, wd):
    rep.rule("S0 make_scanline_reader(file name | std::istream | FILE*, tag) instantiates for bmp, pnm, targa, png and jpeg (tiff has no FILE* device): a factory that does not compile "
             "cannot agree with read_image on any device")
    src = os.path.join(wd, "entry_witness.cpp")
    open(src, "w").write(ENTRY_WITNESS)
    rc, err, cmd = C.syntax_only(src, defs=C.IO_DEFS)
    rep.count("obligations:S0")
    if rc == 0:
        rep.ok("S0-entry-points", "S0:make_scanline_reader x {name, istream, FILE*} x 5 formats", "compiles")
        return
    seen = set()
    for e in C.parse_errors(err)[:20]:
        if "include/boost/gil/" not in e["file"]:
            continue
        loc = "%s:%s" % (C.repo_rel(e["file"]), e["line"])
        key = "S0:%s:%s" % (C.repo_rel(e["file"]), re.sub(r"'[^']{40,}'", "'...'", e["msg"])[:100])
        if key in seen:
            continue
        seen.add(key)
        rep.violation("S0-entry-points", key, loc, {"error": e["msg"][:300], "example": "std::ifstream in(...); auto rd = make_scanline_reader(in, pnm_tag());"})
    if not seen:
        raise C.AnalysisBroken("entry point witness does not compile: %s" % err[-600:])


def fmt_of(f):
    m = re.search(r"(bmp|pnm|targa|png|jpeg|tiff|raw)_tag", f.get("cls", "") + f.get("full", ""))
    return m.group(1) if m else None


def run(rep):
    C.need_tools(C.ASTDUMP, C.IRDUMP)
    wd = C.workdir("C13")
    fns = io_ast(wd)
    rep.units.append("drivers/io_driver.cpp: %d instantiated I/O functions" % len(fns))
    rep.trusted += ["clang front end (instantiated AST)", "harness/ast/rules.py", "harness/ir/bits.py"]
    entry_points_compile(rep, wd)
    must_call(rep, fns)
    check_image_size(rep, fns)
    devices_ast(rep, fns)
    devices_bits(rep, wd)
    pitch_pairs(rep, fns)
    policies(rep, fns)
    subrect(rep, fns)
    partial_rows(rep, wd)
    tiff_subimage(rep, fns)
    bmp_mask_decode(rep, fns)
    bmp_rle_subrect(rep, fns)
    png_interlace(rep, fns)
    png_row_table_index(rep, fns)
    partial_rows_scan(rep, fns)
    partial_rows_lib(rep, fns)
    bmp_bit_manipulators(rep, fns)
    scanline_iterator_protocol(rep, fns)
    tiff_palette_size(rep, fns)
    policy_bypass(rep, fns)


def must_call(rep, fns):
    rep.rule("S1 read_view(reader,view) / read_and_convert_view(reader,view): check_image_size(view.dimensions()); init_view(...); apply(view) in this order, unconditionally")
    n = 0
    for f in fns:
        short = f["name"].split("::")[-1]
        if short not in ("read_view", "read_and_convert_view"):
            continue
        body = R.strip(f["body"])
        stmts = [R.strip(s) for s in body.get("c", [])]
        calls = [s for s in stmts if s.get("k") == "Call" and s.get("member_call")]
        names = [c["callee"]["name"].split("::")[-1] for c in calls]
        if "apply" not in names:
            continue        # overloads that construct the reader and delegate
        n += 1
        rep.count("obligations:S1")
        rn = R.param_renamer(f)
        ks = [rn(R.key(c)) for c in calls]
        ok = names[:3] == ["check_image_size", "init_view", "apply"] and ks[0] == "$0.check_image_size($1.dimensions())" and ks[2] == "$0.apply($1)"
        key = "S1:%s" % short
        if ok:
            rep.ok("S1-must-call", key + ":" + (fmt_of(f) or f["full"][-30:]), ks)
        else:
            rep.violation("S1-must-call", key, R.fn_where(f), {"top_level_calls": ks, "expected": ["$0.check_image_size($1.dimensions())", "$0.init_view(...)", "$0.apply($1)"]})
    rep.floor("obligations:S1", 8)


def check_image_size(rep, fns):
    rep.rule("S2 check_image_size raises io_error exactly when: dim.a>0 && img.a<dim.a, or dim.a<=0 && img.a<info.size_a, for a in {x,y} (all back ends agree)")
    want = {frozenset([(">", "_settings._dim.x", "0"), ("<", "$0.x", "_settings._dim.x")]),
            frozenset([("<=", "_settings._dim.x", "0"), ("<", "$0.x", "_info._width")]),
            frozenset([(">", "_settings._dim.y", "0"), ("<", "$0.y", "_settings._dim.y")]),
            frozenset([("<=", "_settings._dim.y", "0"), ("<", "$0.y", "_info._height")])}
    want = {frozenset(R.norm_cmp(*a) for a in s) for s in want}
    seen = set()
    for f in fns:
        if not f["name"].endswith("reader_backend::check_image_size"):
            continue
        fmt = fmt_of(f)
        if fmt in seen:
            continue
        seen.add(fmt)
        rn = R.param_renamer(f)
        got = set()
        for c, p in R.calls_in(f["body"], lambda n: n.endswith("io_error")):
            gs = R.guards(p)
            got.add(frozenset(R.norm_cmp(op, rn(l), rn(r)) for op, l, r in gs))
        rep.count("obligations:S2")
        key = "S2:check_image_size<%s>" % fmt
        if got == want:
            rep.ok("S2-size-check", key, sorted(sorted(x) for x in got)[0])
        else:
            rep.violation("S2-size-check", key, R.fn_where(f), {"error_conditions": sorted(sorted(x) for x in got), "documented": sorted(sorted(x) for x in want)})
    rep.floor("obligations:S2", 6)


def checked_integer_reads(rep, fns, tag, rule):
    """S3c / R1c: the integer readers of both input devices call the checked array overload of read (shared by C13 and C11)"""
    rep.rule(tag + " read_uint8 / read_uint16 / read_uint32 of both input devices call the checked array overload read(T(&)[N]) (one argument); the (pointer, count) overload "
             "only returns the byte count -- called with its result discarded, a field cut off by the end of the input is returned as whatever the buffer held")
    seen_c = set()
    for f in fns:
        m = re.match(r"boost::gil::detail::(file_stream_device|istream_device)::(read_uint8|read_uint16|read_uint32)$", f["name"])
        if not m or f.get("body") is None or m.groups() in seen_c:
            continue
        seen_c.add(m.groups())
        rep.count("obligations:" + tag)
        key = tag + ":%s::%s" % m.groups()
        calls = [(c, p) for c, p in R.calls_in(f["body"], lambda n: n.endswith("_device::read"))]
        unchecked = []
        for c, p in calls:
            if len(c.get("args", [])) >= 2:
                anc = [a for a, _, _ in p if a.get("k") not in ("Paren", "ImplicitCast", "ExprWithCleanups")]
                if anc and anc[-1].get("k") in ("Compound",):
                    unchecked.append(R.key(c)[:80])
        if not calls:
            rep.incon(rule, key, {"unrecognised": "no call of read"})
        elif unchecked:
            rep.violation(rule, key, W + "io/device.hpp:%s" % f["line"], {"unchecked": unchecked,
                          "example": "a win32-header bmp cut to 30..53 bytes read through std::istream: read_image_info returns fields made of stale bytes instead of throwing; FILE* and file name devices throw"})
        else:
            rep.ok(rule, key, [R.key(c)[:60] for c, _ in calls])
    rep.floor("obligations:" + tag, 6)


def devices_ast(rep, fns):
    rep.rule("S3a both input devices: read(T(&)[N]) reports a short read as io_error (io_error_if(read(buf,N) < N))")
    seen = set()
    for f in fns:
        m = re.match(r"boost::gil::detail::(file_stream_device|istream_device)::read$", f["name"])
        if not m or len(f["params"]) != 1:
            continue
        dev = m.group(1)
        if dev in seen:
            continue
        seen.add(dev)
        rn = R.param_renamer(f)
        raw = [c for c, p in R.calls_in(f["body"], lambda n: n.endswith("::read"))]
        checked = False
        for c, p in R.calls_in(f["body"], lambda n: n.endswith("io_error_if")):
            k = rn(R.key(c["args"][0]))
            if re.search(r"read\(\$0,\d+\)", k.replace("this.", "")) and ("<" in k or "!=" in k):
                checked = True
        for c, p in R.calls_in(f["body"], lambda n: n.endswith("io_error")):
            gs = R.guards(p)
            if any("read(" in l + r for op, l, r in gs):
                checked = True
        rep.count("obligations:S3a")
        key = "S3a:%s::read(T(&)[N])" % dev
        if raw and checked:
            rep.ok("S3-short-read", key, "short read -> io_error")
        else:
            rep.violation("S3-short-read", key, W + "io/device.hpp:%s" % f["line"], {"raw_read_calls": len(raw), "result_checked": checked,
                                                                                     "problem": "the byte count returned by read(buf, N) is discarded: a truncated file yields uninitialised header fields instead of an error; the sibling device throws"})
    rep.floor("obligations:S3a", 2)
    checked_integer_reads(rep, fns, "S3c", "S3c-checked-read")


DEV_DRIVER = '''#include "vf_common.hpp"
#include <boost/gil/io/device.hpp>
#include <boost/gil/extension/io/bmp/tags.hpp>
#include <istream>
#include <ostream>
using namespace vf;
using fdev = boost::gil::detail::file_stream_device<bmp_tag>;
using idev = boost::gil::detail::istream_device<bmp_tag>;
using odev = boost::gil::detail::ostream_device<bmp_tag>;
extern "C" {
std::uint16_t w_r16_file(fdev& d){ return d.read_uint16(); }
std::uint32_t w_r32_file(fdev& d){ return d.read_uint32(); }
std::uint8_t  w_r8_file(fdev& d){ return d.read_uint8(); }
std::uint16_t w_r16_istream(idev& d){ return d.read_uint16(); }
std::uint32_t w_r32_istream(idev& d){ return d.read_uint32(); }
std::uint8_t  w_r8_istream(idev& d){ return d.read_uint8(); }
void w_w16_file(fdev& d, std::uint16_t x){ d.write_uint16(x); }
void w_w32_file(fdev& d, std::uint32_t x){ d.write_uint32(x); }
void w_w8_file(fdev& d, std::uint8_t x){ d.write_uint8(x); }
void w_w16_ostream(odev& d, std::uint16_t x){ d.write_uint16(x); }
void w_w32_ostream(odev& d, std::uint32_t x){ d.write_uint32(x); }
void w_w8_ostream(odev& d, std::uint8_t x){ d.write_uint8(x); }
}
'''


def device_bits(wd):
    """returns {wrapper: bits}: readers -> returned bits in terms of buffer bytes; writers -> buffer bytes passed to write()"""
    from .ir.bits import BitsInterp
    src = os.path.join(wd, "devices.cpp")
    open(src, "w").write(DEV_DRIVER)
    bc = C.emit_ir(src, src[:-4] + ".bc", defs=C.IO_DEFS)
    d = C.irdump(bc, src[:-4] + ".json", keep=["_device<.*>::read\\(unsigned char\\*, unsigned long\\)", "_device<.*>::write(<unsigned char>)?\\(unsigned char const\\*, unsigned long\\)", "io_error"])
    out = {}
    for f in d["functions"]:
        if not f["is_root"]:
            continue
        it = BitsInterp(f)
        snaps = []
        orig = it.step

        def step(inst, bid, reach, rets, it=it, snaps=snaps, orig=orig):
            if inst["op"] in ("call", "invoke") and re.search(r"::write(<unsigned char>)?\(unsigned char const\*", inst.get("callee_dem", "")):
                # snapshot of the local buffer handed to the raw write
                args = [it.value_any(o) for o in inst["ops"][:inst["nargs"]]]
                root, c = it.split_addr(args[1])
                n = args[2].const_value() if args[2].is_const() else 0
                snaps.append([it.rd_byte((root, c + j)) for j in range(n)])
            return orig(inst, bid, reach, rets)
        it.step = step
        it.run()
        if f["name"].startswith("w_r"):
            out[f["name"]] = ("read", it.ret_bits())
        else:
            out[f["name"]] = ("write", snaps)
    return out


def devices_bits(rep, wd):
    rep.rule("S3b read_uint8/16/32 of both input devices return the bytes of the buffer in little-endian order (identical bit provenance)")
    res = device_bits(wd)
    for n in (8, 16, 32):
        a, b = res.get("w_r%d_file" % n), res.get("w_r%d_istream" % n)
        rep.count("obligations:S3b")
        key = "S3b:read_uint%d" % n
        ok = a is not None and b is not None and le_read(a[1], n) and le_read(b[1], n)
        if ok:
            rep.ok("S3-byte-order", key, "byte j -> bits [8j,8j+8) on both devices")
        else:
            rep.violation("S3-byte-order", key, W + "io/device.hpp", {"file_stream_device": brief(a), "istream_device": brief(b)})
    rep.floor("obligations:S3b", 3)


def le_read(bits, n):
    """bit 8j+i of the result is bit i of byte j of one local buffer"""
    if bits is None or len(bits) < n:
        return False
    roots = set()
    for pos in range(n):
        b = bits[pos]
        if not (isinstance(b, tuple) and b[0] == "in" and isinstance(b[1], tuple) and b[1][0] == "m"):
            return False
        _, root, off = b[1]
        roots.add(root)
        if off != pos // 8 or b[2] != pos % 8:
            return False
    return len(roots) == 1 and all(x == 0 for x in bits[n:])


def brief(x):
    return None if x is None else repr(x[1])[:300]


def pitch_pairs(rep, fns):
    rep.rule("S4 reader and scanline reader of a format assign the same set of expressions to _pitch / _scanline_length (clone-pair agreement)")
    for fmt, fields in (("bmp", ("_pitch", "_scanline_length")), ("pnm", ("_scanline_length",)), ("targa", ("_scanline_length",))):
        sets = {}
        for f in fns:
            if fmt_of(f) != fmt:
                continue
            cls = "scanline_reader" if "scanline_reader" in f["name"] else ("reader" if f["name"].startswith("boost::gil::reader::") else None)
            if cls is None:
                continue
            for x, p in R.find(f["body"], lambda x: x.get("k") in ("Assign",) and x.get("op") == "="):
                lk = R.key(x["l"]).replace("this.", "")
                if lk in fields:
                    sets.setdefault((cls, lk), set()).add(R.key(x["r"]).replace("this.", ""))
        for fld in fields:
            a, b = sets.get(("reader", fld)), sets.get(("scanline_reader", fld))
            if a is None and b is None:
                continue
            rep.count("obligations:S4")
            key = "S4:%s:%s" % (fmt, fld)
            a2 = {e for e in (a or set()) if e != "0"}
            b2 = {e for e in (b or set()) if e != "0"}
            if a2 == b2 and a2:
                rep.ok("S4-clone-pair", key, sorted(a2))
            else:
                rep.violation("S4-clone-pair", key, W + "extension/io/%s/detail/read.hpp vs scanline_read.hpp" % fmt,
                              {"reader_only": sorted(a2 - b2), "scanline_reader_only": sorted(b2 - a2)})
    rep.floor("obligations:S4", 3)
    # S4c: the text rasters of pnm are parsed into a byte row of the FILE's type (gray8 / rgb8), which is converted afterwards
    rep.rule("S4c pnm reader::read_text_row: the value stored into the byte row for a set bit of a P1 raster is the maximum of the row's own element type (255, as in the scanline "
             "reader's copy) in every instantiation -- not the maximum of the destination view's channel, which a converting read into float / 16-bit / signed pixels instantiates with another type")
    got = {}
    for f in fns:
        if fmt_of(f) != "pnm" or not f["name"].endswith("reader::read_text_row") or "scanline_reader" in f["name"] or f.get("body") is None:
            continue
        for c, _ in R.find(f["body"], lambda x: x.get("k") == "Cond"):
            for arm in ("then", "else"):
                n = c[arm]
                mx = [y for y, _ in R.find(n, lambda y: y.get("k") == "Call" and (y.get("callee") or {}).get("name", "").endswith("max_value"))]
                for y in mx:
                    m = re.search(r"channel_traits(?:_impl)?<([^,>]+(?:<[^>]*>)?[^,>]*)", y["callee"].get("full", ""))
                    got.setdefault(m.group(1).strip() if m else y["callee"].get("full", "")[:60], f)
                cv = None
                k = R.key(n)
                if not mx and k.strip("()").isdigit() and int(k.strip("()")) > 1:
                    got.setdefault("literal %s" % k.strip("()"), f)
    rep.count("obligations:S4")
    wrong = {t: f for t, f in got.items() if t not in ("unsigned char", "literal 255")}
    if not got:
        rep.fail_analysis("S4c: no maximum found in pnm reader::read_text_row")
    elif wrong:
        rep.violation("S4-clone-pair", "S4c:pnm:reader::read_text_row:value of a set bit", R.fn_where(list(wrong.values())[0]), {"maximum taken from channel types": sorted(got),
                      "example": "\"P1 3 1 / 0 1 0\" read with read_and_convert_image into gray32f: white pixels are 0.0039 (the byte 1 converted) instead of 1.0; into gray8s: -1 instead of 127"})
    else:
        rep.ok("S4-clone-pair", "S4c:pnm:reader::read_text_row:value of a set bit", sorted(got))
    # S4d: the overloads of pnm reader::copy_data (gray1 destination / any other) take the same columns of the row
    rep.rule("S4d pnm reader::copy_data, both overloads: the source row is read from column _settings._top_left.x on and _settings._dim.x pixels are taken "
             "(an element access src[i] has _settings._top_left.x in its index and its loop is bounded by _settings._dim.x; an iterator range starts at row_begin + _top_left.x and is _dim.x long)")
    seen_cd = set()
    for f in fns:
        if fmt_of(f) != "pnm" or not f["name"].endswith("reader::copy_data") or f.get("body") is None or len(f["params"]) != 4:
            continue
        kind = "gray1 destination" if "true" in f["params"][3]["type"] else "other destinations"
        if kind in seen_cd:
            continue
        seen_cd.add(kind)
        rep.count("obligations:S4")
        g = R.canonize(f)           # $0 destination, $1 source row view, $2 y
        key = "S4d:pnm:reader::copy_data:%s" % kind
        prob = []
        subs = [x for x, _ in R.find(g["body"], lambda x: (x.get("k") in ("Subscript", "Index") or (x.get("k") == "Call" and x.get("op") == "[]")) and R.key(x).startswith("$1["))]
        for x in subs:
            if "_settings._top_left.x" not in R.key(x):
                prob.append("the source row is indexed with %s: the region's left edge is ignored" % R.key(x)[:60])
        loops = [lp for lp, _ in R.find(g["body"], lambda x: x.get("k") == "For") if R.find(lp["body"], lambda y: R.key(y).startswith("$1["))]
        for lp in loops:
            if "_settings._dim.x" not in R.key(lp["cond"]):
                prob.append("the column loop runs to %s, not to _settings._dim.x" % R.key(lp["cond"])[:60])
        inits = {dd["name"]: R.key(dd["init"]) for dn, _ in R.find(g["body"], lambda x: x.get("k") == "Decl") for dd in dn["decls"] if dd.get("name") and dd.get("init") is not None}

        def expand(k, depth=0):
            for n, v in inits.items():
                if depth < 4 and re.search(r"(?<![\w%%])%s(?![\w])" % re.escape(n), k):
                    k = re.sub(r"(?<![\w%%])%s(?![\w])" % re.escape(n), lambda m: expand(v, depth + 1), k)
            return k
        rng = [expand(R.key(c)) for c, _ in R.find(g["body"], lambda x: x.get("k") == "Call" and "_cc_policy.read(" in R.key(x))]
        for r in rng:
            if "_settings._top_left.x" not in r or "_settings._dim.x" not in r:
                prob.append("the converted range is %s" % r[:120])
        if not subs and not rng and not R.find(g["body"], lambda x: x.get("k") == "Call" and (x.get("callee") or {}).get("name", "").endswith("copy_data")):
            prob.append("no access to the source row found")
        if prob:
            rep.violation("S4-clone-pair", key, R.fn_where(f), {"problems": prob, "example": "\"P1 3 1 / 0 1 0\" read with settings (1,0)+(2,1) into gray1: columns 0,1 instead of 1,2"})
        else:
            rep.ok("S4-clone-pair", key, "columns [_top_left.x, _top_left.x + _dim.x)")
    # S4b: member functions that exist, under one name, in the reader (or its back end) and in the scanline reader of a format and write the same members are copies of
    # each other: their effects and the calls that size or fill the shared state must agree (extra read-only calls, such as an "already done" test, are allowed)
    rep.rule("S4b bmp read_palette exists twice (reader_backend, scanline_reader): both copies have the same effects and the same calls on _palette in canonical form "
             "(a palette entry's alpha, the size, the bytes consumed per entry must not differ between read_image and the scanline reader)")
    clones = {}
    for f in fns:
        parts = f["name"].split("::")
        if fmt_of(f) == "bmp" and parts[-1] == "read_palette" and len(parts) >= 4 and parts[2] in ("reader_backend", "scanline_reader") and parts[2] not in clones and f.get("body") is not None:
            g = R.canonize(f)
            eff = sorted(k for k, _, _ in R.effects(g["body"]))
            calls = sorted(R.key(c) for c, _ in R.find(g["body"], lambda x: x.get("k") == "Call" and x.get("member_call") and
                                                       (R.key(x).startswith("_palette.") or R.key(x).startswith("this._palette.")) and not re.search(r"\.(size|empty)\(\)$", R.key(x))))
            reads = sum(1 for c, _ in R.find(g["body"], lambda x: x.get("k") == "Call" and (x.get("callee") or {}).get("name", "").endswith("read_uint8")))
            clones[parts[2]] = (eff, calls, reads, f)
    rep.count("obligations:S4")
    if len(clones) == 2:
        a, b = clones["reader_backend"], clones["scanline_reader"]
        if a[:3] == b[:3]:
            rep.ok("S4-clone-pair", "S4b:bmp:read_palette", a[1])
        else:
            rep.violation("S4-clone-pair", "S4b:bmp:read_palette", R.fn_where(b[3]), {"reader_backend only": sorted(set(a[0] + a[1]) - set(b[0] + b[1])), "scanline_reader only": sorted(set(b[0] + b[1]) - set(a[0] + a[1])),
                          "bytes read per entry": [a[2], b[2]], "example": "1-bit bmp: read_image gives palette pixels alpha 255, the scanline reader's rows have alpha 0"})
    else:
        rep.fail_analysis("S4b: bmp read_palette copies found: %s" % sorted(clones))


def policies(rep, fns):
    rep.rule("S5 read_and_no_convert::read == std::copy(begin,end,out); read_and_convert::read == std::transform(begin,end,out,deref_t(_cc))")
    seen = set()
    for f in fns:
        m = re.match(r"boost::gil::detail::(read_and_no_convert|read_and_convert)::read$", f["name"])
        if not m or m.group(1) in seen:
            continue
        rn = R.param_renamer(f)
        if m.group(1) == "read_and_no_convert":
            cs = [rn(R.key(c)) for c, p in R.calls_in(f["body"], lambda n: n == "std::copy")]
            if not cs:
                continue    # the incompatible overload (io_error)
            want = ["copy($0,$1,$2)"]
        else:
            cs = [rn(R.key(c)) for c, p in R.calls_in(f["body"], lambda n: n == "std::transform")]
            want = None
        seen.add(m.group(1))
        rep.count("obligations:S5")
        key = "S5:%s::read" % m.group(1)
        ok = cs == want if want else (len(cs) == 1 and cs[0].startswith("transform($0,$1,$2,") and "_cc" in cs[0])
        if ok:
            rep.ok("S5-policy", key, cs)
        else:
            rep.violation("S5-policy", key, W + "io/conversion_policies.hpp", {"calls": cs})
    rep.floor("obligations:S5", 2)


def subrect(rep, fns):
    rep.rule("S6 at every _cc_policy.read(b,e,dst) in bmp/pnm/targa/png/jpeg: b = <row begin> + _settings._top_left.x and e = b + _settings._dim.x")
    seen = set()
    for f in fns:
        fmt = fmt_of(f)
        if fmt not in ("bmp", "pnm", "targa", "png", "jpeg") or not f["name"].startswith("boost::gil::reader::"):
            continue
        decls = {}
        for dn, _ in R.find(f["body"], lambda x: x.get("k") == "Decl"):
            for dd in dn["decls"]:
                if dd.get("name") and dd.get("init") is not None:
                    decls[dd["name"]] = R.key(dd["init"]).replace("this.", "")
        for c, p in R.find(f["body"], lambda x: x.get("k") == "Call" and x.get("member_call") and x["callee"]["name"].endswith("::read") and "_cc_policy" in R.key(x.get("obj"))):
            bk, ek = R.key(c["args"][0]), R.key(c["args"][1])
            site = "%s:%s:%s" % (fmt, f["name"].split("::")[-1], c.get("line"))
            sk = "%s:%s" % (fmt, f["name"].split("::")[-1])
            if (sk, bk, ek) in seen:
                continue
            seen.add((sk, bk, ek))
            rep.count("obligations:S6")
            bdef, edef = decls.get(bk, bk), decls.get(ek, ek)
            okb = bdef.endswith("+ _settings._top_left.x)")
            oke = edef in ("(%s + _settings._dim.x)" % bk,)
            key = "S6:%s:%s" % (sk, bk)
            single = re.fullmatch(r"\(&\w+\)", bk) is not None and ek == "(%s + 1)" % bk
            if single:
                rep.ok("S6-subrect", key, "one pixel handed to the policy (the range is its caller's: S10, S15)")
            elif okb and oke:
                rep.ok("S6-subrect", key, {"begin": bdef[:120], "end": edef[:80]})
            else:
                rep.violation("S6-subrect", key, W + "extension/io/%s/detail/read.hpp:%s" % (fmt, c.get("line")), {"begin": bdef[:200], "end": edef[:200]})
    rep.floor("obligations:S6", 8)
    # ---- S16 the rows that are read are those of the region
    rep.rule("S16 in the readers of bmp/pnm/targa/png/jpeg every loop over output rows runs to _settings._dim.y, the height of the requested region, not to the height of the "
             "destination view: a view that is larger than the region (legal: only smaller ones are refused) otherwise receives file rows from outside the region "
             "(pnm, jpeg), or a short read's stale row buffer")
    seen16 = set()
    for f in fns:
        fmt = fmt_of(f)
        if fmt not in ("bmp", "pnm", "targa", "png", "jpeg") or not f["name"].startswith("boost::gil::reader::") or f.get("body") is None:
            continue
        g = R.canonize(f)
        for lp in R.loops_of(g["body"]):
            if lp.get("k") != "For":
                continue
            iv, i0, cond, inc = R.for_shape(lp)
            if iv is None or cond is None:
                continue
            m = re.fullmatch(r"\(%s < (.+)\)" % re.escape(iv), cond)
            if not m:
                continue
            bound = m.group(1).replace("this.", "")
            # only loops that store rows into the destination (directly, or through the row helpers of the format)
            if not R.calls_in(lp.get("body"), lambda n: n.endswith("::read") or n.split("::")[-1] in ("copy_data", "read_text_row", "read_row", "copy_row_if_needed")) or \
                    not any(("_cc_policy" in R.key(c.get("obj") or {})) or c["callee"]["name"].split("::")[-1] in ("copy_data", "read_text_row", "read_row", "copy_row_if_needed")
                            for c, _ in R.calls_in(lp.get("body"), lambda n: True)):
                continue
            view_h = re.fullmatch(r"\$\d+\.height\(\)", bound) is not None
            if bound != "_settings._dim.y" and not view_h:
                continue
            key = "S16:%s:%s:row loop to %s" % (fmt, f["name"].split("::")[-1], "the view's height" if view_h else "_settings._dim.y")
            if key in seen16:
                continue
            seen16.add(key)
            rep.count("obligations:S16")
            if view_h:
                rep.violation("S16-region-rows", key, W + "extension/io/%s/detail/read.hpp:%s" % (fmt, lp.get("line")),
                              {"loop": cond, "example": "P5 file 1x2 with rows {2},{13}; read_view into a 1x2 view with settings (top_left (0,0), dim (1,1)): row 1 of the view receives 13, a pixel outside the requested region"})
            else:
                rep.ok("S16-region-rows", key, cond)
    rep.floor("obligations:S16", 5)
    # ---- S17 a top-down targa file is stored through a flipped view: of the region, not of the whole destination
    rep.rule("S17 targa reader::apply: every flipped_up_down_view that a top-down file is read through is the flip of "
             "subimage_view(dst_view, 0, 0, _settings._dim.x, _settings._dim.y): flipping the whole destination puts the region at the bottom of a larger view "
             "(bottom-up files and every other format put it at the top left)")
    for f in fns:
        if fmt_of(f) != "targa" or not f["name"].startswith("boost::gil::reader::apply") or f.get("body") is None:
            continue
        g = R.canonize(f)
        args = sorted({R.key(c["args"][0]).replace("this.", "") for c, _ in R.calls_in(g["body"], lambda n: n.endswith("flipped_up_down_view")) if c.get("args")})
        if not args:
            continue
        dinit = {k: (R.key(v).replace("this.", "") if v is not None else None) for k, v in R.decls_of(g["body"]).items()}
        nasg = {}
        for k_, _, _ in R.effects(g["body"]):
            m_ = re.match(r"\((%\d+) [-+*/]?= ", k_)
            if m_:
                nasg[m_.group(1)] = nasg.get(m_.group(1), 0) + 1
        args = sorted({(dinit.get(a) if re.fullmatch(r"%\d+", a) and dinit.get(a) and not nasg.get(a) else a) for a in args})   # a local that is never assigned again stands for its initialiser
        key = "S17:targa:reader::apply:flipped destination"
        if key in seen16:
            continue
        seen16.add(key)
        rep.count("obligations:S17")
        want = "subimage_view($0,0,0,_settings._dim.x,_settings._dim.y)"
        bad = [a for a in args if a.replace(" ", "") != want]
        if bad:
            rep.violation("S17-flipped-region", key, R.fn_where(f), {"flipped": bad, "expected": want,
                          "example": "24-bit 1x1 top-down file read with settings (top_left (0,0), dim (1,1)) into a 1x2 view: the pixel lands in row 1, row 0 stays untouched"})
        else:
            rep.ok("S17-flipped-region", key, args)
    rep.floor("obligations:S17", 1)


def partial_rows(rep, wd):
    """S7: the file position a sub-rectangle read takes output row y from is the position the full read takes row
    top_left.y + y from (abstract execution of the reader with symbolic settings, see p12.IoExec)"""
    from . import p12
    from .ir.poly import Poly
    rep.rule("S7 for bmp/pnm/targa: with settings (X0,Y0,DX,DY) the reader takes output row y from the file position the full read takes image row Y0+y from (polynomials in W,H,Y0,DY,y)")
    d = C.astdump(os.path.join(C.DRIVERS, "c12_driver.cpp"), os.path.join(wd, "c12.json"), p12.PATTERNS, defs=C.IO_DEFS)
    if d.get("errors"):
        raise C.AnalysisBroken("drivers/c12_driver.cpp has compile errors")
    fns = d["functions"]
    y = Poly.atom("y")

    def positions(r):
        rev = p12.dedupe(r["rx"].events)
        rrows = [e for e in rev if e["kind"] == "rawread" and e["loop"]]
        rstores = [e for e in rev if e["kind"] == "rowstore"]
        main = [e for e in rrows if any(s["loop"] == e["loop"] for s in rstores)]
        if len(main) != 1 or r["astop"] is not None:
            return None
        rrow = main[0]
        rstore = [s for s in rstores if s["loop"] == rrow["loop"]][0]
        if rstore["y"] != Poly.atom(rrow["loop"][0]["iv"]):
            return None
        seeks_in = [e for e in rev if e["kind"] == "seek" and e["loop"] == rrow["loop"]]
        if seeks_in and seeks_in[0]["to"] is not None:
            return seeks_in[0]["to"].subst({rrow["loop"][0]["iv"]: y})
        seeks_before = [e for e in rev if e["kind"] == "seek" and not e["loop"]]
        start = seeks_before[-1]["to"] if seeks_before else r["hdr_bytes"]
        if start is None:
            return None
        for e in rrows:
            if e is rrow or e["fn"] != rrow["fn"]:
                continue
            # rows read and discarded before the main loop
            trip = e["loop"][0].get("trip")
            if trip is None or e["size"] is None or len(e["loop"]) != 1:
                return None
            start = start + trip * e["size"]
        return p12.row_position(rrow, start)
    for fmt, pix in (("bmp", "rgb8"), ("bmp", "rgba8"), ("pnm", "rgb8"), ("pnm", "gray8"), ("pnm", "gray1"), ("targa", "rgb8"), ("targa", "rgba8")):
        full = positions(p12.run_case(fns, fmt, pix))
        part = positions(p12.run_case(fns, fmt, pix, partial=True))
        rep.count("obligations:S7")
        key = "S7:%s:%s" % (fmt, pix)
        if full is None or part is None:
            rep.fail_analysis("%s: row position of the reader not recognised (full %r, partial %r)" % (key, full, part))
            continue
        want = full.subst({"y": Poly.atom("Y0") + y})
        if part == want:
            rep.ok("S7-partial-rows", key, {"position_of_output_row_y": repr(part)})
        else:
            rep.violation("S7-partial-rows", key, W + "extension/io/%s/detail/read.hpp" % fmt,
                          {"partial_read_takes_row_y_from": repr(part), "full_read_takes_row_Y0+y_from": repr(want),
                           "problem": "a sub-rectangle read does not return the crop of the full image: the rows come from other file rows"})
    rep.floor("obligations:S7", 7)


def tiff_subimage(rep, fns):
    from . import p12
    rep.rule("S8a tiff tile readers: the extent of an edge tile is `(origin + tile < extent) ? tile : extent - origin`")
    p12.remaining_extent(rep, fns, "S8a-edge-tile", "S8a", lambda f: "reader::" in f["name"], 4)
    # ---- S18 which tile routine runs is a question about the region
    rep.rule("S18 tiff reader::read_tiled_data: the choice between read_tiled_data_subimage (clips to _settings) and read_tiled_data_full (never looks at _settings) is "
             "made from the requested region (_settings._top_left, _settings._dim against the image extent), not from the dimensions of the destination view: a view of the "
             "image's size that is given a smaller region otherwise receives the whole image")
    done18 = False
    for f in fns:
        if not f["name"].endswith("reader::read_tiled_data") or done18 or f.get("body") is None:
            continue
        g18 = R.canonize(f)
        ifs = [x for x, _ in R.find(g18["body"], lambda x: x.get("k") == "If")]
        sel = [x for x in ifs if R.calls_in(x.get("then"), lambda n: n.endswith("read_tiled_data_subimage")) or R.calls_in(x.get("else"), lambda n: n.endswith("read_tiled_data_subimage"))]
        if len(sel) != 1:
            continue
        done18 = True
        rep.count("obligations:S18")
        ck = R.key(sel[0]["cond"]).replace("this.", "")
        uses_view = re.search(r"\$0\.(width|height|dimensions)\(\)", ck) is not None
        uses_region = "_settings._dim" in ck and "_settings._top_left" in ck
        key18 = "S18:tiff:read_tiled_data:routine choice"
        if uses_view or not uses_region:
            rep.violation("S18-tile-routine", key18, R.fn_where(f), {"condition": ck[:200], "example": "5x4 tiled file, region (0,0)+(4,1), destination view 5x4: the full-image routine runs and writes all 20 pixels"})
        else:
            rep.ok("S18-tile-routine", key18, ck[:200])
    rep.floor("obligations:S18", 1)
    rep.rule("S8b read_tiled_data_subimage: corners are inclusive (origin + extent - 1) and a tile is skipped exactly when the inclusive rectangles are disjoint: "
             "tile.tl.x > view.lr.x || tile.tl.y > view.lr.y || tile.lr.x < view.tl.x || tile.lr.y < view.tl.y")
    done = False
    for f in fns:
        if not f["name"].endswith("reader::read_tiled_data_subimage") or done:
            continue
        done = True
        rep.count("obligations:S8b")
        g = R.canonize(f)           # #0 the tile row origin y, #1 the tile column origin x (loops over the image in tile steps); locals by role
        facts = ["%s := %s" % (dd["name"], R.key(dd["init"])) for d, _ in R.find(g["body"], lambda x: x.get("k") == "Decl") for dd in d["decls"] if dd.get("name") and dd.get("init") is not None]
        loops = [l for l in R.loops_of(g["body"]) if l.get("k") == "For"]
        got, cond_key = None, None
        for c, p in R.find(g["body"], lambda x: x.get("k") == "If"):
            th = R.strip(c.get("then"))
            if th is not None and R.find(th, lambda x: x.get("k") == "Continue") and not R.find(th, lambda x: x.get("k") == "Call"):
                got = set()

                def disj(n):
                    n = R.strip(n)
                    while n.get("k") == "Paren":
                        n = R.strip(n["e"])
                    if n.get("k") == "Binary" and n.get("op") == "||":
                        disj(n["l"])
                        disj(n["r"])
                    elif n.get("k") == "Binary":
                        got.add(R.norm_cmp(n["op"], R.key(n["l"]), R.key(n["r"])))
                    else:
                        got.add(("?", R.key(n), ""))
                disj(c["cond"])
        TL = "point_t{#1,#0}"
        env = R.bind(facts, ["{X} := _settings._top_left.x", "{Y} := _settings._top_left.y", "{M} := _settings._dim.x", "{N} := _settings._dim.y",
                             "{P} := _info._width", "{Q} := _info._height",
                             "{A} := point_t{((#1 + {W}) - 1),((#0 + {H}) - 1)}", "{B} := point_t{{X},{Y}}", "{C} := point_t{(({X} + {M}) - 1),(({Y} + {N}) - 1)}"])
        key = "S8b:tiff:read_tiled_data_subimage:overlap test"
        shape_ok = env is not None and len(loops) >= 2 and R.for_shape(loops[0])[:3] == ("#0", "0", "(#0 < %s)" % env["Q"]) and R.for_shape(loops[1])[:3] == ("#1", "0", "(#1 < %s)" % env["P"])
        if not shape_ok or got is None:
            rep.fail_analysis("S8b: corner definitions, tile loops or the skip test of read_tiled_data_subimage have an unrecognised shape (%s)" % [x for x in facts if "point_t" in x][:4])
        else:
            fi = lambda t: R.fill_in(t, env)
            named = [x.split(" := ")[0] for x in facts if x.endswith(":= " + TL) and not x.startswith("=")]
            tl = named[0] if named else TL
            want = {R.norm_cmp(">", tl + ".x", fi("{C}.x")), R.norm_cmp(">", tl + ".y", fi("{C}.y")),
                    R.norm_cmp("<", fi("{A}.x"), fi("{B}.x")), R.norm_cmp("<", fi("{A}.y"), fi("{B}.y"))}
            if got == want:
                rep.ok("S8b-tile-overlap", key, sorted(map(str, got)))
            else:
                rep.violation("S8b-tile-overlap", key, R.fn_where(f), {"skip_condition": sorted(map(str, got)), "disjointness_of_inclusive_rectangles": sorted(map(str, want)), "roles": env,
                                                                       "problem": "a tile that shares exactly one row/column with the requested rectangle is skipped (or a disjoint one processed): the sub-rectangle read differs from the crop of the full read"})
    rep.floor("obligations:S8b", 1)


def bmp_mask_decode(rep, fns):
    rep.rule("S9 bmp 15/16-bit decoding: each of the three channel expressions ((p & M.c.mask) >> M.c.shift) << (8 - M.c.width) uses the mask, shift and width of one and "
             "the same channel, the three use three different channels, each is stored into the like-named colour, and reader and scanline reader use identical expressions")
    per = {}
    for f in fns:
        if fmt_of(f) != "bmp" or not re.search(r"(reader::read_data_15|scanline_reader::read_15_bits_row)$", f["name"]):
            continue
        cls = "scanline_reader" if "scanline_reader" in f["name"] else "reader"
        if cls in per:
            continue
        exprs = {}
        for d, _ in R.find(f["body"], lambda x: x.get("k") == "Decl"):
            for dd in d["decls"]:
                if dd.get("init") is not None and "_mask." in R.key(dd["init"]):
                    exprs[dd["name"]] = R.key(dd["init"]).replace("this.", "")
        stores = {}
        for c, _ in R.find(f["body"], lambda x: x.get("k") in ("Assign", "Call") and (x.get("op") == "=") and "get_color(" in R.key(x)):
            k = R.key(c)
            m = re.search(r"get_color\(.*?,(\w+)_t\{\}\)\s*=\s*\(?(\w+)", k.replace("byte_t{", "").replace("}", ""))
            if m:
                stores[m.group(2)] = m.group(1)
        per[cls] = (exprs, stores, R.fn_where(f))
    for cls, (exprs, stores, where) in sorted(per.items()):
        rep.count("obligations:S9")
        prob = []
        used = {}
        for v, e in sorted(exprs.items()):
            chans = set(re.findall(r"_mask\.(red|green|blue)\.", e))
            fields = re.findall(r"_mask\.(?:red|green|blue)\.(mask|shift|width)", e)
            if len(chans) != 1:
                prob.append("%s mixes the masks of %s: %s" % (v, sorted(chans), e))
            elif sorted(fields) != ["mask", "shift", "width"]:
                prob.append("%s does not use mask, shift and width once each: %s" % (v, e))
            else:
                used[v] = list(chans)[0]
        if len(set(used.values())) != 3 and not prob:
            prob.append("the three expressions use the channels %s" % sorted(used.values()))
        for v, ch in used.items():
            if stores.get(v) not in (None, ch):
                prob.append("%s (decoded with the %s mask) is stored into the %s channel" % (v, ch, stores.get(v)))
        if len(exprs) != 3:
            rep.fail_analysis("S9 %s: expected three mask expressions, found %s" % (cls, sorted(exprs)))
        elif prob:
            rep.violation("S9-mask-decode", "S9:bmp:%s" % cls, where, {"problems": prob})
        else:
            rep.ok("S9-mask-decode", "S9:bmp:%s" % cls, used)
    rep.count("obligations:S9")
    if set(per) == {"reader", "scanline_reader"}:
        a, b = per["reader"][0], per["scanline_reader"][0]
        if sorted(a.values()) == sorted(b.values()):
            rep.ok("S9-mask-decode", "S9:bmp:reader == scanline reader", sorted(a.values())[0])
        else:
            rep.violation("S9-mask-decode", "S9:bmp:reader vs scanline reader", per["scanline_reader"][2], {"reader": a, "scanline_reader": b})
    else:
        rep.fail_analysis("S9: bmp read_data_15 / read_15_bits_row not both instantiated (%s)" % sorted(per))
    rep.floor("obligations:S9", 3)


def bmp_rle_subrect(rep, fns):
    """S10: sub-rectangle reads of run-length encoded BMP files"""
    from .ir.poly import Poly
    rep.rule("S10 bmp RLE: the decode buffer holds one whole image row (_info._width pixels), the row counter runs over the image height, and "
             "copy_row_if_needed copies exactly when top_left.y <= y < top_left.y + dim.y, from columns [top_left.x, top_left.x + dim.x) into view row y - top_left.y")
    P = lambda n: R.poly_of(n, lambda s: s.replace("this.", ""))
    A = Poly.atom
    done = set()
    for f in fns:
        if fmt_of(f) != "bmp":
            continue
        short = f["name"].split("::")[-1]
        if short == "read_palette_image_rle" and "rle" not in done:
            done.add("rle")
            rep.count("obligations:S10")
            prob = []
            g = R.canonize(f)       # locals by role: the decode buffer is what copy_row_if_needed receives, the row range is the pair of
            #                         locals that take the two orientations' first row and one-past-last row
            cr = [c for c, _ in R.calls_in(g["body"], lambda n: n.endswith("::copy_row_if_needed"))]
            bname = {R.key(c["args"][0]) for c in cr}
            bufs = [dd for d, _ in R.find(g["body"], lambda x: x.get("k") == "Decl") for dd in d["decls"] if dd.get("name") in bname]
            if len(bname) != 1 or len(bufs) != 1 or bufs[0].get("init") is None or R.strip(bufs[0]["init"]).get("k") != "Construct":
                prob.append("decode buffer declaration not recognised (the first argument of copy_row_if_needed: %s)" % sorted(bname))
            else:
                sz = P(R.strip(bufs[0]["init"])["args"][0])
                if sz != A("_info._width"):
                    prob.append("the decode buffer has %r elements, the run-length data addresses rows of _info._width pixels" % sz)
            vals = {}
            for d, _ in R.find(g["body"], lambda x: x.get("k") == "Decl"):
                for dd in d["decls"]:
                    if dd.get("name", "").startswith("%") and dd.get("init") is not None:
                        vals.setdefault(dd["name"], []).append(repr(P(dd["init"])))
            for a, _ in R.find(g["body"], lambda x: x.get("k") == "Assign"):
                k = R.key(a["l"])
                if k in vals:
                    vals[k].append(repr(P(a["r"])))
            first = {repr(Poly.const(0)), repr(A("_info._height") - Poly.const(1))}
            last = {repr(A("_info._height")), repr(Poly.const(-1))}
            two = {k: v for k, v in vals.items() if len(v) == 2}
            if not (any(set(v) == first for v in two.values()) and any(set(v) == last for v in two.values())):
                prob.append("row counter: no pair of locals runs from {0, height-1} to {height, -1}; two-valued locals are %s" % sorted((k, v) for k, v in two.items()))
            if prob:
                rep.violation("S10-rle-subrect", "S10:bmp:read_palette_image_rle", R.fn_where(f), {"problems": prob})
            else:
                rep.ok("S10-rle-subrect", "S10:bmp:read_palette_image_rle", "buffer of _info._width pixels, rows over _info._height")
        if short == "copy_row_if_needed" and "copy" not in done:
            done.add("copy")
            rep.count("obligations:S10")
            prob = []
            g = R.canonize(f)       # $0 the decoded row, $1 the destination view, $2 the row number in the image
            facts = ["%s := %s" % (dd["name"], R.key(dd["init"])) for d, _ in R.find(g["body"], lambda x: x.get("k") == "Decl") for dd in d["decls"] if dd.get("name") and dd.get("init") is not None]
            SRC0, DSTROW = "($0.begin() + _settings._top_left.x)", "$1.row_begin(($2 - _settings._top_left.y))"
            ifs = [x for x, _ in R.find(g["body"], lambda x: x.get("k") == "If")]
            conds = set()
            for anc in ifs:
                for x, _ in R.find(anc["cond"], lambda y: y.get("k") == "Binary" and y.get("op") in ("<", "<=", ">", ">=")):
                    conds.add((x["op"], repr(P(x["l"]) - P(x["r"]))))
            y = A("$2")
            want = {(">=", repr(y - A("_settings._top_left.y"))), ("<", repr(y - A("_settings._top_left.y") - A("_settings._dim.y")))}
            if conds != want:
                prob.append("copy condition %s, expected top_left.y <= y < top_left.y + dim.y" % sorted(conds))
            cps = [R.key(c) for c, _ in R.calls_in(g["body"], lambda n: n == "std::copy")]
            loops = R.loops_of(g["body"])
            env = R.bind(facts, ["{B} := " + SRC0, "{E} := ({B} + _settings._dim.x)"])
            if env is None:
                prob.append("source range is not [row.begin() + top_left.x, + dim.x): %s" % facts)
            elif cps:
                if cps != ["copy(%s,%s,%s)" % (env["B"], env["E"], DSTROW)]:
                    prob.append("copy %s, expected the source range into view row y - top_left.y" % cps)
            else:
                # element-wise transfer: for (; b != e; ++b, ++d) <store>(*b, d)
                env2 = R.bind(facts, ["{D} := " + DSTROW], env)
                stores = [R.key(c) for c, pth in R.calls_in(g["body"], lambda n: n.endswith("::store_color") or n.endswith("::read")) if any(a.get("k") == "For" for a, _, _ in pth)]
                ok = env2 is not None and len(loops) == 1 and loops[0].get("k") == "For" and R.key(loops[0].get("cond")) == "(%s != %s)" % (env["B"], env["E"]) and \
                    sorted(re.findall(r"\(\+\+(%\d+)\)", R.key(loops[0].get("inc")))) == sorted([env["B"], env2["D"]]) and \
                    len(stores) == 1 and re.match(r"(this\.)?store_color\(\(\*%s\),%s," % (re.escape(env["B"]), re.escape(env2["D"])), stores[0])
                if not ok:
                    prob.append("row transfer not recognised: loops %s, stores %s" % ([R.key(l.get("cond")) for l in loops], stores))
            if prob:
                rep.violation("S10-rle-subrect", "S10:bmp:copy_row_if_needed", R.fn_where(f), {"problems": prob, "problem": "a sub-rectangle read of an RLE file returns other rows/columns than the crop of the full read (and reads past the row buffer)"})
            else:
                rep.ok("S10-rle-subrect", "S10:bmp:copy_row_if_needed", "rows [Y0,Y0+DY) -> y-Y0, columns [X0,X0+DX)")
    rep.floor("obligations:S10", 2)


def p12_first_call(n, suffix):
    from . import p12
    return p12.first_call(n, suffix)


def png_row_table_index(rep, fns):
    """S19: the whole-image (interlaced) branch of png read_rows decodes into a table of row pointers; output row y of the region is row y + top_left.y of it"""
    rep.rule("S19 png reader::read_rows: every subscript of the row-pointer table that selects the row to be copied to output row y is y + _settings._top_left.y "
             "(a subscript that adds _settings._top_left.x takes the rows from the column origin)")
    seen = False
    for f in fns:
        if fmt_of(f) != "png" or not f["name"].endswith("reader::read_rows") or f.get("body") is None or seen:
            continue
        g = R.canonize(f)
        idx = []
        for x, _ in R.find(g["body"], lambda x: x.get("k") in ("Subscript", "Call") and ("op" not in x or x.get("op") == "[]")):
            k = R.key(x).replace("this.", "")
            m = re.search(r"\[\((#\d+|%\d+) \+ (_settings\._top_left\.[xy])\)\]", k)
            if m:
                idx.append(m.group(2))
        if not idx:
            continue
        seen = True
        rep.count("obligations:S19")
        bad = [i for i in idx if i.endswith(".x")]
        if bad:
            rep.violation("S19-row-table", "S19:png:read_rows:row table index", R.fn_where(f), {"row subscripts": idx,
                          "example": "Adam7 png 9x8, region origin (0,1): the rows are taken from row 0 on; the result is not the crop of the full read"})
        else:
            rep.ok("S19-row-table", "S19:png:read_rows:row table index", idx)
    rep.floor("obligations:S19", 1)


def png_interlace(rep, fns):
    rep.rule("S11 png reader: a loop over the interlace passes that reads every row into one and the same row buffer is reached only for single-pass images "
             "(libpng assembles each row over all passes, so the rows must persist between passes); the multi-pass case reads the whole image with "
             "png_read_image over one pointer per image row and copies rows top_left.y + y")
    done = False
    for f in fns:
        if fmt_of(f) != "png" or not f["name"].endswith("reader::read_rows") or done:
            continue
        done = True
        rep.count("obligations:S11")
        prob = []
        for lp, p in R.find(f["body"], lambda x: x.get("k") == "For" and x.get("cond") is not None and "_number_passes" in R.key(x["cond"])):
            reads = [c for c, _ in R.find(lp.get("body"), lambda x: x.get("k") == "Call" and (x.get("callee") or {}).get("name", "") in ("png_read_rows", "png_read_row"))]
            one_buffer = [c for c in reads if not re.search(r"\[", R.key(c["args"][1]))]
            if one_buffer:
                gs = R.guards(p)
                single = any((op, l, r) in (("<=", "_number_passes", "1"), ("==", "_number_passes", "1"), ("<", "_number_passes", "2")) or
                             (op, l.replace("this.", ""), r) in (("<=", "_number_passes", "1"), ("==", "_number_passes", "1")) for op, l, r in gs)
                if not single:
                    prob.append("the pass loop at line %s reads all rows of every pass into %s and is reachable with more than one pass" % (lp.get("line"), R.key(one_buffer[0]["args"][1])))
        whole = [c for c, p in R.calls_in(f["body"], lambda n: n == "png_read_image")]
        if not prob and not whole:
            prob.append("no png_read_image for interlaced images")
        if prob:
            rep.violation("S11-interlace", "S11:png:read_rows", R.fn_where(f), {"problems": prob, "problem": "interlaced files decode to mixed-up rows, and sub-rectangle reads disagree with the full read"})
        else:
            rep.ok("S11-interlace", "S11:png:read_rows", "multi-pass images go through png_read_image; the one-buffer pass loop only runs for one pass")
    if not done:
        rep.fail_analysis("S11: png reader::read_rows not instantiated")
    rep.floor("obligations:S11", 1)


def partial_rows_scan(rep, fns):
    """S7b: like S7, for the BMP variants GIL cannot write itself (palette 1/4/8 bit, 15/16 bit with and without bit fields): the reader is executed
    abstractly under a constant header, once for the whole image and once for the rectangle (X0,Y0,DX,DY)"""
    from . import p12
    from .ast.absexec import Stop
    from .ir.poly import Poly
    rep.rule("S7b bmp palette and 15/16-bit readers: the file position a sub-rectangle read takes output row y from is the position the full read takes row Y0+y from")
    readers = [f for f in fns if f["name"].endswith("reader::apply") and fmt_of(f) == "bmp" and "file_stream_device" in f["full"] and "read_and_convert<" in f["full"]]
    if not readers:
        rep.fail_analysis("S7b: no bmp reader<...,read_and_convert>::apply instantiation")
        return
    y = Poly.atom("y")

    def run(bpp, comp, partial):
        ex = p12.ScanExec(fns)
        ex.ranges.update({"NC": (0, 2 ** 31 - 1), "X0": (1, p12.BIG), "Y0": (1, p12.BIG), "DX": (1, p12.BIG), "DY": (1, p12.BIG)})
        env = {"_bits_per_pixel": Poly.const(bpp), "_compression": Poly.const(comp), "_header_size": Poly.const(40), "_valid": Poly.const(1),
               "_width": Poly.atom("W"), "_height": Poly.atom("H"), "_num_colors": Poly.atom("NC"), "_offset": Poly.atom("OFF"), "_top_down": Poly.const(0)}
        ex.ranges["OFF"] = (54, 2 ** 20)
        for k, v in env.items():
            ex.env["M:_info." + k] = v
        st = {"_top_left.x": Poly.const(0), "_top_left.y": Poly.const(0), "_dim.x": Poly.atom("W"), "_dim.y": Poly.atom("H")}
        if partial:
            st = {"_top_left.x": Poly.atom("X0"), "_top_left.y": Poly.atom("Y0"), "_dim.x": Poly.atom("DX"), "_dim.y": Poly.atom("DY")}
        for k, v in st.items():
            ex.env["M:_settings." + k] = v
        try:
            ex.invoke(readers[0], [])
        except Stop as s:
            return None, "stops with %s at line %s" % (s.why, s.line)
        rev = p12.dedupe(ex.events)
        seeks = [e for e in rev if e["kind"] == "seek" and len(e["loop"]) == 1 and e["to"] is not None]
        if len(seeks) != 1:
            return None, "%d row seeks" % len(seeks)
        return seeks[0]["to"].subst({seeks[0]["loop"][0]["iv"]: y}), None
    for bpp, comp, name in ((1, 0, "1bpp"), (4, 0, "4bpp"), (8, 0, "8bpp"), (16, 0, "16bpp"), (16, 3, "16bpp bitfields"), (24, 0, "24bpp"), (32, 0, "32bpp")):
        rep.count("obligations:S7b")
        full, e1 = run(bpp, comp, False)
        part, e2 = run(bpp, comp, True)
        key = "S7b:bmp:%s" % name
        if full is None or part is None:
            rep.fail_analysis("%s: abstract run %s" % (key, e1 or e2))
            continue
        want = full.subst({"y": Poly.atom("Y0") + y})
        if part == want:
            rep.ok("S7-partial-rows", key, {"position_of_output_row_y": repr(part)[:160]})
        else:
            rep.violation("S7-partial-rows", key, W + "extension/io/bmp/detail/read.hpp", {"partial_read_takes_row_y_from": repr(part)[:300], "full_read_takes_row_Y0+y_from": repr(want)[:300]})
    rep.floor("obligations:S7b", 7)


def partial_rows_lib(rep, fns):
    """S7c: png (single pass) / jpeg / tiff strips: which image row the codec delivers for output row y"""
    from . import p12
    from .ast.absexec import Stop
    from .ir.poly import Poly
    rep.rule("S7c png (non-interlaced), jpeg and tiff strip readers with settings (X0,Y0,DX,DY): the image row the codec delivers for output row y is Y0+y -- "
             "sequential codecs: rows read and discarded before the main loop == Y0 and the main loop ascends from 0; tiff: the row index passed to "
             "read_scanline == Y0 + destination row; png additionally reads exactly H rows in total")
    y = Poly.atom("y")
    for fmt, fname in (("png", "reader::read_rows"), ("jpeg", "reader::read_rows"), ("tiff", "reader::read_stripped_data")):
        cands = [f for f in fns if f["name"].endswith(fname) and fmt_of(f) == fmt and "file_stream_device" in f["full"]]
        rep.count("obligations:S7c")
        key = "S7c:%s:%s" % (fmt, fname.split("::")[-1])
        if not cands:
            rep.fail_analysis("%s: not instantiated" % key)
            continue
        f = cands[0]
        ex = p12.ScanExec(fns)
        ex.ranges.update({"X0": (1, p12.BIG), "Y0": (1, p12.BIG), "DX": (1, p12.BIG), "DY": (1, p12.BIG)})
        ex.env["M:_info._width"] = Poly.atom("W")
        ex.env["M:_info._height"] = Poly.atom("H")
        ex.env["M:_number_passes"] = Poly.const(1)
        for k, a in (("_top_left.x", "X0"), ("_top_left.y", "Y0"), ("_dim.x", "DX"), ("_dim.y", "DY")):
            ex.env["M:_settings." + k] = Poly.atom(a)
        try:
            ex.invoke(f, [])
        except Stop as st:
            rep.fail_analysis("%s: abstract run stops with %s at line %s" % (key, st.why, st.line))
            continue
        ev = [e for e in ex.events if e["kind"] in ("librow", "rowstore")]
        libs = [e for e in ev if e["kind"] == "librow"]
        stores = [e for e in ev if e["kind"] == "rowstore" and e["loop"]]
        if not stores or not libs:
            rep.fail_analysis("%s: no row store / codec row read found" % key)
            continue
        st = stores[0]
        main = [e for e in libs if e["loop"] == st["loop"]]
        prob = []
        if len(main) != 1 or st["y"] is None:
            prob.append("main loop not recognised")
        else:
            lp = st["loop"][-1]
            iv = Poly.atom(lp["iv"])
            if main[0]["row"] is not None:
                # explicit row index (tiff): row - dst_row == Y0
                if main[0]["row"] - st["y"] != Poly.atom("Y0"):
                    prob.append("read_scanline is asked for row %r while storing destination row %r" % (main[0]["row"], st["y"]))
            else:
                before = Poly.const(0)
                for e in libs:
                    if e is main[0]:
                        break
                    trip = e["loop"][-1].get("trip") if e["loop"] else Poly.const(1)
                    if trip is None:
                        prob.append("trip count of the loop at line %s not determined" % e["line"])
                        break
                    before = before + trip
                if lp["init"] is None or lp["step"] != 1:
                    prob.append("main loop does not ascend by one")
                else:
                    delivered = before + (iv - lp["init"])
                    if delivered - st["y"] != Poly.atom("Y0"):
                        prob.append("the codec delivers image row %r for destination row %r" % (delivered.subst({lp["iv"]: y}), st["y"].subst({lp["iv"]: y})))
                if fmt == "png" and not prob:
                    after = Poly.const(0)
                    seen_main = False
                    for e in libs:
                        if e is main[0]:
                            seen_main = True
                            continue
                        if seen_main:
                            trip = e["loop"][-1].get("trip") if e["loop"] else Poly.const(1)
                            after = (after + trip) if trip is not None else None
                            if after is None:
                                break
                    total = None if after is None or lp.get("trip") is None else before + lp["trip"] + after
                    if total != Poly.atom("H"):
                        prob.append("rows read in total: %r (libpng needs exactly H)" % (total,))
        if prob:
            rep.violation("S7-partial-rows", key, R.fn_where(f), {"problems": prob})
        else:
            rep.ok("S7-partial-rows", key, "codec row == Y0 + destination row")
    rep.floor("obligations:S7c", 3)


def bmp_bit_manipulators(rep, fns):
    rep.rule("S12 bmp sub-byte rows: reader and scanline reader apply the same byte functor per depth (1 bit: mirror_bits, 4 bit: swap_half_bytes, 8 bit: none) before the palette look-up")
    rd, sc = {}, {}
    for f in fns:
        if fmt_of(f) != "bmp":
            continue
        if f["name"].endswith("reader::read_palette_image") and "scanline" not in f["name"]:
            m = re.search(r"read_palette_image<(.*)$", f["full"])
            if not m:
                continue
            t = m.group(1)
            b = re.search(r"bit_aligned_pixel_reference<unsigned \w+, boost::mp11::mp_list<std::integral_constant<unsigned int, (\d+)>>", t)
            bits = int(b.group(1)) if b else 8
            fun = re.search(r"detail::(mirror_bits|swap_half_bytes|do_nothing|negate_bits)<", t)
            rd[bits] = fun.group(1) if fun else "?"
        m = re.search(r"scanline_reader::read_(\d+)_bits?_row$", f["name"])
        if m and int(m.group(1)) in (1, 4, 8):
            calls = [x["callee"]["name"].split("::")[-2] for x, _ in R.find(f["body"], lambda x: x.get("k") == "Call" and x.get("op") == "()" and
                     re.search(r"(mirror_bits|swap_half_bytes|negate_bits|do_nothing)::operator\(\)$", (x.get("callee") or {}).get("name", "")))]
            sc[int(m.group(1))] = calls[0] if len(calls) == 1 else ("do_nothing" if not calls else "+".join(calls))
    want = {1: "mirror_bits", 4: "swap_half_bytes", 8: "do_nothing"}
    for bits in (1, 4, 8):
        rep.count("obligations:S12")
        key = "S12:bmp:%d-bit" % bits
        if bits not in rd or bits not in sc:
            rep.fail_analysis("%s: functor not found (reader %s, scanline reader %s)" % (key, rd.get(bits), sc.get(bits)))
        elif rd[bits] == sc[bits] == want[bits]:
            rep.ok("S12-bit-manipulator", key, rd[bits])
        else:
            rep.violation("S12-bit-manipulator", key, W + "extension/io/bmp/detail/read.hpp vs scanline_read.hpp", {"reader": rd[bits], "scanline_reader": sc[bits], "bmp_format": want[bits]})
    rep.floor("obligations:S12", 3)


def scanline_iterator_protocol(rep, fns):
    """S13: scanline_read_iterator as a finite-state machine: every row of the stream is consumed exactly once"""
    from .ast.absexec import Exec, Stop
    from .ir.poly import Poly
    rep.rule("S13 scanline_read_iterator: over every sequence of dereference and increment, each row position is consumed from the reader exactly once "
             "(read on the first dereference, or skip at the increment if it was never dereferenced) -- the flag automaton extracted from the two members is explored exhaustively")
    inc = [f for f in fns if f["name"].endswith("scanline_read_iterator::increment")]
    der = [f for f in fns if f["name"].endswith("scanline_read_iterator::dereference")]
    rep.count("obligations:S13")
    if not inc or not der:
        rep.fail_analysis("S13: scanline_read_iterator::increment/dereference not instantiated")
        return

    class Ex(Exec):
        def on_call(self, n):
            nm = (n.get("callee") or {}).get("name", "")
            if n.get("member_call") and nm.split("::")[-1] in ("read", "skip") and "reader_" in R.key(n.get("obj")):
                self.events.append(nm.split("::")[-1])
                return None
            return None

        def ev(self, n):
            n1 = R.strip(n)
            if isinstance(n1, dict) and n1.get("k") == "Unary" and n1.get("op") in ("++", "--") and "pos_" in R.key(n1.get("e")):
                self.events.append("advance")
                return None
            return Exec.ev(self, n)

    def step(f, rd, sk):
        ex = Ex(fns)
        ex.env["M:read_scanline_"] = Poly.const(rd)
        ex.env["M:skip_scanline_"] = Poly.const(sk)
        ex.invoke(f, [])
        r, s = ex.env.get("M:read_scanline_"), ex.env.get("M:skip_scanline_")
        if r is None or s is None or not r.is_const() or not s.is_const():
            raise Stop("flag value not constant after %s" % f["name"].split("::")[-1])
        return ex.events, r.const_value(), s.const_value()
    # states: (read flag, skip flag, consumed): initial flags from the member initialisers (true, true)
    start = (1, 1, 0)
    seen, todo, prob = {start}, [(start, "")], []
    try:
        while todo and not prob:
            (rd, sk, cons), hist = todo.pop()
            for opn, f in (("*", der[0]), ("++", inc[0])):
                evs, r2, s2 = step(f, rd, sk)
                c2 = cons
                for e in evs:
                    if e in ("read", "skip"):
                        if c2:
                            prob.append("after `%s` the operation `%s` consumes the current row a second time (%s)" % (hist, opn, e))
                        c2 = 1
                    if e == "advance":
                        if not c2:
                            prob.append("after `%s` the operation `%s` moves to the next row without reading or skipping the current one: a later dereference delivers an earlier row" % (hist, opn))
                        c2 = 0
                st = (r2, s2, c2)
                if st not in seen and len(hist) < 24:
                    seen.add(st)
                    todo.append((st, (hist + " " + opn).strip()))
    except Stop as s:
        rep.fail_analysis("S13: %s" % s.why)
        return
    if prob:
        rep.violation("S13-scanline-iterator", "S13:scanline_read_iterator", W + "io/scanline_read_iterator.hpp:%s" % inc[0]["line"], {"problems": prob[:4], "states_explored": len(seen)})
    else:
        rep.ok("S13-scanline-iterator", "S13:scanline_read_iterator", {"states_explored": len(seen)})
    rep.floor("obligations:S13", 1)



def tiff_palette_size(rep, fns):
    """S14: the tiff reader and the tiff scanline reader wrap the colour map in a palette view with one entry per index value"""
    rep.rule("S14 tiff palette: every planar_rgb_view over the colour map (reader and scanline reader) is max_value()+1 entries wide, max_value() being the index "
             "channel's maximum: the highest index addresses the last entry (siblings must agree; canonical form, the width local inlined)")
    seen = {}
    for f in fns:
        if fmt_of(f) != "tiff" or f.get("body") is None or not re.search(r"::(reader|scanline_reader)::", "::" + f["name"].split("boost::gil::")[-1]):
            continue
        g = R.canonize(f)
        for c, _ in R.calls_in(g["body"], lambda n: n.endswith("::planar_rgb_view")):
            w = re.sub(r"\.operator [\w ]+\(\)", "", R.key(c["args"][0]))
            cls = f["name"].split("::")[-2]
            # a width held in a once-assigned local: resolve it
            if re.fullmatch(r"%\d+", w) and g["canon_single"].get(w):
                w = re.sub(r"\.operator [\w ]+\(\)", "", {dd["name"]: R.key(dd["init"]) for d, _ in R.find(g["body"], lambda x: x.get("k") == "Decl") for dd in d["decls"] if dd.get("init") is not None}.get(w, w))
            key = "S14:tiff:%s::%s:palette width" % (cls, f["name"].split("::")[-1])
            ok = w in ("(max_value() + 1)", "(1 + max_value())")
            if key not in seen or (seen[key][0] and not ok):
                seen[key] = (ok, w, R.fn_where(f, c))
    for key, (ok, w, where) in sorted(seen.items()):
        rep.count("obligations:S14")
        if ok:
            rep.ok("S14-palette-size", key, w)
        else:
            rep.violation("S14-palette-size", key, where, {"width": w, "expected": "max_value() + 1", "problem": "the palette view has no entry for the highest index: a pixel with that index is outside the view "
                                                           "(assertion in debug builds; the sibling reader uses max_value()+1)"})
    rep.floor("obligations:S14", 2)



def policy_bypass(rep, fns):
    """S15: in a reader instantiated with a converting policy every pixel reaches the destination view through _cc_policy.read"""
    rep.rule("S15 bmp/pnm/targa/tiff readers instantiated with read_and_convert<CC>: no member function stores into the destination view directly (assignment through an "
             "iterator obtained from view.row_begin/begin/x_at, or std::copy/fill/transform into one) -- every pixel goes through _cc_policy.read, so that "
             "read_and_convert_image == color_convert of read_image (direct stores are the no-convert overload's business, selected by is_read_only)")
    seen = {}
    refusals = {}
    n_fn = 0
    for f in fns:
        cls = f.get("cls", "")
        if "read_and_convert<" not in cls or not re.search(r"(bmp|pnm|targa|tiff)_tag", cls) or f.get("body") is None or "::reader::" not in "::" + f["name"]:
            continue
        # S15b: a member of a converting reader that does nothing but raise refuses a destination type instead of converting into it
        top = [st for st in (f["body"].get("c") or []) if st.get("k") not in ("Null",)]
        if len(top) == 1 and top[0].get("k") == "Call" and (top[0].get("callee") or {}).get("name", "").endswith("io_error") and len(f["params"]) >= 2:
            fmt0 = re.search(r"(bmp|pnm|targa|tiff)_tag", cls).group(1)
            refusals.setdefault("S15b:%s:reader::%s:unconditional io_error" % (fmt0, f["name"].split("::")[-1]), (R.fn_where(f), R.key(top[0]["args"][0])[:100] if top[0].get("args") else ""))
        n_fn += 1
        g = R.canonize(f)
        facts = {dd["name"]: R.key(dd["init"]) for d, _ in R.find(g["body"], lambda x: x.get("k") == "Decl") for dd in d["decls"] if dd.get("name") and dd.get("init") is not None}
        dst = {n for n, k in facts.items() if re.match(r"\$\d+\.(row_begin|begin|x_at|at|row_end)\(", k)}
        # parameters that are iterators handed in by a caller which took them from the view are the callee's business: the caller's store site is the call
        fmt = re.search(r"(bmp|pnm|targa|tiff)_tag", cls).group(1)
        for k, x, p in R.effects(g["body"]):
            m = re.match(r"\(\(\*\(?(%\d+|\$\d+\.row_begin\([^)]*\))(?: \+\+ 0)?\)?\) = ", k) or re.match(r"\((%\d+)\[[^\]]*\] = ", k)
            if m and (m.group(1) in dst or m.group(1).startswith("$")):
                key = "S15:%s:reader::%s:%s" % (fmt, f["name"].split("::")[-1], re.sub(r"[%#@&]\d+", "%", k)[:80])
                seen.setdefault(key, R.fn_where(f, x))
        for c, p in R.calls_in(g["body"], lambda n: n in ("std::copy", "std::fill", "std::fill_n", "std::transform", "std::copy_n")):
            k = R.key(c)
            if re.search(r"\$\d+\.row_begin\(", k) or any(re.search(r"(?<![\w%%])%s(?!\d)" % re.escape(n), k) for n in dst):
                key = "S15:%s:reader::%s:%s" % (fmt, f["name"].split("::")[-1], re.sub(r"[%#@&]\d+", "%", k)[:80])
                seen.setdefault(key, R.fn_where(f, c))
    rep.analysed["converting reader members"] = n_fn
    rep.count("obligations:S15")
    if n_fn < 20:
        rep.fail_analysis("S15: only %d member functions of converting bmp/pnm/targa readers instantiated" % n_fn)
    elif not seen:
        rep.ok("S15-policy-bypass", "S15: %d member functions of converting readers, no direct store into the destination view" % n_fn, n_fn)
    rep.count("obligations:S15")
    if not refusals:
        rep.ok("S15-policy-bypass", "S15b: no member of a converting reader is an unconditional io_error", n_fn)
    for key, (where, msg) in sorted(refusals.items()):
        rep.violation("S15-policy-bypass", key, where, {"message": msg, "problem": "a decode path of a converting reader that refuses the destination type outright: read_and_convert_image throws where "
                                                        "color_convert of the native read is defined", "example": "tiff palette file, read_and_convert_image into rgb8: \"User supplied image type must be rgb16_image_t.\""})
    for key, where in sorted(seen.items()):
        rep.count("obligations:S15")
        rep.violation("S15-policy-bypass", key, where, {"problem": "this store does not pass through the color converter: read_and_convert_image delivers the channels copied by name "
                                                        "(a palette BMP into gray8: the red channel instead of the luminance)"})
