"""D-poly: global value numbering with a polynomial normal form over irdump JSON.

Every integer / pointer SSA value becomes a polynomial with integer coefficients over atoms:
arguments, loads keyed by (address polynomial, size, memory epoch), and uninterpreted terms
(UDIV/SDIV/SREM/UREM/SELECT/CMP/PHI/CALL) over normalised arguments. Pointers are byte addresses.
Two values with equal normal forms are equal for all inputs; no solver is involved.
Stores are tracked in a small memory model keyed by exact address polynomial; a store through an
address that cannot be separated from a tracked cell bumps the epoch (all loads after it get
fresh atoms)."""
from fractions import Fraction as Fr


class Poly:
    __slots__ = ("t", "_h")

    def __init__(self, terms=None):
        self.t = {k: v for k, v in (terms or {}).items() if v != 0}
        self._h = None

    @staticmethod
    def const(c):
        return Poly({(): c}) if c else Poly()

    @staticmethod
    def atom(a):
        return Poly({(a,): 1})

    def key(self):
        return tuple(sorted(self.t.items()))

    def __hash__(self):
        if self._h is None:
            self._h = hash(self.key())
        return self._h

    def __eq__(self, o):
        return isinstance(o, Poly) and self.t == o.t

    def __add__(self, o):
        t = dict(self.t)
        for k, v in o.t.items():
            t[k] = t.get(k, 0) + v
        return Poly(t)

    def __neg__(self):
        return Poly({k: -v for k, v in self.t.items()})

    def __sub__(self, o):
        return self + (-o)

    def __mul__(self, o):
        t = {}
        for k1, v1 in self.t.items():
            for k2, v2 in o.t.items():
                k = k1 + k2
                if any(is_bool_atom(a) for a in k):
                    seen, kk = set(), []
                    for a in k:
                        if is_bool_atom(a):
                            if a in seen:
                                continue
                            seen.add(a)
                        kk.append(a)
                    k = kk
                k = tuple(sorted(k))
                t[k] = t.get(k, 0) + v1 * v2
        return Poly(t)

    def scale(self, c):
        return Poly({k: v * c for k, v in self.t.items()})

    def is_const(self):
        return all(k == () for k in self.t)

    def const_value(self):
        return self.t.get((), 0)

    def atoms(self):
        s = set()
        for k in self.t:
            s.update(k)
        return s

    def divisible_by(self, c):
        return all(v % c == 0 for v in self.t.values())

    def div_exact(self, c):
        return Poly({k: v // c for k, v in self.t.items()})

    def __repr__(self):
        if not self.t:
            return "0"
        parts = []
        for k, v in sorted(self.t.items(), key=lambda kv: (len(kv[0]), kv[0])):
            m = "*".join(k)
            if not k:
                parts.append(str(v))
            elif v == 1:
                parts.append(m)
            elif v == -1:
                parts.append("-" + m)
            else:
                parts.append("%d*%s" % (v, m))
        return " + ".join(parts).replace("+ -", "- ")

    def subst(self, mapping):
        """mapping: atom -> Poly"""
        out = Poly()
        for k, v in self.t.items():
            term = Poly.const(v)
            for a in k:
                term = term * (mapping[a] if a in mapping else Poly.atom(a))
            out = out + term
        return out


def is_bool_atom(a):
    return a.startswith("CMP_") or a.startswith("FCMP_") or a.startswith("B1:")


ONE = Poly.const(1)


class Unsupported(Exception):
    pass


class Agg:
    def __init__(self, elems):
        self.elems = dict(elems)   # index tuple -> value

    def __eq__(self, o):
        return isinstance(o, Agg) and self.elems == o.elems

    def __repr__(self):
        return "{%s}" % ", ".join("%s:%r" % kv for kv in sorted(self.elems.items()))


class PolyInterp:
    def __init__(self, fn, arg_names=None, pre=None, facts=None, readonly=(), pure=()):
        """arg_names: optional list of symbolic names for the arguments (default a0,a1,..).
        facts: callable(poly) -> (lo,hi) or None giving known ranges of atoms (for div/mod rewrites)."""
        self.fn = fn
        self.val = {}
        self.arg_names = arg_names or {}
        self.mem = {}          # (addr Poly) -> (size, value)
        self.epoch = 0
        self.ret = None
        self.stores = []       # (addr, size, value, inst)
        self.calls = []        # (callee_dem, [arg values], inst)
        self.block = {b["id"]: b for b in fn["blocks"]}
        self.inst_of = {}
        self.range_of = facts or (lambda p: None)
        self.alloca_n = 0
        self.notes = []
        self.globals = {}
        self.atom_info = {}
        self.qx = {}
        self.assumed = set()
        import re as _re
        self.readonly = [_re.compile(r) for r in readonly]   # callees that do not write objects passed by (const) reference
        self.pure = [_re.compile(r) for r in pure]           # callees whose result depends on the arguments only, no effects

    # ---- operands
    def atom_for_arg(self, a):
        return self.arg_names.get(a, a)

    def operand(self, o):
        k = o["k"]
        if k == "c":
            return Poly.const(int(o["s"]))
        if k == "arg":
            return Poly.atom(self.atom_for_arg(o["id"]))
        if k == "v":
            if o["id"] not in self.val:
                raise Unsupported("use before def: " + o["id"])
            return self.val[o["id"]]
        if k == "null":
            return Poly.const(0)
        if k == "undef":
            return Poly.atom("UNDEF")
        if k == "cf":
            return Poly.atom("F(%r)" % float.fromhex(o["hex"]))
        if k == "g":
            if o.get("const") and o.get("init"):
                self.globals["@" + o["name"]] = (o["init"], o.get("elt_bits", 0))
            return Poly.atom("@" + o["name"])
        if k == "fn":
            return Poly.atom("@" + o["name"])
        if k == "ce":
            if o["op"] in ("bitcast", "inttoptr", "ptrtoint", "addrspacecast"):
                return self.operand(o["ops"][0])
            if o["op"] == "getelementptr" and "gep_const" in o:
                return self.operand(o["ops"][0]) + Poly.const(o["gep_const"])
            return Poly.atom("CE(%s)" % o["op"])
        if k == "const_other":
            return Poly.atom("CONST(%s)" % o.get("s"))
        raise Unsupported("operand kind " + k)

    def fn_atom(self, name, *args):
        a = "%s(%s)" % (name, ",".join(repr(a) for a in args))
        if name in ("UDIV", "SDIV") and len(args) == 2:
            self.atom_info[a] = (name, args[0], args[1])
        return Poly.atom(a)

    def atom_range(self, a):
        r = self.range_of(a)
        if r is not None:
            return r
        info = self.atom_info.get(a)
        if info:
            n, d = self.rng(info[1]), self.rng(info[2])
            if n is not None and d is not None and d[0] > 0 and n[0] >= 0:
                return (n[0] // d[1], n[1] // d[0])
        if a.startswith("CMP_") or a.startswith("B1:") or a.startswith("FCMP_"):
            return (0, 1)
        return None

    def small_by_construction(self, o, bits):
        """the value fits `bits` signed bits by the instruction that defines it (x % c, x & c, a widened narrower value, a comparison)"""
        if o.get("k") == "c":
            return True
        d = self.inst_of.get(o.get("id")) if o.get("k") == "v" else None
        if d is None:
            return False
        lim = 1 << (bits - 1)
        dops = d.get("ops", [])
        if d["op"] in ("srem", "urem") and dops[1].get("k") == "c" and 0 < abs(int(dops[1]["s"])) <= lim:
            return True
        if d["op"] == "and" and any(x.get("k") == "c" and 0 <= int(x["s"]) < lim for x in dops):
            return True
        if d["op"] in ("sext", "zext") and (dops[0].get("bits") or self.width_of(dops[0])) < bits:
            return True
        if d["op"] in ("icmp", "fcmp"):
            return True
        if d["op"] == "select":
            return all(self.small_by_construction(x, bits) for x in dops[1:3])
        if d["op"] == "phi":
            return False
        return False

    # ---- arithmetic helpers
    def rng(self, p):
        """interval of a polynomial from atom facts (best effort); None if unknown"""
        lo = hi = 0
        for k, v in p.t.items():
            l, h = 1, 1
            for a in k:
                r = self.atom_range(a)
                if r is None:
                    return None
                c = [l * r[0], l * r[1], h * r[0], h * r[1]]
                l, h = min(c), max(c)
            c = [l * v, h * v]
            lo += min(c)
            hi += max(c)
        return (lo, hi)

    def div(self, op, a, b, exact=False):
        """exact: the IR asserts that the division has no remainder (pointer differences); the quotient is then kept as an
        atom QX(a,c) standing for the rational a/c, and comparisons multiply it out again (see cmp)"""
        if exact and op in ("sdiv", "udiv") and b.is_const() and b.const_value() > 0 and not a.is_const() and not a.divisible_by(b.const_value()):
            nm = "QX(%r,%d)" % (a, b.const_value())
            self.qx[nm] = (a, b.const_value())
            return Poly.atom(nm)
        signed = op in ("sdiv", "srem")
        rem = op in ("urem", "srem")
        if b.is_const() and b.const_value() != 0:
            c = b.const_value()
            if a.is_const():
                x = a.const_value()
                q = abs(x) // abs(c) * (1 if (x >= 0) == (c > 0) else -1)
                return Poly.const(x - q * c if rem else q)
            if a.divisible_by(c) :
                return Poly() if rem else a.div_exact(c)
        # (q*w + r) / w = q when 0 <= r < w  (both from declared facts)
        if not b.is_const() or True:
            q, r = self.split_multiple(a, b)
            if q is not None and not r.t and not b.is_const():
                # exact multiple: (q*b)/b == q for every non-zero b
                self.assumed.add("divisor %r is non-zero (documented precondition of step iterators)" % (b,))
                return Poly() if rem else q
            if q is not None:
                rr, rb = self.rng(r), self.rng(b)
                if rr is not None and rb is not None and rr[0] >= 0 and rb[0] > 0:
                    # need r < b : check r - b < 0
                    d = self.rng(r - b)
                    if d is not None and d[1] < 0:
                        qr = self.rng(q)
                        if not signed or (qr is not None and qr[0] >= 0) or True:
                            return r if rem else q
        if rem:
            dv = "sdiv" if signed else "udiv"
            return a - b * self.div(dv, a, b)
        if signed and a.t:
            # truncating division is odd in the numerator: (-a)/b == -(a/b); canonical sign = first term positive
            lead = sorted(a.t.items(), key=lambda kv: (len(kv[0]), kv[0]))[0][1]
            if lead < 0:
                return -self.fn_atom("SDIV", -a, b)
        return self.fn_atom(op.upper(), a, b)

    def split_multiple(self, a, b):
        """write a = q*b + r for single-atom or constant b"""
        if b.is_const():
            c = b.const_value()
            if c == 0:
                return None, None
            q = Poly({k: v // c for k, v in a.t.items() if v % c == 0})
            r = a - q.scale(c)
            return q, r
        if len(b.t) == 1:
            (k, v), = b.t.items()
            if v == 1 and len(k) == 1:
                atom = k[0]
                q, r = {}, {}
                for m, c in a.t.items():
                    if atom in m:
                        mm = list(m)
                        mm.remove(atom)
                        q[tuple(mm)] = q.get(tuple(mm), 0) + c
                    else:
                        r[m] = c
                return Poly(q), Poly(r)
        return None, None

    def unqx(self, d):
        """multiply a difference by the common denominator of its exact quotients (sign and zero-ness are preserved)"""
        ats = [x for x in d.atoms() if x in self.qx]
        if not ats:
            return d
        cs = {self.qx[x][1] for x in ats}
        if len(cs) != 1 or any(sum(1 for y in mon if y in self.qx) > 1 for mon in d.t):
            return d
        c = cs.pop()
        out = Poly()
        for mon, v in d.t.items():
            q = [y for y in mon if y in self.qx]
            if q:
                rest = list(mon)
                rest.remove(q[0])
                term = self.qx[q[0]][0].scale(v)
                for y in rest:
                    term = term * Poly.atom(y)
            else:
                term = Poly({mon: v * c})
            out = out + term
        return out

    def cmp(self, pred, a, b):
        d0 = self.unqx(a - b)
        if d0 != a - b:
            a, b = d0, Poly()
        d = a - b
        if d.is_const():
            x = d.const_value()
            base = pred[-2:] if pred not in ("eq", "ne") else pred
            # unsigned compare of constants that may be negative is not decided here
            if pred in ("eq", "ne") or pred[0] == "s" or (a.is_const() and b.is_const() and a.const_value() >= 0 and b.const_value() >= 0):
                r = {"eq": x == 0, "ne": x != 0, "lt": x < 0, "le": x <= 0, "gt": x > 0, "ge": x >= 0}[base]
                return Poly.const(1 if r else 0)
        r = self.rng(d)
        if r is not None and pred[0] == "u":
            ra, rb = self.rng(a), self.rng(b)
            if ra is None or rb is None or ra[0] < 0 or rb[0] < 0:
                r = None      # unsigned comparison is only decided for operands known to be non-negative
        if r is not None:
            base = pred[-2:] if pred not in ("eq", "ne") else pred
            if base == "lt" and r[1] < 0 or base == "le" and r[1] <= 0 or base == "gt" and r[0] > 0 or base == "ge" and r[0] >= 0 or base == "ne" and (r[0] > 0 or r[1] < 0):
                return Poly.const(1)
            if base == "lt" and r[0] >= 0 or base == "le" and r[0] > 0 or base == "gt" and r[1] <= 0 or base == "ge" and r[1] < 0 or base == "eq" and (r[0] > 0 or r[1] < 0):
                return Poly.const(0)
        # canonical forms: only slt / ult / eq atoms; the others are expressed through them
        sg = pred[0] if pred not in ("eq", "ne") else ""
        base = pred[-2:] if pred not in ("eq", "ne") else pred
        if base == "eq":
            d = a - b
            if d.t and sorted(d.t.items())[0][1] < 0:
                d = -d
            return self.fn_atom("CMP_eq", d)
        if base == "ne":
            return ONE - self.cmp("eq", a, b)
        if base == "gt":
            return self.cmp(sg + "lt", b, a)
        if base == "le":
            return ONE - self.cmp(sg + "lt", b, a)
        if base == "ge":
            return ONE - self.cmp(sg + "lt", a, b)
        if sg == "s":
            return self.fn_atom("CMP_slt", a - b)
        return self.fn_atom("CMP_ult", a, b)

    # ---- memory
    def load(self, addr, size, inst):
        ats = addr.atoms()
        if len(ats) == 1:
            (g,) = ats
            if g in self.globals and addr.t.get((g,), 0) == 1 and len(addr.t) <= 2:
                init, eb = self.globals[g]
                off = addr.const_value()
                if eb and eb // 8 == size and off % size == 0 and 0 <= off // size < len(init):
                    return Poly.const(init[off // size])
        if addr in self.mem:
            sz, v = self.mem[addr]
            if sz == size:
                return v
        # partial overlap with a tracked cell -> unknown
        for a2, (sz, v) in self.mem.items():
            d = addr - a2
            if d.is_const() and -size < d.const_value() < sz and not (d.const_value() == 0 and sz == size):
                return self.fn_atom("PARTIAL", a2, Poly.const(d.const_value()), Poly.const(size), Poly.const(self.epoch))
        return Poly.atom("L%d[%r]%s" % (size, addr, "" if self.epoch == 0 else "#%d" % self.epoch))

    def store(self, addr, size, v, inst):
        self.stores.append((addr, size, v, inst))
        kill = []
        for a2, (sz, _) in self.mem.items():
            d = addr - a2
            if d.is_const():
                if -size < d.const_value() < sz:
                    kill.append(a2)
            else:
                # may alias unless both are distinct allocas / alloca vs argument memory
                if not self.separate(addr, a2):
                    kill.append(a2)
        for a2 in kill:
            del self.mem[a2]
        if not self.is_local(addr):
            # memory reachable from arguments changed: later loads of argument memory get fresh atoms
            self.bump()
        self.mem[addr] = (size, v)

    def bump(self):
        self.epoch_ctr = getattr(self, "epoch_ctr", 0) + 1
        self.epoch = self.epoch_ctr

    def base_atoms(self, p):
        return set(a for a in p.atoms() if a.startswith("ALLOCA"))

    def is_local(self, p):
        return bool(self.base_atoms(p))

    def separate(self, p, q):
        bp, bq = self.base_atoms(p), self.base_atoms(q)
        return bp != bq and (bool(bp) or bool(bq))

    # ---- main loop
    def run(self):
        order = self.topo()
        preds = {}
        for b in self.fn["blocks"]:
            for s in b["succ"]:
                preds.setdefault(s, []).append(b["id"])
        self.cond_of_edge = {}
        self.bcond = {}
        self.mem_out, self.epoch_out = {}, {}
        self.epoch_ctr = 0
        reach = {self.fn["blocks"][0]["id"]}
        rets = []
        # straight-line fast path: with several reachable blocks memory becomes path-insensitive (joined by epoch bump)
        for bid in order:
            if bid not in reach:
                continue
            b = self.block[bid]
            rp = [p for p in preds.get(bid, []) if p in reach and (p, bid) in self.cond_of_edge]
            if bid == self.fn["blocks"][0]["id"]:
                self.bcond[bid] = ONE
            else:
                acc = Poly()
                for p in rp:
                    acc = acc + self.cond_of_edge[(p, bid)]
                self.bcond[bid] = acc
            if bid != self.fn["blocks"][0]["id"]:
                states = [(self.cond_of_edge[(p, bid)], self.mem_out[p], self.epoch_out[p]) for p in rp if p in self.mem_out]
                if len(states) == 1:
                    self.mem, self.epoch = dict(states[0][1]), states[0][2]
                elif states:
                    keys = set(states[0][1])
                    for _, m, _ in states[1:]:
                        keys &= set(m)
                    mem = {}
                    for k in keys:
                        cells = [m[k] for _, m, _ in states]
                        if any(c[0] != cells[0][0] for c in cells):
                            continue
                        if all(c[1] == cells[0][1] for c in cells):
                            mem[k] = cells[0]
                        elif all(isinstance(c[1], Poly) for c in cells):
                            acc = Poly()
                            for (ec, _, _), c in zip(states, cells):
                                acc = acc + ec * c[1]
                            mem[k] = (cells[0][0], acc)
                    self.mem = mem
                    eps = set(e for _, _, e in states)
                    if len(eps) == 1:
                        self.epoch = eps.pop()
                    else:
                        self.epoch_ctr += 1
                        self.epoch = self.epoch_ctr
                else:
                    self.mem = {}
            self.enter_block(bid, rp)
            for inst in b["insts"]:
                self.step(inst, bid, reach, rets)
            self.leave_block(bid)
            self.mem_out[bid] = dict(self.mem)
            self.epoch_out[bid] = self.epoch
        if len(rets) == 1:
            self.ret = rets[0]
        elif rets:
            self.ret = rets[0] if all(r == rets[0] for r in rets) else self.fn_atom("RETJOIN", *rets)
        return self.ret

    def enter_block(self, bid, preds):
        pass

    def leave_block(self, bid):
        pass

    def step(self, inst, bid, reach, rets):
        op = inst["op"]
        i = inst.get("id")
        if i:
            self.inst_of[i] = inst
        ops = inst.get("ops", [])
        if op in ("add", "sub", "mul"):
            a, b = self.operand(ops[0]), self.operand(ops[1])
            self.val[i] = a + b if op == "add" else (a - b if op == "sub" else a * b)
        elif op == "shl":
            a, b = self.operand(ops[0]), self.operand(ops[1])
            if b.is_const() and 0 <= b.const_value() < 64:
                self.val[i] = a.scale(1 << b.const_value())
            else:
                self.val[i] = self.fn_atom("SHL", a, b)
        elif op in ("lshr", "ashr"):
            a, b = self.operand(ops[0]), self.operand(ops[1])
            if b.is_const() and 0 <= b.const_value() < 64:
                self.val[i] = self.div("sdiv" if op == "ashr" else "udiv", a, Poly.const(1 << b.const_value()), exact=bool(inst.get("exact"))) \
                    if (a.divisible_by(1 << b.const_value()) or inst.get("exact")) else self.fn_atom(op.upper(), a, b)
            else:
                self.val[i] = self.fn_atom(op.upper(), a, b)
        elif op in ("udiv", "sdiv", "urem", "srem"):
            self.val[i] = self.div(op, self.operand(ops[0]), self.operand(ops[1]), exact=bool(inst.get("exact")))
        elif op in ("and", "or", "xor"):
            a, b = self.operand(ops[0]), self.operand(ops[1])
            if a.is_const() and b.is_const():
                x, y = a.const_value(), b.const_value()
                self.val[i] = Poly.const({"and": x & y, "or": x | y, "xor": x ^ y}[op])
            elif inst["type"].get("bits") == 1:
                if a.is_const() and a.const_value() < 0:
                    a = Poly.const(1)
                if b.is_const() and b.const_value() < 0:
                    b = Poly.const(1)
                self.val[i] = {"and": a * b, "or": a + b - a * b, "xor": a + b - (a * b).scale(2)}[op]
            else:
                self.val[i] = self.fn_atom(op.upper(), *sorted([a, b], key=repr))
        elif op in ("zext", "sext", "trunc"):
            a = self.operand(ops[0])
            sw = ops[0].get("bits") or self.width_of(ops[0])
            if op == "sext":
                # atoms narrower than 32 bits denote their unsigned value (see zext); wider ones their signed value
                self.val[i] = a if (sw >= 32 or a.is_const()) else self.fn_atom("SEXT%d" % sw, a)
            elif op == "zext" and sw < 32 and not a.is_const() and (self.is_boolpoly(a) or (len(a.t) == 1 and list(a.t.items())[0] == ((list(a.t)[0][0],) if list(a.t)[0] else (), 1) and len(list(a.t)[0]) == 1)):
                self.val[i] = a
            elif op == "zext":
                if a.is_const():
                    v = a.const_value()
                    sb = ops[0].get("bits") or self.width_of(ops[0])
                    self.val[i] = Poly.const(v if v >= 0 else v + (1 << sb))
                else:
                    r = self.rng(a)
                    self.val[i] = a if (r is not None and r[0] >= 0) or self.is_bool(ops[0]) else self.fn_atom("ZEXT", a)
            else:
                b = inst["type"]["bits"]
                if a.is_const():
                    v = a.const_value() & ((1 << b) - 1)
                    if b > 1 and v >= (1 << (b - 1)):
                        v -= (1 << b)
                    self.val[i] = Poly.const(v)
                elif b >= 32 and self.small_by_construction(ops[0], b):
                    # the operand is a remainder / masked value / widened narrower value: the truncation is the identity
                    self.val[i] = a
                elif b >= 32:
                    # int(...) of a pointer-sized offset: identity unless the offset exceeds 2^31 (assumption recorded)
                    self.assumed.add("offsets narrowed to %d bits do not overflow" % b)
                    self.val[i] = a
                else:
                    self.val[i] = self.fn_atom("TRUNC%d" % b, a)
        elif op in ("bitcast", "ptrtoint", "inttoptr", "addrspacecast"):
            self.val[i] = self.operand(ops[0])
        elif op == "getelementptr":
            p = self.operand(ops[0]) + Poly.const(inst["gep_const"])
            for t in inst["gep_terms"]:
                p = p + self.operand(t["v"]).scale(t["scale"])
            self.val[i] = p
        elif op == "alloca":
            self.alloca_n += 1
            self.val[i] = Poly.atom("ALLOCA%d" % self.alloca_n)
        elif op == "load":
            self.val[i] = self.load(self.operand(ops[0]), inst["size"], inst)
        elif op == "store":
            v = ops[0]
            val = self.value_any(v)
            self.store(self.operand(ops[1]), inst["size"], val, inst)
        elif op in ("icmp",):
            pred = inst["pred"]
            if pred[0] == "u" and self.is_ptr(ops[0]) and self.is_ptr(ops[1]):
                # relational comparison of pointers into one object: decided by the signed difference
                self.assumed.add("relationally compared pointers point into the same object (C++ [expr.rel])")
                pred = "s" + pred[1:]
            self.val[i] = self.cmp(pred, self.operand(ops[0]), self.operand(ops[1]))
        elif op == "fcmp":
            self.val[i] = self.fn_atom("FCMP_" + inst["pred"], self.operand(ops[0]), self.operand(ops[1]))
        elif op == "select":
            c, a, b = self.operand(ops[0]), self.value_any(ops[1]), self.value_any(ops[2])
            if isinstance(c, Poly) and c.is_const():
                self.val[i] = a if c.const_value() else b
            elif a == b:
                self.val[i] = a
            elif isinstance(a, Poly) and isinstance(b, Poly) and self.is_boolpoly(c):
                self.val[i] = b + c * (a - b)
            else:
                self.val[i] = self.fn_atom("SELECT", c, a, b)
        elif op == "phi":
            vals = []
            for inc in inst["incoming"]:
                if inc["bb"] in reach and (inc["bb"], bid) in self.cond_of_edge:
                    vals.append((self.cond_of_edge[(inc["bb"], bid)], self.value_any(inc["v"])))
            if not vals:
                raise Unsupported("phi without reachable incoming")
            if all(v == vals[0][1] for _, v in vals):
                self.val[i] = vals[0][1]
            elif all(isinstance(v, Poly) for _, v in vals):
                acc = Poly()
                for c, v in vals:
                    acc = acc + c * v
                tot = Poly()
                for c, v in vals:
                    tot = tot + c
                if tot != ONE:
                    # inside a conditional region: normalise by taking the value under the block condition
                    self.notes.append("phi %s under non-trivial block condition" % i)
                self.val[i] = acc
            else:
                self.val[i] = self.fn_atom("PHI", *[x for c, v in sorted(vals, key=repr) for x in (c if isinstance(c, Poly) else Poly.atom(repr(c)), v if isinstance(v, Poly) else Poly.atom(repr(v)))])
        elif op == "br":
            if len(ops) == 1:
                t = ops[0]["id"]
                reach.add(t)
                self.cond_of_edge[(bid, t)] = self.bcond[bid]
            else:
                c = self.operand(ops[0])
                tf, tt = ops[1]["id"], ops[2]["id"]
                if c.is_const():
                    t = tt if c.const_value() else tf
                    reach.add(t)
                    self.cond_of_edge[(bid, t)] = self.bcond[bid]
                else:
                    if not self.is_boolpoly(c):
                        c = Poly.atom("B1:" + repr(c))
                    reach.update((tt, tf))
                    self.cond_of_edge[(bid, tt)] = self.bcond[bid] * c
                    self.cond_of_edge[(bid, tf)] = self.bcond[bid] * (ONE - c)
        elif op == "switch":
            c = self.operand(ops[0])
            if c.is_const():
                tgt = inst["default"]
                for cs in inst["cases"]:
                    if cs["val"] == c.const_value():
                        tgt = cs["bb"]
                reach.add(tgt)
                self.cond_of_edge[(bid, tgt)] = self.bcond[bid]
                return
            for cs in inst["cases"]:
                reach.add(cs["bb"])
                self.cond_of_edge[(bid, cs["bb"])] = self.bcond[bid] * Poly.atom("B1:CASE(%r,%d)" % (c, cs["val"]))
            reach.add(inst["default"])
            self.cond_of_edge[(bid, inst["default"])] = self.bcond[bid] * Poly.atom("B1:DEFAULT(%r)" % (c,))
        elif op == "ret":
            if ops:
                rets.append(self.value_any(ops[0]))
            else:
                rets.append(None)
        elif op == "insertvalue":
            base = self.value_any(ops[0])
            elems = dict(base.elems) if isinstance(base, Agg) else {}
            idx = self.iv_index(inst)
            elems[idx] = self.value_any(ops[1])
            self.val[i] = Agg(elems)
        elif op == "extractvalue":
            base = self.value_any(ops[0])
            idx = self.iv_index(inst)
            if isinstance(base, Agg) and idx in base.elems:
                self.val[i] = base.elems[idx]
            else:
                self.val[i] = self.fn_atom("EXTRACT", base if isinstance(base, Poly) else Poly.atom(repr(base)), Poly.const(idx[0] if idx else 0))
        elif op in ("call", "invoke"):
            cal = inst.get("callee", "")
            if cal.startswith("llvm.experimental.noalias") or cal.startswith("llvm.dbg") or cal.startswith("llvm.lifetime") or cal == "llvm.assume":
                return
            args = [self.value_any(o) for o in ops[:inst["nargs"]]]
            self.calls.append((inst.get("callee_dem", cal), args, inst))
            if cal.startswith("llvm.memcpy") or cal.startswith("llvm.memmove"):
                self.memcpy(args, inst)
                return
            if cal.startswith("llvm.memset"):
                self.bump()
                self.mem = {k: v for k, v in self.mem.items() if self.is_local(k) and not self.separate_fail(k, args[0])}
                return
            dem = inst.get("callee_dem", cal)
            if any(r.search(dem) for r in self.pure):
                if i:
                    self.val[i] = self.fn_atom("PURE_%s" % cal, *[a if isinstance(a, Poly) else Poly.atom(repr(a)) for a in args])
                if op == "invoke":
                    for o in ops[inst["nargs"]:]:
                        if o["k"] == "bb":
                            reach.add(o["id"])
                            self.cond_of_edge[(bid, o["id"])] = self.bcond[bid]
                return
            if any(r.search(dem) for r in self.readonly):
                self.bump()
                if i:
                    self.val[i] = self.fn_atom("CALL_%s#%d" % (cal, len(self.calls)), *[a if isinstance(a, Poly) else Poly.atom(repr(a)) for a in args])
                if op == "invoke":
                    for o in ops[inst["nargs"]:]:
                        if o["k"] == "bb":
                            reach.add(o["id"])
                            self.cond_of_edge[(bid, o["id"])] = self.bcond[bid]
                return
            # unknown call: may write any non-local memory and any local whose address escapes as an argument
            self.bump()
            esc = set()
            for a in args:
                if isinstance(a, Poly):
                    esc |= self.base_atoms(a)
            self.mem = {k: v for k, v in self.mem.items() if self.is_local(k) and not (self.base_atoms(k) & esc)}
            if i:
                self.val[i] = self.fn_atom("CALL_%s#%d" % (cal, len(self.calls)), *[a if isinstance(a, Poly) else Poly.atom(repr(a)) for a in args])
            if op == "invoke":
                # normal and unwind successors
                for o in ops[inst["nargs"]:]:
                    if o["k"] == "bb":
                        reach.add(o["id"])
                        self.cond_of_edge[(bid, o["id"])] = self.bcond[bid]
        elif op in ("unreachable", "resume", "landingpad", "fence"):
            if i:
                self.val[i] = Poly.atom("LP")
        elif op in ("fadd", "fsub", "fmul", "fdiv", "frem", "fneg", "sitofp", "uitofp", "fptosi", "fptoui", "fpext", "fptrunc"):
            args = [self.operand(o) for o in ops]
            if op in ("sitofp", "uitofp") and args[0].is_const():
                import struct as _st
                v = float(args[0].const_value())
                if inst["type"].get("bits") == 32:
                    v = _st.unpack("f", _st.pack("f", v))[0]
                self.val[i] = Poly.atom("F(%r)" % v)
                return
            if op in ("fadd", "fmul"):
                args = sorted(args, key=repr)
            self.val[i] = self.fn_atom(op.upper() + str(inst["type"].get("bits", "")), *args)
        else:
            raise Unsupported("opcode " + op)

    def is_boolpoly(self, c):
        """0/1-valued polynomial built from boolean atoms"""
        return isinstance(c, Poly) and all(all(is_bool_atom(a) for a in k) for k in c.t)

    def separate_fail(self, k, p):
        return isinstance(p, Poly) and not self.separate(k, p)

    def memcpy(self, args, inst):
        dst, src, n = args[0], args[1], args[2]
        if isinstance(n, Poly) and n.is_const():
            n = n.const_value()
            moved = []
            for a2, (sz, v) in list(self.mem.items()):
                d = a2 - src
                if d.is_const() and 0 <= d.const_value() and d.const_value() + sz <= n:
                    moved.append((d.const_value(), sz, v))
            covered = sum(sz for _, sz, _ in moved)
            # destination cells: tracked source cells are copied; untracked source bytes become loads
            # (only exact when the whole source range is tracked or untouched argument memory)
            for off, sz, v in moved:
                self.store(dst + Poly.const(off), sz, v, inst)
            if covered != n:
                # remaining bytes: represent 8-byte granules lazily through loads of the source
                off = 0
                tracked = sorted((o, s) for o, s, _ in moved)
                holes = []
                cur = 0
                for o, s in tracked:
                    if o > cur:
                        holes.append((cur, o - cur))
                    cur = max(cur, o + s)
                if cur < n:
                    holes.append((cur, n - cur))
                for o, s in holes:
                    k = o
                    while k < o + s:
                        g = 8 if (o + s - k) >= 8 and k % 8 == 0 else (4 if (o + s - k) >= 4 and k % 4 == 0 else 1)
                        self.store(dst + Poly.const(k), g, self.load(src + Poly.const(k), g, inst), inst)
                        k += g
        else:
            self.bump()
            self.mem = {}

    def iv_index(self, inst):
        # indices are not operands in LLVM; irdump does not export them for insert/extractvalue yet
        return tuple(inst.get("indices", ()))

    def value_any(self, o):
        if o["k"] == "v" and isinstance(self.val.get(o["id"]), Agg):
            return self.val[o["id"]]
        if o["k"] == "undef":
            return Agg({})
        if o["k"] == "const_other":
            return Agg({})
        return self.operand(o)

    def is_ptr(self, o):
        if o["k"] == "v":
            inst = self.inst_of.get(o["id"])
            return bool(inst) and inst["type"].get("k") == "ptr"
        if o["k"] == "arg":
            return self.fn["args"][o["idx"]]["type"].get("k") == "ptr"
        if o["k"] == "null":
            return True
        if o["k"] == "ce":
            return o.get("type", {}).get("k") == "ptr"
        return o["k"] in ("g",)

    def is_bool(self, o):
        if o["k"] == "v":
            inst = self.inst_of.get(o["id"])
            return bool(inst) and inst["type"].get("bits") == 1
        return False

    def width_of(self, o):
        if o["k"] == "v":
            inst = self.inst_of.get(o["id"])
            return inst["type"].get("bits", 64) if inst else 64
        if o["k"] == "arg":
            return self.fn["args"][o["idx"]]["type"].get("bits", 64)
        return 64

    def topo(self):
        succ = {b["id"]: b["succ"] for b in self.fn["blocks"]}
        state, order = {}, []
        stack = [(self.fn["blocks"][0]["id"], iter(succ[self.fn["blocks"][0]["id"]]))]
        state[self.fn["blocks"][0]["id"]] = 1
        while stack:
            u, it = stack[-1]
            adv = False
            for v in it:
                if state.get(v) == 1:
                    raise Unsupported("loop in CFG (back edge %s -> %s)" % (u, v))
                if v not in state:
                    state[v] = 1
                    stack.append((v, iter(succ[v])))
                    adv = True
                    break
            if not adv:
                state[u] = 2
                order.append(u)
                stack.pop()
        return order[::-1]
