// C19 replay: fill_histogram<0>(bgr view) counts blue -- the axis numbers are memory positions, the documentation (doc/histogram/fill.rst: "0 - red, 1 - green,
// 2 - blue") and every other per-colour operation of the library number the channels by colour
// g++ -std=c++14 -I/repo/include channel_order.cpp && ./a.out
#include <boost/gil.hpp>
#include <boost/gil/histogram.hpp>
#include <cstdio>
namespace gil = boost::gil;
int main()
{
    gil::rgb8_image_t a(1, 1, gil::rgb8_pixel_t(4, 4, 1));        // red 4, green 4, blue 1
    gil::bgr8_image_t b(1, 1);
    gil::copy_pixels(gil::const_view(a), gil::view(b));            // the same picture, stored b,g,r
    gil::histogram<int> ha, hb;
    gil::fill_histogram<0>(gil::const_view(a), ha);
    gil::fill_histogram<0>(gil::const_view(b), hb);
    std::printf("red channel histogram of the rgb8 image: bin 4 = %g; of the same picture as bgr8: bin 4 = %g, bin 1 = %g\n", ha(4), hb(4), hb(1));
    return ha(4) == 1 && hb(4) == 1 ? 0 : 1;
}
