// C05 / narrow-bitfield (known finding): the bit-aligned reference of the library's own documentation -- a 7-bit bgr232 pixel over an `unsigned char`
// bit field -- reads and writes a channel as ONE BitField loaded at the byte the channel starts in. A channel that crosses the end of that byte
// (bit offset 2: red = bits 7..8) loses its upper bits: assignment, equality, get_color and the static algorithms all go through that proxy.
// Build: g++ -std=c++14 -I /repo/include bit_aligned_narrow_bitfield.cpp && ./a.out     (exit 1: the finding is recorded, not repaired)
#include <boost/gil.hpp>
#include <cstdio>
using namespace boost::gil;
int main()
{
    using ref_t = bit_aligned_pixel_reference<unsigned char, boost::mp11::mp_list_c<unsigned, 2, 3, 2>, bgr_layout_t, true> const;
    using val_t = packed_pixel_type<unsigned char, boost::mp11::mp_list_c<unsigned, 2, 3, 2>, bgr_layout_t>::type;
    unsigned char buf[3] = {0, 0, 0};
    ref_t dst(buf, 2);          // blue = bits 2..3, green = 4..6, red = 7..8
    val_t src(0, 0, 2);         // red = 2
    dst = src;
    int red = get_color(dst, red_t());
    bool eq = dst == src;
    std::printf("after dst = src: red = %d (expected 2), dst == src is %s, bytes %02x %02x (expected 00 01)\n", red, eq ? "true" : "false", buf[0], buf[1]);
    return !(red == 2 && eq);
}
