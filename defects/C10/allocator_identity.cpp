// C10 / I4 (+I0): image lost track of which allocator made its storage.
//  * recreate(dims[, fill], alignment) built its temporary with Alloc() instead of the image's allocator;
//  * copy assignment / converting assignment built it with the source's allocator;
//  * recreate(..., alloc_in) swapped with a temporary holding alloc_in.
// Before C++17 image::swap exchanges the allocators, so the image silently changed allocator (a.allocator() == A(0) after a.recreate(9,9)).
// From C++17 on swap leaves non-propagating allocators in place (and asserts they are equal): every block was then freed through
// the other image's allocator.  The ledger below records which allocator id made each block.
// Also: move assignment between unequal non-propagating allocators did not compile for non-pixel element types (I0).
// Build: g++ -std=c++17 -DNDEBUG -I /repo/include allocator_identity.cpp && ./a.out   (and with -std=c++14)
#include <boost/gil.hpp>
#include <cstdio>
#include <cstdlib>
#include <map>
namespace gil = boost::gil;
static std::map<void*, int> ledger;
static int errors = 0;
template <class T> struct A
{
    using value_type = T;
    int id;
    A(int i = 0) : id(i) {}
    template <class U> A(A<U> const& o) : id(o.id) {}
    T* allocate(std::size_t n) { T* p = static_cast<T*>(std::malloc(n * sizeof(T))); ledger[p] = id; return p; }
    void deallocate(T* p, std::size_t)
    {
        if (ledger[p] != id) { std::printf("block allocated by #%d is freed by #%d\n", ledger[p], id); ++errors; }
        ledger.erase(p); std::free(p);
    }
    using propagate_on_container_move_assignment = std::false_type;
    using propagate_on_container_copy_assignment = std::false_type;
    using propagate_on_container_swap = std::false_type;
    friend bool operator==(A const& a, A const& b) { return a.id == b.id; }
    friend bool operator!=(A const& a, A const& b) { return a.id != b.id; }
};
struct E { int v = 0; E() {} E(E const& o) : v(o.v) {} E& operator=(E const& o) { v = o.v; return *this; } ~E() {} bool operator==(E const& o) const { return v == o.v; } bool operator!=(E const& o) const { return v != o.v; } };
int main()
{
    using I = gil::image<gil::rgb8_pixel_t, false, A<unsigned char>>;
    {
        I a(2, 2, 0, A<unsigned char>(7));
        a.recreate(9, 9);
        if (a.allocator().id != 7) { std::printf("recreate: allocator is now #%d, expected #7\n", a.allocator().id); ++errors; }
        a.recreate(20, 20, gil::rgb8_pixel_t(1, 2, 3), 0);
        if (a.allocator().id != 7) { std::printf("recreate(fill): allocator is now #%d, expected #7\n", a.allocator().id); ++errors; }
    }
    {
        I x(2, 2, 0, A<unsigned char>(1)), y(3, 3, 0, A<unsigned char>(2));
        x = y;
        if (x.allocator().id != 1) { std::printf("copy assignment: allocator is now #%d, expected #1\n", x.allocator().id); ++errors; }
    }
    {
        I a(2, 2, 0, A<unsigned char>(3));
        a.recreate(8, 8, 0, A<unsigned char>(4));
        if (a.allocator().id != 4) { std::printf("recreate(alloc): allocator is #%d, expected #4\n", a.allocator().id); ++errors; }
    }
    {
        gil::image<E, false, A<unsigned char>> a(2, 2, 0, A<unsigned char>(5)), b(3, 3, 0, A<unsigned char>(6));
        a = std::move(b);                                     // did not compile
        if (a.allocator().id != 5 || a.width() != 3) ++errors;
    }
    if (!ledger.empty()) { std::printf("%zu blocks leaked\n", ledger.size()); ++errors; }
    std::printf("%d errors\n", errors);
    return errors != 0;
}
