// C03 replay: it<jt iff jt-it>0 fails for the column iterators of x-flipped views (a step iterator over a negative-step iterator)
// g++ -std=c++14 -I/repo/include flipped_col_order.cpp && ./a.out
#include <boost/gil.hpp>
#include <cstdio>
namespace gil = boost::gil;
int main()
{
    gil::gray8_image_t img(4, 3);
    auto v = gil::flipped_left_right_view(gil::view(img));
    auto it = v.col_begin(1);
    auto jt = it + 1;
    std::printf("flipped_left_right_view: jt - it = %td, it < jt = %d, jt < it = %d, it > jt = %d\n", jt - it, int(it < jt), int(jt < it), int(it > jt));
    auto w = gil::rotated180_view(gil::view(img));
    auto a = w.col_begin(0);
    auto b = w.col_end(0);
    std::printf("rotated180_view: col_end - col_begin = %td, col_begin < col_end = %d\n", b - a, int(a < b));
    auto p = gil::view(img).col_begin(1);
    auto q = p + 1;
    std::printf("plain view: q - p = %td, p < q = %d\n", q - p, int(p < q));
    return ((jt - it > 0) != (it < jt)) || ((b - a > 0) != (a < b)) ? 1 : 0;
}
