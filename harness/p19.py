"""C19 histograms: the structural clauses (who is counted, once, under which condition; how totals are formed).
Contents of the hash map are not modelled: conservation of mass follows from these clauses given the semantics of
std::unordered_map (trusted), it is not computed."""
import os, re, itertools
from . import common as C
from .ast import rules as R

LEVEL = "other"
EXPLANATION = ("Structural rules over the instantiated AST of histogram.hpp (drivers/c19_driver.cpp: 1-D and 3-D histograms over gray8/rgb8 views): "
               "(H1) histogram::fill visits every (x,y) of the view once, skips a pixel exactly when applymask && !mask[y][x], divides every channel of the "
               "pixel by bin_width, builds the key from the scaled pixel and increments that one bin exactly when !setlimits || (lower <= key && key <= upper) "
               "-- conditions are compared as boolean functions (truth tables), not as text; (H1b) tuple_compare is the conjunction of the component-wise <=; "
               "(H2) fill_histogram clears iff !accumulate, pre-fills iff !sparsefill, then forwards every argument to fill in order; (H3) cumulative_histogram "
               "assigns to every key the running sum over the sorted keys (1-D) resp. the sum over all keys that are component-wise <= (n-D); (H4) "
               "sub_histogram<Dims...>() adds every bin into the bin of its projected key; (H5) normalize divides every bin by the sum of all bins. "
               "Each is a necessary condition of the property; the equalities between bin contents and pixel counts themselves are not computed.")
W = "include/boost/gil/histogram.hpp"


def formula(n, atoms):
    """boolean AST -> python lambda over an assignment dict; atoms collected by canonical key"""
    n = R.strip(n)
    while n is not None and n.get("k") == "Paren":
        n = R.strip(n["e"])
    k = n.get("k")
    if k == "Binary" and n.get("op") in ("&&", "||", "&", "|"):
        a, b = formula(n["l"], atoms), formula(n["r"], atoms)
        return (lambda e: a(e) and b(e)) if n["op"] in ("&&", "&") else (lambda e: a(e) or b(e))
    if k == "Unary" and n.get("op") == "!":
        a = formula(n["e"], atoms)
        return lambda e: not a(e)
    key = R.key(n).replace(".operator bool()", "")
    atoms.add(key)
    return lambda e, key=key: e[key]


def same_function(cond, want, rename):
    """cond (AST) and want (python expression over named atoms) denote the same boolean function"""
    atoms = set()
    f = formula(cond, atoms)
    ren = {a: rename(a) for a in atoms}
    names = sorted(set(re.findall(r"[A-Za-z_]\w*", want)) - {"and", "or", "not"})
    if set(ren.values()) != set(names):
        return False, sorted(ren.values())
    for vals in itertools.product((False, True), repeat=len(names)):
        env = dict(zip(names, vals))
        got = f({a: env[ren[a]] for a in atoms})
        if bool(got) != bool(eval(want, {}, env)):
            return False, sorted(ren.values())
    return True, sorted(ren.values())


def loop_shape(lp):
    init = R.strip(lp.get("init"))
    iv = init["decls"][0]["name"] if init is not None and init.get("k") == "Decl" and init.get("decls") else None
    i0 = R.key(init["decls"][0].get("init")) if iv else None
    return iv, i0, R.key(lp.get("cond")), R.key(lp.get("inc"))


def is_std(t):
    return re.match(r"(const )?std::(vector|array|map)<", t or "") is not None


def decls_of(body):
    return {dd["name"]: dd.get("init") for x, _ in R.find(body, lambda x: x.get("k") == "Decl") for dd in x["decls"] if dd.get("init") is not None}


def std_filler(f, rep, where):
    """H6: the three std-container overloads of fill_histogram"""
    pn = [p["name"] for p in f["params"]]
    sv, hv, acc = pn
    cont = re.match(r"std::(\w+)<", f["params"][1]["type"]).group(1)
    key = "H6:fill_histogram(std::%s)%s" % (cont, re.sub(r"^std::\w+", "", f["params"][1]["type"]).replace(" &", ""))
    prob = []
    body = R.strip(f["body"])
    items = [R.strip(x) for x in body.get("c", [])]
    decl = decls_of(f["body"])
    # reset: exactly one conditional statement, condition == !accumulate, resets the whole container
    ifs = [x for x in items if x.get("k") == "If"]
    nested_ifs = [x for x, _ in R.find(f["body"], lambda x: x.get("k") in ("If", "Cond", "Switch", "For", "While", "Do", "ForRange"))]
    if len(ifs) != 1 or len(nested_ifs) != 1:
        prob.append("expected exactly one conditional (the reset), found %d top-level / %d in all" % (len(ifs), len(nested_ifs)))
    else:
        ok, at = same_function(ifs[0]["cond"], "not acc", lambda a: {acc: "acc"}.get(a, a))
        if not ok or ifs[0].get("else") is not None:
            prob.append("reset condition over %s is not `!accumulate`" % at)
        resets = [R.key(c) for c, _ in R.find(ifs[0].get("then"), lambda y: y.get("k") == "Call") if not R.key(c).startswith(("begin(", "end("))]
        want = ["fill(begin(%s),end(%s),0)" % (hv, hv)] if cont == "array" else ["%s.clear()" % hv]
        if resets != want:
            prob.append("reset statement %s, expected %s" % (resets, want))
    # the loop: one unconditional for_each_pixel over the gray conversion of the source view
    top_calls = [x for x in items if x.get("k") == "Call"]
    loops = [x for x in top_calls if x["callee"]["name"] == "boost::gil::for_each_pixel"]
    all_loops = [x for x, _ in R.calls_in(f["body"], lambda n: n.endswith("for_each_pixel"))]
    lam = None
    if len(loops) != 1 or len(all_loops) != 1:
        prob.append("expected one unconditional for_each_pixel, found %d" % len(all_loops))
    else:
        lk = R.key(loops[0])
        if lk != "for_each_pixel(color_converted_view(%s),Lambda)" % sv:
            prob.append("pixel loop is %s" % lk)
        ccv = [c for c, _ in R.calls_in(loops[0], lambda n: n.endswith("color_converted_view"))]
        m = re.match(r"boost::gil::color_converted_view<boost::gil::pixel<([^,]+), boost::gil::layout<boost::mp11::mp_list<boost::gil::gray_color_t>", ccv[0]["callee"]["full"]) if ccv else None
        if not m:
            prob.append("the source is not converted to a gray pixel")
        chan = m.group(1) if m else None
        lam = [x for x, _ in R.find(loops[0], lambda x: x.get("k") == "Lambda")]
        lam = lam[0] if lam else None
    # sizing (vector): resize(max+1) unconditionally, before the loop
    lim = None
    for c, _ in R.calls_in(f["body"], lambda n: n == "std::numeric_limits::max"):
        lim = c["callee"]["cls"]
    if cont == "vector":
        rs = [x for x in top_calls if x["callee"]["name"] == "std::vector::resize"]
        if len(rs) != 1 or R.key(rs[0]) != "%s.resize((max() + 1))" % hv:
            prob.append("sizing statement %s, expected %s.resize(max()+1)" % ([R.key(x) for x in rs], hv))
        elif items.index(rs[0]) > items.index(loops[0]) if loops else False:
            prob.append("the vector is sized after the pixel loop")
        if loops and lim != "std::numeric_limits<%s>" % chan:
            prob.append("the vector is sized from %s but indexed by %s" % (lim, chan))
    # the increment
    if lam is not None:
        incs = [x for x, _ in R.find(lam["body"], lambda x: (x.get("k") == "Unary" and x.get("op") in ("++", "--")) or x.get("k") in ("CompoundAssign", "Assign"))]
        lp = lam["params"][0]["name"] if lam.get("params") else "p"
        conv = r"%s\.operator [\w ]+\(\)" % re.escape(lp)
        if cont == "array":
            pat = r"\(\+\+%s\[\(%s \* scale\)\]\)" % (re.escape(hv), conv)
            sk = R.key(decl["scale"]) if "scale" in decl else None
            mk = R.key(decl["pixel_max"]) if "pixel_max" in decl else None
            if sk != "((%s.size() - 1) / pixel_max)" % hv or mk != "max()":
                prob.append("scale = %s with pixel_max = %s, expected (size-1)/max" % (sk, mk))
            if loops and lim != "std::numeric_limits<%s>" % chan:
                prob.append("scale uses %s but the converted channel is %s" % (lim, chan))
        else:
            pat = r"\(\+\+%s\[%s\]\)" % (re.escape(hv), conv)
        ks = [R.key(x) for x in incs]
        if len(ks) != 1 or not re.fullmatch(pat, ks[0]):
            prob.append("bin updates %s, expected a single ++%s[index of the gray value]" % (ks, hv))
        if [x for x, _ in R.find(lam["body"], lambda x: x.get("k") in ("If", "Cond", "Switch", "For", "While", "Do", "Return", "Continue"))]:
            prob.append("the increment is conditional")
    if prob:
        rep.violation("H6-std-fill", key, where, {"problems": prob})
    else:
        rep.ok("H6-std-fill", key, "reset iff !accumulate; sized max+1 / scaled (size-1)/max; one ++bin[gray] per pixel of the whole view")


def std_cumulative(f, rep, where):
    """H7: running sums in index / key order"""
    hv = f["params"][0]["name"]
    cont = re.match(r"(?:const )?std::(\w+)<", f["params"][0]["type"]).group(1)
    key = "H7:cumulative_histogram(std::%s)%s" % (cont, re.sub(r"^(const )?std::\w+", "", f["params"][0]["type"]).replace(" &", ""))
    prob = []
    decl = {k: R.key(v) for k, v in decls_of(f["body"]).items()}
    stm = [(x, p) for x, p in R.find(f["body"], lambda x: x.get("k") in ("Assign", "CompoundAssign") or (x.get("k") == "Unary" and x.get("op") in ("++", "--")))]
    ret = [R.key(x.get("e")) for x, _ in R.find(f["body"], lambda x: x.get("k") == "Return")]
    loops = [x for x, _ in R.find(f["body"], lambda x: x.get("k") in ("For", "ForRange", "While", "Do"))]
    if len(loops) != 1:
        prob.append("%d loops" % len(loops))
    else:
        lp = loops[0]
        if cont == "map":
            if lp.get("k") != "ForRange" or R.key(lp.get("range")) != hv:
                prob.append("loop does not range over %s" % hv)
            it = lp.get("var")
            src, dst = "%s.second" % it, "cumulative_hist[%s.first]" % it
        else:
            iv, i0, cond, inc = loop_shape(lp) if lp.get("k") == "For" else (None,) * 4
            size_ok = cond == "(%s < %s.size())" % (iv, hv) or (cont == "array" and re.fullmatch(r"\(%s < (\d+)\)" % iv, cond or "") and
                                                               re.search(r"std::array<[^,]+, %s(UL)?>" % re.fullmatch(r"\(%s < (\d+)\)" % iv, cond).group(1), f["params"][0]["type"]))
            if i0 != "0" or not size_ok or inc not in ("(%s++)" % iv, "(++%s)" % iv):
                prob.append("index loop (%s, %s, %s, %s)" % (iv, i0, cond, inc))
            src, dst = "%s[%s]" % (hv, iv), "cumulative_hist[%s]" % iv
        body_st = [R.key(x) for x, p in stm if any(a is lp and fld == "body" for a, fld, _ in p)]
        if body_st != ["(cumulative_counter += %s)" % src, "(%s = cumulative_counter)" % dst]:
            prob.append("loop body %s, expected running sum then store" % body_st)
        if [x for x, _ in R.find(lp["body"], lambda x: x.get("k") in ("If", "Cond", "Switch", "Continue", "Break", "Return"))]:
            prob.append("conditional statement inside the running sum")
    if decl.get("cumulative_counter") not in ("0", "0.0"):
        prob.append("counter starts at %s" % decl.get("cumulative_counter"))
    if ret != ["cumulative_hist"]:
        prob.append("returns %s" % ret)
    if prob:
        rep.violation("H7-std-cumulative", key, where, {"problems": prob})
    else:
        rep.ok("H7-std-cumulative", key, "counter from 0; every index/key in ascending order; add then store")


def run(rep):
    C.need_tools(C.ASTDUMP)
    wd = C.workdir("C19")
    d = C.astdump(os.path.join(C.DRIVERS, "c19_driver.cpp"), os.path.join(wd, "h.json"),
                  ['^boost::gil::histogram::(fill|normalize|sum|sub_histogram|key_from_pixel)$', '^boost::gil::(fill_histogram|cumulative_histogram)$',
                   '^boost::gil::detail::(tuple_compare|filler::operator\\(\\))$'])
    if d.get("errors"):
        raise C.AnalysisBroken("drivers/c19_driver.cpp has compile errors")
    fns = d["functions"]
    rep.units.append("drivers/c19_driver.cpp: %d instantiated histogram functions" % len(fns))
    rep.trusted += ["clang front end (instantiated AST)", "semantics of std::unordered_map, std::sort, std::for_each", "harness/ast/rules.py"]
    seen = set()

    def once(tag):
        if tag in seen:
            return False
        seen.add(tag)
        return True
    rep.rule("H1 histogram::fill: full loop nest; skip iff applymask && !mask[y][x]; every channel / bin_width; key from the scaled pixel; one increment of bin[key] iff !setlimits || (lower <= key && key <= upper)")
    rep.rule("H1b tuple_compare(t1,t2) == AND over i of get<i>(t1) <= get<i>(t2)")
    rep.rule("H2 fill_histogram: clear iff !accumulate; dense pre-fill iff !sparsefill; hist.fill(view, bin_width, applymask, mask, lower, upper, setlimits)")
    rep.rule("H2b dense pre-fill (detail::filler), which H2 shows to run on the accumulate path as well: creates bins, never overwrites or erases one")
    rep.rule("H3 cumulative_histogram: 1-D running sum over the sorted keys; n-D sum over all keys component-wise <= the key")
    rep.rule("H4 sub_histogram<Dims...>(): every bin is added into the bin of its projected key")
    rep.rule("H5 normalize: every bin divided by the sum of all bins; sum(): sum of all bins")
    rep.rule("H6 std-container fill_histogram: container reset iff !accumulate; vector sized numeric_limits<gray channel>::max()+1 before the loop, array index scaled by (size-1)/max; exactly one unconditional ++bin[gray value] per pixel of the whole view")
    rep.rule("H7 std-container cumulative_histogram: counter from 0, one loop over every index (map: every key in order), add then store, result returned")
    for f in fns:
        nm = f["name"]
        short = nm.split("::")[-1]
        rn = R.param_renamer(f)
        where = "%s:%s" % (("include/" + f["file"].split("/include/", 1)[1]) if "/include/" in f.get("file", "") else W, f["line"])
        # ---------------------------------------------------------------- H1
        if nm == "boost::gil::histogram::fill":
            dims = "3d" if "int, int, int" in f.get("cls", "") else "1d"
            if not once("fill" + dims + str(len(f["full"]) % 2)):
                pass
            rep.count("obligations:H1")
            key = "H1:histogram::fill:%s" % re.sub(r"boost::gil::", "", f["full"].split("::fill")[-1])[:60]
            prob = []
            loops = [x for x, _ in R.find(f["body"], lambda x: x.get("k") == "For")]
            pn = [p["name"] for p in f["params"]]
            sv = pn[0]
            if len(loops) != 2:
                prob.append("expected a two-level loop nest, found %d loops" % len(loops))
            else:
                oy, ox = loop_shape(loops[0]), loop_shape(loops[1])
                if oy[1:] != ("0", "(%s < %s.height())" % (oy[0], sv), "(++%s)" % oy[0]):
                    prob.append("row loop %s" % (oy,))
                if ox[1:] != ("0", "(%s < %s.width())" % (ox[0], sv), "(++%s)" % ox[0]):
                    prob.append("column loop %s" % (ox,))
                yv, xv = oy[0], ox[0]
                decl = {dd["name"]: R.key(dd["init"]) for x, _ in R.find(f["body"], lambda x: x.get("k") == "Decl") for dd in x["decls"] if dd.get("init") is not None}
                if decl.get("src_it") != "%s.row_begin(%s)" % (sv, yv) or decl.get("scaled_px") != "src_it[%s]" % xv:
                    prob.append("pixel taken from %s / %s" % (decl.get("src_it"), decl.get("scaled_px")))
                ren = lambda a: {"applymask": "applymask", "%s[%s][%s]" % (pn[3], yv, xv): "m", "setlimits": "setlimits",
                                 "tuple_compare(%s,key)" % pn[4]: "lo", "tuple_compare(key,%s)" % pn[5]: "hi"}.get(a, a)
                conts = [(x, p) for x, p in R.find(loops[1]["body"], lambda x: x.get("k") == "Continue")]
                if len(conts) != 1:
                    prob.append("%d continue statements" % len(conts))
                else:
                    ifn = [a for a, fld, _ in conts[0][1] if a.get("k") == "If"]
                    ok, at = same_function(ifn[-1]["cond"], "applymask and not m", ren) if ifn else (False, [])
                    if not ok:
                        prob.append("skip condition over %s is not `applymask && !mask[y][x]`" % at)
                scal = [R.key(a) for x, _ in R.find(f["body"], lambda x: x.get("k") == "Call" and x["callee"]["name"].endswith("static_for_each")) for a, _ in R.find(x, lambda y: y.get("k") == "Assign")]
                if scal != ["(ch = (ch / %s))" % pn[1]]:
                    prob.append("channel scaling %s" % scal)
                if decl.get("key") not in ("this.key_from_pixel(scaled_px)", "key_from_pixel(scaled_px)"):
                    prob.append("key built from %s" % decl.get("key"))
                incs = [(x, p) for x, p in R.find(loops[1]["body"], lambda x: (x.get("k") == "Unary" and x.get("op") == "++" and "operator[](key)" in R.key(x)) or
                                                  (x.get("k") == "CompoundAssign" and "operator[](key)" in R.key(x.get("l"))))]
                if len(incs) != 1:
                    prob.append("%d increments of the bin" % len(incs))
                else:
                    ifn = [a for a, fld, _ in incs[0][1] if a.get("k") == "If"]
                    ok, at = same_function(ifn[-1]["cond"], "(not setlimits) or (lo and hi)", ren) if ifn else (False, ["<unconditional>"])
                    if not ok:
                        prob.append("count condition over %s is not `!setlimits || (lower <= key && key <= upper)`" % at)
            if prob:
                rep.violation("H1-fill", key, where, {"problems": prob})
            else:
                rep.ok("H1-fill", key, "loop nest, mask, scaling, key, limits, single increment")
        # ---------------------------------------------------------------- H1b
        if nm == "boost::gil::detail::tuple_compare" and len(f["params"]) == 3:
            rep.count("obligations:H1b")
            keys = [R.key(x) for x, _ in R.find(f["body"], lambda x: x.get("k") in ("Assign",) or (x.get("k") == "Call" and x.get("op") == "="))]
            t1, t2 = f["params"][0]["name"], f["params"][1]["name"]
            n_le = sum(k.count("(get(%s) <= get(%s))" % (t1, t2)) for k in keys)
            fold = "(comp = (comp & comp_list[i]))" in keys or "(comp = (comp && comp_list[i]))" in keys
            decl = {dd["name"]: R.key(dd["init"]) for x, _ in R.find(f["body"], lambda x: x.get("k") == "Decl") for dd in x["decls"] if dd.get("init") is not None}
            lp = [loop_shape(x) for x, _ in R.find(f["body"], lambda x: x.get("k") == "For")]
            ok = n_le >= 1 and fold and str(decl.get("comp")).lower() in ("true", "1") and lp and lp[0][1:] == ("0", "(i < comp_list.size())", "(i++)")
            k = "H1b:tuple_compare:%d components" % n_le
            if ok:
                rep.ok("H1b-tuple-compare", k, keys[:2])
            else:
                rep.violation("H1b-tuple-compare", "H1b:tuple_compare", where, {"statements": keys, "initial": decl.get("comp"), "loop": lp})
        # ---------------------------------------------------------------- H2
        if nm == "boost::gil::fill_histogram" and len(f["params"]) == 10:
            rep.count("obligations:H2")
            body = R.strip(f["body"])
            items = [R.strip(x) for x in body.get("c", [])]
            seq = []
            for x in items:
                if x.get("k") == "If":
                    calls = [rn(R.key(c)) for c, _ in R.find(x.get("then"), lambda y: y.get("k") == "Call")]
                    seq.append(("if", rn(R.key(x["cond"])), calls[-1] if calls else None, x.get("else") is not None))
                elif x.get("k") == "Call":
                    seq.append(("call", rn(R.key(x))))
            want = [("if", "(!$3)", "$1.clear()", False), ("if", "(!$4)", "f($1,$7,$8,$2)", False), ("call", "$1.fill($0,$2,$5,$6,$7,$8,$9)")]
            k = "H2:fill_histogram" + ("<3d>" if "int, int, int" in f["full"] else "<1d>")
            if seq == want:
                rep.ok("H2-protocol", k, seq)
            else:
                rep.violation("H2-protocol", "H2:fill_histogram", where, {"statements": seq, "documented": want})
        # ---------------------------------------------------------------- H2b
        if nm == "boost::gil::detail::filler::operator()" and f["params"]:
            # fill_histogram runs the dense pre-fill on the accumulate path too (H2: guarded by !sparsefill only), so the
            # pre-fill may create bins but must not overwrite one: its only effect on a bin is value-preserving
            hp = f["params"][0]["name"]
            writes = []
            for x, p in R.find(f["body"], lambda x: x.get("k") in ("Assign", "CompoundAssign") or (x.get("k") == "Unary" and x.get("op") in ("++", "--")) or
                               (x.get("k") == "Call" and x.get("op") in ("=", "+=", "-=", "*=", "/="))):
                tgt = x.get("l") or x.get("e") or (x.get("args") or [None])[0]
                tk = R.key(tgt)
                if not re.match(r"%s(\(|\[|\.)" % re.escape(hp), tk):
                    continue
                op = x.get("op") or "="
                rhs = R.key(x.get("r") or (x.get("args") or [None, None])[1]) if x.get("k") != "Unary" else None
                keeps = (op in ("+=", "-=") and rhs in ("0", "0.0")) or (op in ("*=", "/=") and rhs in ("1", "1.0"))
                writes.append((R.key(x), keeps))
            erasers = [R.key(c) for c, _ in R.calls_in(f["body"], lambda n: n.split("::")[-1] in ("clear", "erase", "swap", "assign"))]
            dims = "1" if writes or "<1>" in f.get("cls", "") + f.get("full", "") else "N"
            rep.count("obligations:H2b")
            k = "H2b:detail::filler<%s>::operator()" % ("1" if re.search(r"filler<1", f.get("cls", "") + f["full"]) else "N")
            badw = [w for w, keeps in writes if not keeps] + erasers
            # the call sites: harmless where the accumulate flag is known to be false
            sites, exposed = 0, 0
            for g in fns:
                if g["name"] != "boost::gil::fill_histogram" or len(g["params"]) != 10:
                    continue
                acc = g["params"][3]["name"]
                for c, pth in R.find(g["body"], lambda x: x.get("k") == "Call" and x["callee"].get("id") == f.get("id")):
                    sites += 1
                    if not any(op == "==" and l == acc and r == "0" for op, l, r in R.guards(pth)):
                        exposed += 1
            if badw and exposed:
                rep.violation("H2b-prefill-keeps", k, where, {"overwrites": badw, "reached_with": "fill_histogram(..., accumulate = true, ...): %d of %d call(s) of the pre-fill are not guarded by !accumulate" % (exposed, sites)})
            else:
                rep.ok("H2b-prefill-keeps", k, {"writes": [w for w, _ in writes], "call_sites": sites, "reachable_with_accumulate": exposed})
        # ---------------------------------------------------------------- H6 / H7
        if nm == "boost::gil::fill_histogram" and len(f["params"]) == 3 and is_std(f["params"][1]["type"]):
            rep.count("obligations:H6")
            std_filler(f, rep, where)
        if nm == "boost::gil::cumulative_histogram" and is_std(f["params"][0]["type"]):
            rep.count("obligations:H7")
            std_cumulative(f, rep, where)
        # ---------------------------------------------------------------- H3
        if nm == "boost::gil::cumulative_histogram" and not is_std(f["params"][0]["type"]):
            rep.count("obligations:H3")
            keys = [R.key(x) for x, _ in R.find(f["body"], lambda x: x.get("k") in ("Assign", "CompoundAssign") or (x.get("k") == "Call" and x.get("op") == "="))]
            sorts = [R.key(c) for c, _ in R.calls_in(f["body"], lambda n: n == "std::sort")]
            lp = [loop_shape(x) for x, _ in R.find(f["body"], lambda x: x.get("k") == "For")]
            one_d = ("(sorted_keys[(counter++)] = make_pair(v.first,v.second))" in keys and sorts == ["sort(sorted_keys.begin(),sorted_keys.end())"] and
                     "(cumulative_counter += sorted_keys[i].second)" in keys and "(cumulative_hist[sorted_keys[i].first] = cumulative_counter)" in keys and
                     lp and lp[0][1:] == ("0", "(i < sorted_keys.size())", "(++i)") and
                     keys.index("(cumulative_counter += sorted_keys[i].second)") < keys.index("(cumulative_hist[sorted_keys[i].first] = cumulative_counter)"))
            comps = [R.key(c) for c, _ in R.calls_in(f["body"], lambda n: n.endswith("tuple_compare"))]
            n_d = ("(cumulative_counter += hist.at(v2.first))" in keys and "(cumulative_hist[v1.first] = cumulative_counter)" in keys and
                   len(comps) == 1 and comps[0].startswith("tuple_compare(v2.first,v1.first,"))
            guard_ok = False
            for x, p in R.find(f["body"], lambda x: x.get("k") == "CompoundAssign" and R.key(x) == "(cumulative_counter += hist.at(v2.first))"):
                gs = R.guards(p)
                guard_ok = any(l == "comp" and op == "!=" and r == "0" for op, l, r in gs)
            k = "H3:cumulative_histogram" + ("<3d>" if "int, int, int" in f["full"] else "<1d>")
            if one_d and n_d and guard_ok:
                rep.ok("H3-cumulative", k, "running sum over sorted keys / dominated-keys sum")
            else:
                rep.violation("H3-cumulative", "H3:cumulative_histogram", where, {"one_dimensional_branch": bool(one_d), "n_dimensional_branch": bool(n_d and guard_ok), "statements": keys})
        # ---------------------------------------------------------------- H4
        if nm == "boost::gil::histogram::sub_histogram" and not f["params"]:
            rep.count("obligations:H4")
            keys = [R.key(x) for x, _ in R.find(f["body"], lambda x: x.get("k") in ("CompoundAssign",) or (x.get("k") == "Call" and x.get("op") == "+="))]
            decl = {dd["name"]: R.key(dd["init"]) for x, _ in R.find(f["body"], lambda x: x.get("k") == "Decl") for dd in x["decls"] if dd.get("init") is not None}
            fe = [R.key(c)[:40] for c, _ in R.calls_in(f["body"], lambda n: n == "std::for_each")]
            ok = keys == ["(sub_h[sub_key] += this.operator[](v.first))"] and str(decl.get("sub_key", "")).startswith("tuple_to_tuple(v.first,") and fe == ["for_each(this.begin(),this.end(),Lambda)"[:40]]
            if ok:
                rep.ok("H4-marginal", "H4:sub_histogram<Dims...>()", keys)
            else:
                rep.violation("H4-marginal", "H4:sub_histogram<Dims...>()", where, {"statements": keys, "projected_key": decl.get("sub_key"), "loops": fe})
        # ---------------------------------------------------------------- H5
        if nm in ("boost::gil::histogram::normalize", "boost::gil::histogram::sum"):
            rep.count("obligations:H5")
            keys = [R.key(x) for x, _ in R.find(f["body"], lambda x: x.get("k") in ("Assign", "CompoundAssign") or (x.get("k") == "Call" and x.get("op") in ("=", "+=")))]
            fe = [R.key(c) for c, _ in R.calls_in(f["body"], lambda n: n == "std::for_each")]
            decl = {dd["name"]: R.key(dd["init"]) for x, _ in R.find(f["body"], lambda x: x.get("k") == "Decl") for dd in x["decls"] if dd.get("init") is not None}
            want = ["(sum += v.second)"] + (["(this.operator[](v.first) = (v.second / sum))"] if short == "normalize" else [])
            ok = keys == want and all(k == "for_each(this.begin(),this.end(),Lambda)" for k in fe) and len(fe) == len(want) and decl.get("sum") in ("0", "0.0")
            k = "H5:histogram::%s%s" % (short, "<3d>" if "int, int, int" in f.get("cls", "") else "<1d>")
            if ok:
                rep.ok("H5-normalize", k, keys)
            else:
                rep.violation("H5-normalize", "H5:histogram::%s" % short, where, {"statements": keys, "loops": fe, "initial_sum": decl.get("sum")})
    rep.floor("obligations:H1", 2)
    rep.floor("obligations:H1b", 1)
    rep.floor("obligations:H2", 2)
    rep.floor("obligations:H2b", 2)
    rep.floor("obligations:H3", 2)
    rep.floor("obligations:H4", 1)
    rep.floor("obligations:H5", 3)
    rep.floor("obligations:H6", 6)
    rep.floor("obligations:H7", 6)
