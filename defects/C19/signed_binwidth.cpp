// C19 replay: signed channels are divided by the unsigned bin width after conversion to size_t
// g++ -std=c++14 -I/repo/include signed_binwidth.cpp && ./a.out
#include <boost/gil.hpp>
#include <boost/gil/histogram.hpp>
#include <cstdio>
namespace gil = boost::gil;
int main()
{
    gil::gray8s_image_t img(1, 1, gil::gray8s_pixel_t(-4));
    gil::histogram<int> h;
    gil::fill_histogram(gil::view(img), h, 3);
    int bad = 0;
    for (auto const& kv : h) { std::printf("pixel -4, bin width 3: bin (%d) = %g (expected bin -1)\n", std::get<0>(kv.first), kv.second); bad += std::get<0>(kv.first) != -1; }
    return bad;
}
