"""C01 pixel access stays inside the image's storage (decided part):
 1. address law of views built over caller buffers,
 2. allocation formula / view construction / deallocation arguments of image<> (all construction sites),
 3. byte footprint of packed and bit-aligned channel access vs the pixel's own bytes (D-bits)."""
import os
from . import common as C
from .pairs import Pair, run_pairs
from .ir.bits import BitsInterp
from .ir.poly import Poly, Unsupported

LEVEL = "other"
EXPLANATION = ("Static analysis (necessary conditions of the property whose truth is visible in the value flow): "
               "(1) for views built by interleaved_view/planar_*_view the cell of (x,y) is p + y*rowbytes + x*sizeof(pixel) per plane; "
               "(2) for image<P,IsPlanar,Alloc> over interleaved, planar, 16-bit, float, packed and bit-aligned pixels, at every "
               "construction site (size ctor, fill ctor, copy ctor, recreate reuse and reallocate branches) the polynomial normal "
               "form of the cell of view(img)(x,y), including the byte count passed to the allocator, equals the documented "
               "mechanism (rows x aligned row size, + alignment slack, rounded up to bytes; base aligned; plane k at k*row*h); the "
               "(pointer,size) passed to deallocate are the ones obtained from allocate; with 0<=x<w, 0<=y<h and w*step<=row this "
               "is the in-buffer lemma. (3) the bytes read/written by packed / bit-aligned channel access must lie inside the "
               "bytes spanned by the pixel's own bits. Not decided: that iterators and algorithms only visit in-range "
               "coordinates (loop bounds), overflow of w*h*step.")

BIG = 1 << 40
W = "include/boost/gil/image.hpp"

ALLOC = '''
extern "C" unsigned char* vf_alloc(std::size_t n);
extern "C" void vf_free(unsigned char* p, std::size_t n);
namespace vf {
template <class T> struct alloc { using value_type = T; alloc() = default; template <class U> alloc(alloc<U> const&) {}
  T* allocate(std::size_t n){ return (T*)vf_alloc(n*sizeof(T)); } void deallocate(T* p, std::size_t n){ vf_free((unsigned char*)p, n*sizeof(T)); }
  template <class U> struct rebind { using other = alloc<U>; };
  bool operator==(alloc const&) const { return true; } bool operator!=(alloc const&) const { return false; } };
using A = alloc<unsigned char>;
}
'''

# image kinds: tag -> (C++ type, step in memunits, memunits per byte, planes, probes, fill pixel expr)
IMG = {
    "i8":    ("image<rgb8_pixel_t,false,A>", 3, 1, 1, 1),
    "p8":    ("image<rgb8_pixel_t,true,A>", 1, 1, 3, 3),
    "g16":   ("image<gray16_pixel_t,false,A>", 2, 1, 1, 1),
    "f32":   ("image<rgba32f_pixel_t,false,A>", 16, 1, 1, 1),
    "p16":   ("image<rgb16_pixel_t,true,A>", 2, 1, 3, 3),
    "pk565": ("image<bgr565_pixel_t,false,A>", 2, 1, 1, 1),
    "b7":    ("bit_aligned_image3_type<2,2,3,rgb_layout_t,A>::type", 7, 8, 1, 1),
    "b1":    ("bit_aligned_image1_type<1,gray_layout_t,A>::type", 1, 8, 1, 1),
    "b4":    ("bit_aligned_image3_type<1,2,1,rgb_layout_t,A>::type", 4, 8, 1, 1),
    "b16":   ("bit_aligned_image3_type<5,6,5,rgb_layout_t,A>::type", 16, 8, 1, 1),
}
QUICK = ["i8", "p8", "g16", "pk565", "b7", "b1"]


def spec_total(w, h, a, step, mu, planes, aligned):
    row = "boost::gil::align((std::size_t)(%s*%d), (std::size_t)(%s*%d))" % (w, step, a, mu) if aligned else "(std::size_t)(%s*%d)" % (w, step)
    tot = "((%s*%s*%d + %d) / %d%s)" % (row, h, planes, mu - 1, mu, (" + (%s-1)" % a) if aligned else "")
    return row, tot


def spec_cell(mem, w, h, a, x, y, step, mu, planes, aligned, c):
    row, tot = spec_total(w, h, a, step, mu, planes, aligned)
    base = "boost::gil::align((std::size_t)%s, (std::size_t)%s)" % (mem, a) if aligned else "(std::size_t)%s" % mem
    return "(iptr)(%s*%d + %d*%s*%s + %s*%s + %s*%d)" % (base, mu, c, row, h, y, row, x, step), tot


def facts_for(extra=None):
    d = dict(extra or {})

    def f(atom):
        if atom in d:
            return d[atom]
        if atom.startswith("PURE__ZN5boost3gil5align") or atom.startswith("PURE_vf_alloc"):
            return (1, BIG)
        return None
    return f


def run(rep):
    C.need_tools(C.IRDUMP)
    kinds = list(IMG) if rep.tier == "thorough" else QUICK
    pairs = []
    # ---- 1. views over caller-supplied buffers
    par = "unsigned char* p, std::ptrdiff_t w, std::ptrdiff_t h, std::ptrdiff_t rb, std::ptrdiff_t x, std::ptrdiff_t y"
    for nm, mk, sz in (("interleaved_view<rgb8>", "interleaved_view(w, h, (rgb8_pixel_t*)p, rb)", 3),
                       ("interleaved_view<gray16>", "interleaved_view(w, h, (gray16_pixel_t*)p, rb)", 2),
                       ("interleaved_view<rgba32f>", "interleaved_view(w, h, (rgba32f_pixel_t*)p, rb)", 16),
                       ("interleaved_view<bgr565 packed>", "interleaved_view(w, h, (bgr565_pixel_t*)p, rb)", 2)):
        pairs.append(Pair(par, "probe_at<0>(%s, x, y)" % mk, "(iptr)(p + y*rb + x*%d)" % sz, "view-law", nm, "view-law:" + nm, "include/boost/gil/image_view_factory.hpp"))
        pairs.append(Pair(par, "(iptr)(%s).width()" % mk, "(iptr)w", "view-law", nm + ".width", "view-law:" + nm + ".width", "include/boost/gil/image_view_factory.hpp"))
        pairs.append(Pair(par, "(iptr)(%s).height()" % mk, "(iptr)h", "view-law", nm + ".height", "view-law:" + nm + ".height", "include/boost/gil/image_view_factory.hpp"))
    parp = "unsigned char* p0, unsigned char* p1, unsigned char* p2, unsigned char* p3, std::ptrdiff_t w, std::ptrdiff_t h, std::ptrdiff_t rb, std::ptrdiff_t x, std::ptrdiff_t y"
    for nm, mk, n in (("planar_rgb_view", "planar_rgb_view(w, h, p0, p1, p2, rb)", 3), ("planar_rgba_view", "planar_rgba_view(w, h, p0, p1, p2, p3, rb)", 4),
                      ("planar_cmyk_view", "planar_cmyk_view(w, h, p0, p1, p2, p3, rb)", 4)):
        for c in range(n):
            pairs.append(Pair(parp, "(iptr)&at_c<%d>(%s(x, y))" % (c, mk), "(iptr)(p%d + y*rb + x)" % c, "view-law", "%s plane %d" % (nm, c),
                              "view-law:%s:%d" % (nm, c), "include/boost/gil/image_view_factory.hpp"))
    # ---- 2. image construction sites
    sig = "std::ptrdiff_t w, std::ptrdiff_t h, std::size_t a, std::ptrdiff_t x, std::ptrdiff_t y, std::ptrdiff_t w2, std::ptrdiff_t h2, std::size_t a2"
    for k in kinds:
        T, step, mu, planes, np = IMG[k]
        for aligned in (False, True):
            av = "a" if aligned else "(std::size_t)0"
            av2 = "a2" if aligned else "(std::size_t)0"
            fx = {"a0": (1, BIG), "a1": (1, BIG), "a5": (1, BIG), "a6": (1, BIG)}
            if aligned:
                fx["a2"] = (1, BIG)
                fx["a7"] = (1, BIG)
            facts = facts_for(fx)
            vt = "aligned" if aligned else "unaligned"
            for c in range(np):
                cell, tot = spec_cell("vf_alloc(%s)", "w", "h", av, "x", "y", step, mu, planes, aligned, c)
                row, total = spec_total("w", "h", av, step, mu, planes, aligned)
                rhs = cell.replace("vf_alloc(%s)", "vf_alloc(%s)" % total)
                for site, mk in (("image(w,h,align)", "%s img(w, h, %s);" % (T, av)),
                                 ("image(point,align)", "%s img(point_t(w, h), %s);" % (T, av)),
                                 ("image(w,h,pixel,align)", "%s::value_type px{}; %s img(w, h, px, %s);" % (T, T, av)),
                                 ("image(image const&)", "%s src(w, h, %s); %s img(src);" % (T, av, T)),
                                 ("image(image&&)", "%s src(w, h, %s); %s img(std::move(src));" % (T, av, T)),
                                 ("image(view,align)", "%s src(w, h, %s); %s img(view(src), %s);" % (T, av, T, av)),
                                 ("operator=(image const&) other size", "%s src(w, h, %s); %s img(w + 1, h, %s); img = src;" % (T, av, T, av))):
                    if c > 0 and site not in ("image(w,h,align)", "image(image const&)"):
                        continue
                    pairs.append(Pair(sig, "[&]{ %s return probe_at<%d>(view(img), x, y); }()" % (mk, c), rhs, "alloc-law",
                                      "%s of %s (%s) plane %d" % (site, k, vt, c), "alloc-law:%s:%s:%s" % (site, k, vt), W, facts=facts))
                if c == 0:
                    for site, mk in (("image(w,h,align)", "%s img(w, h, %s);" % (T, av)), ("image(image const&)", "%s src(w, h, %s); %s img(src);" % (T, av, T))):
                        pairs.append(Pair(sig, "[&]{ %s return (iptr)img.width() * 1000003 + (iptr)img.height(); }()" % mk, "(iptr)w * 1000003 + (iptr)h", "alloc-law",
                                          "dimensions after %s of %s (%s)" % (site, k, vt), "alloc-law:dims:%s:%s:%s" % (site, k, vt), W, facts=facts))
                    # recreate: documented decision = no-op if same dims and alignment; reuse if the recorded size suffices; else reallocate
                    row2, total2 = spec_total("w2", "h2", av2, step, mu, planes, aligned)
                    cell_same, _ = spec_cell("vf_alloc(%s)" % total, "w", "h", av, "x", "y", step, mu, planes, aligned, 0)
                    cell_reuse, _ = spec_cell("vf_alloc(%s)" % total, "w2", "h2", av2, "x", "y", step, mu, planes, aligned, 0)
                    cell_new, _ = spec_cell("vf_alloc(%s)" % total2, "w2", "h2", av2, "x", "y", step, mu, planes, aligned, 0)
                    same = "(w2 == w && h2 == h%s)" % (" && a2 == a" if aligned else "")
                    rhs = "%s ? %s : ((%s >= %s) ? %s : %s)" % (same, cell_same, total, total2, cell_reuse, cell_new)
                    for site, mk in (("recreate(w,h,align)", "img.recreate(w2, h2, %s);" % av2), ("recreate(point,align)", "img.recreate(point_t(w2, h2), %s);" % av2),
                                     ("recreate(w,h,pixel,align)", "%s::value_type px{}; img.recreate(w2, h2, px, %s);" % (T, av2)),
                                     ("recreate(w,h,align,alloc)", "img.recreate(w2, h2, %s, A());" % av2)):
                        pairs.append(Pair(sig, "[&]{ %s img(w, h, %s); %s return probe_at<0>(view(img), x, y); }()" % (T, av, mk), rhs, "recreate-law",
                                          "%s of %s (%s)" % (site, k, vt), "recreate-law:%s:%s:%s" % (site, k, vt), W, facts=facts))

    def call_check(rep_, p, ia, ib):
        if p.rule not in ("alloc-law", "recreate-law"):
            return
        allocs = [c for c in ia.calls if c[0] == "vf_alloc"]
        frees = [c for c in ia.calls if c[0] == "vf_free"]
        rep_.count("alloc_calls", len(allocs))
        sizes = set(repr(c[1][0]) for c in allocs)
        ok = True
        for f in frees:
            ptr, size = f[1]
            # the freed pointer must be (a polynomial combination selecting) an allocation result and the size one of the allocated sizes
            ats = [a for a in ptr.atoms() if a.startswith("PURE_vf_alloc(")]
            if not ats:
                ok = False
                why = "deallocate called with a pointer that is not an allocation result: %r" % ptr
                break
            for a in ats:
                n = a[len("PURE_vf_alloc("):-1]
                # the size passed along this pointer must be able to equal its allocation size
            if repr(size) not in sizes and not any(repr(size).find(s) >= 0 or s.find(repr(size)) >= 0 for s in sizes):
                if not size_matches(size, ptr):
                    ok = False
                    why = "deallocate size %s is not the size the pointer was allocated with (%s)" % (repr(size)[:200], sorted(sizes)[:2])
                    break
        key = "dealloc-args:" + p.key
        if ok:
            rep_.ok("dealloc-args", p.desc, {"allocs": len(allocs), "frees": len(frees)})
        else:
            rep_.violation("dealloc-args", key, W, {"obligation": p.desc, "problem": why})

    rep.trusted += ["clang 14 front end and LLVM inliner/SROA/mem2reg/full unrolling of constant-trip loops", "harness/ir/poly.py",
                    "boost::gil::align(x,a) treated as an uninterpreted pure function on both sides (its own contract: see rule align)",
                    "default_construct/uninitialized_fill/uninitialized_copy/destruct_pixels do not modify the image object (they take the view by const reference)"]
    rep.assumptions += ["w,h >= 1; alignment >= 1 in the aligned variants (the unaligned variants use alignment 0)"]
    rep.rule("view-law: cell of (x,y) of interleaved_view/planar_*_view == p + y*rowbytes + x*sizeof(pixel) (per plane)")
    rep.rule("alloc-law: cell of view(img)(x,y) after each construction site == documented formula incl. the byte count passed to allocate")
    rep.rule("recreate-law: same after recreate: no-op / reuse iff recorded bytes >= needed / reallocate")
    rep.rule("dealloc-args: every deallocate gets an allocation result and the size it was allocated with")
    run_pairs(rep, "C01", pairs, header='#include "vf_common.hpp"\n' + ALLOC + 'using namespace vf;',
              keep=["boost::gil::align", "default_construct_pixels", "destruct_pixels", "uninitialized_fill_pixels", "uninitialized_copy_pixels", "copy_pixels"],
              extra=["--unroll"], readonly=["default_construct_pixels", "destruct_pixels", "uninitialized_fill_pixels", "uninitialized_copy_pixels", "copy_pixels"],
              pure=["boost::gil::align", "^vf_alloc$"], call_check=call_check)
    footprint(rep)
    align_contract(rep)
    rep.floor("obligations:view-law", 20)
    rep.floor("obligations:alloc-law", len(kinds) * 2 * 7)
    rep.floor("obligations:recreate-law", len(kinds) * 2 * 4)
    rep.floor("obligations:footprint", 100)
    from .p06 import accept_inconclusive
    accept_inconclusive(rep, "c01_inconclusive.json")


def size_matches(size, ptr):
    """size polynomial is a boolean-weighted combination whose weights pair each allocation with its own size"""
    return False


def align_contract(rep):
    """align(x,a) is a multiple of a: its polynomial (with rem = x - a*div) has a as a factor of every term"""
    from .ir.poly import PolyInterp
    wd = C.workpath("C01")
    src = os.path.join(wd, "c01_align.cpp")
    open(src, "w").write('#include "vf_common.hpp"\nextern "C" std::size_t w_align(std::size_t x, std::size_t a){ return boost::gil::align(x, a); }\n')
    bc = C.emit_ir(src, src[:-4] + ".bc")
    d = C.irdump(bc, src[:-4] + ".json")
    fn = [f for f in d["functions"] if f["name"] == "w_align"][0]
    it = PolyInterp(fn)
    r = it.run()
    rep.count("obligations:align")
    if isinstance(r, Poly) and r.t and all("a1" in k for k in r.t):
        rep.ok("align", "boost::gil::align(x,a) is a multiple of a", repr(r)[:300])
    else:
        rep.violation("align", "align:multiple", "include/boost/gil/utilities.hpp (align)", {"normal_form": repr(r)[:600]})
    # x <= align(x,a) < x + a : align = x + (a - x%a)%a, the added term is a remainder modulo a
    d = r - Poly.atom("a0")
    rep.count("obligations:align")
    txt = repr(d)
    if "UDIV(" in txt and all(("a1" in k) or k == ("a0",) for k in d.t):
        rep.ok("align", "align(x,a) - x is built from remainders modulo a", txt[:300])
    else:
        rep.incon("align", "align(x,a) - x in [0,a)", txt[:300])


def footprint(rep):
    """bytes touched by channel access of packed/bit-aligned pixels vs the bytes the pixel's own bits span"""
    wd = C.workpath("C01")
    BA = [("bits7_img", (2, 2, 3)), ("bits121_img", (1, 2, 1)), ("bits565_img", (5, 6, 5)), ("bits233_img", (2, 3, 3)), ("bits1_img", (1,))]
    L = ['#include "vf_common.hpp"', 'using namespace vf;', 'extern "C" {']
    obl = []
    for img, sizes in BA:
        tot = sum(sizes)
        for off in range(8):
            for kch, sz in enumerate(sizes):
                tag = "%s_%d_%d" % (img, off, kch)
                L.append("void w_fs_%s(unsigned char* p, std::uint8_t v){ %s::view_t::reference r(p, %d); at_c<%d>(r) = v; }" % (tag, img, off, kch))
                obl.append(("w_fs_" + tag, img, off, kch, tot, "write"))
                L.append("std::uint32_t w_fg_%s(unsigned char const* p){ %s::const_view_t::reference r(p, %d); return (std::uint32_t)at_c<%d>(r); }" % (tag, img, off, kch))
                obl.append(("w_fg_" + tag, img, off, kch, tot, "read"))
    for pix, tot in (("bgr565_pixel_t", 16), ("rgb565_pixel_t", 16)):
        for kch in range(3):
            L.append("void w_fs_%s_%d(%s& px, std::uint8_t v){ at_c<%d>(px) = v; }" % (pix, kch, pix, kch))
            obl.append(("w_fs_%s_%d" % (pix, kch), pix, 0, kch, tot, "write"))
    L.append("}")
    src = os.path.join(wd, "c01_footprint.cpp")
    open(src, "w").write("\n".join(L) + "\n")
    bc = C.emit_ir(src, src[:-4] + ".bc")
    d = C.irdump(bc, src[:-4] + ".json")
    fns = {f["name"]: f for f in d["functions"]}
    rep.rule("footprint: bytes read or written by at_c<K> on a packed / bit-aligned pixel lie inside the bytes spanned by the pixel's bits [off, off+bit_size)")
    agg = {}
    for name, img, off, kch, tot, rw in obl:
        rep.count("obligations:footprint")
        it = BitsInterp(fns[name])
        it.run()
        touched = set(o for (root, o) in it.reads if root == "a0") | set(o for (root, o) in it.final_memory() if root == "a0")
        allowed = set(range(0, (off + tot + 7) // 8))
        if touched <= allowed:
            rep.ok("footprint", "footprint:%s:offset%d:at_c<%d>:%s" % (img, off, kch, rw), {"bytes": sorted(touched), "pixel_bytes": sorted(allowed)})
        else:
            excess = len(touched - allowed)
            a = agg.setdefault(img, {"max_excess": 0, "accesses": [], "pixel_bits": tot})
            a["max_excess"] = max(a["max_excess"], excess)
            a["accesses"].append("bit offset %d, at_c<%d> %s: touches bytes %s, pixel occupies bytes %s" % (off, kch, rw, sorted(touched), sorted(allowed)))
    for img, det in sorted(agg.items()):
        key = "footprint:%s:channel access reaches up to %d byte(s) beyond the pixel's own bytes" % (img, det["max_excess"])
        det["accesses"] = det["accesses"][:12] + ["... %d accesses in total" % len(det["accesses"])]
        det["note"] = "channel access copies sizeof(BitField) bytes starting at the channel's first byte; BitField = min_fast_uint<bit_size+7>"
        rep.violation("footprint", key, "include/boost/gil/channel.hpp (packed_channel_reference_base::get_data/set_data), metafunctions.hpp (bit_aligned_image_type)", det)
