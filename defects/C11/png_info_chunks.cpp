// C11 / R13, R14: reading the optional png chunks of a VALID file went out of bounds:
//  * _read_histogram: std::copy of the hIST values into &_histogram.front() of a vector that was never sized (write through null);
//  * _read_transparency_data: png_get_tRNS returns the address of the ONE png_color_16 inside png_info; for a palette image with a
//    200-entry tRNS chunk the reader copied 200 of them (heap-buffer-overflow READ of 2000 bytes, ASan).
// The png is written with libpng itself.
// Build: g++ -std=c++14 -fsanitize=address -I /repo/include png_info_chunks.cpp -lpng && ./a.out
#include <boost/gil.hpp>
#include <boost/gil/extension/io/png.hpp>
#include <cstdio>
#include <sstream>
#include <vector>
using namespace boost::gil;
static void wr(png_structp p, png_bytep d, png_size_t n) { static_cast<std::string*>(png_get_io_ptr(p))->append(reinterpret_cast<char*>(d), n); }
static void fl(png_structp) {}
int main()
{
    std::string file;
    png_structp p = png_create_write_struct(PNG_LIBPNG_VER_STRING, nullptr, nullptr, nullptr);
    png_infop i = png_create_info_struct(p);
    png_set_write_fn(p, &file, wr, fl);
    png_set_IHDR(p, i, 4, 2, 8, PNG_COLOR_TYPE_PALETTE, PNG_INTERLACE_NONE, PNG_COMPRESSION_TYPE_DEFAULT, PNG_FILTER_TYPE_DEFAULT);
    std::vector<png_color> pal(200); for (int k = 0; k < 200; ++k) { pal[k].red = k; pal[k].green = 2 * k; pal[k].blue = 255 - k; }
    png_set_PLTE(p, i, pal.data(), 200);
    std::vector<png_byte> alpha(200, 128); png_set_tRNS(p, i, alpha.data(), 200, nullptr);
    std::vector<png_uint_16> hist(200, 7); png_set_hIST(p, i, hist.data());
    png_byte rows[2][4] = {{0, 1, 2, 3}, {4, 5, 6, 7}}; png_bytep rp[2] = {rows[0], rows[1]};
    png_set_rows(p, i, rp); png_write_png(p, i, PNG_TRANSFORM_IDENTITY, nullptr); png_destroy_write_struct(&p, &i);

    int bad = 0;
    {
        std::istringstream in(file, std::ios::binary);
        image_read_settings<png_tag> s; s._read_histogram = true;
        auto b = read_image_info(in, s);
        std::printf("histogram: %zu values\n", b._info._histogram.size());
        bad += b._info._histogram.size() != 200 || b._info._histogram[199] != 7;
    }
    {
        std::istringstream in(file, std::ios::binary);
        image_read_settings<png_tag> s; s._read_transparency_data = true;
        auto b = read_image_info(in, s);
        std::printf("transparency: %d entries, %zu alpha values, %zu colour\n", (int)b._info._num_trans, b._info._trans.size(), b._info._trans_values.size());
        bad += b._info._trans.size() != 200 || b._info._trans[0] != 128 || b._info._trans_values.size() != 1;
    }
    return bad;
}
