// C13 / S4b: the bmp scanline reader keeps its own copy of read_palette(); it still filled the palette with alpha 0 after the reader's copy
// had been repaired (d5c25a1): for a 1-bit file read_image gives (200,210,220,255), the scanline reader's row (200,210,220,0).
// Build: g++ -std=c++14 -I /repo/include bmp_scanline_palette_alpha.cpp && ./a.out
#include <boost/gil.hpp>
#include <boost/gil/extension/io/bmp.hpp>
#include <cstdio>
#include <unistd.h>
using namespace boost::gil;
int main()
{
    unsigned char f[66] = {'B','M',66,0,0,0, 0,0,0,0, 62,0,0,0, 40,0,0,0, 2,0,0,0, 1,0,0,0, 1,0, 1,0, 0,0,0,0, 4,0,0,0,
                           0,0,0,0, 0,0,0,0, 0,0,0,0, 0,0,0,0,  30,20,10,0, 220,210,200,0,  0x80,0,0,0};
    char name[] = "/tmp/verif_bmp_XXXXXX";
    int fd = mkstemp(name); if (write(fd, f, sizeof f) != (ssize_t)sizeof f) return 2; close(fd);
    rgba8_image_t img; read_image(std::string(name), img, bmp_tag());
    int a1 = view(img)(0, 0)[3], a2;
    {
        auto rd = make_scanline_reader(std::string(name), bmp_tag());
        std::vector<unsigned char> buf(rd._scanline_length);
        rd.read(buf.data(), 0);
        a2 = buf[3];
    }
    unlink(name);
    std::printf("alpha of pixel (0,0): read_image %d, scanline reader %d\n", a1, a2);
    return a1 != a2;
}
