"""Abstract executor over astdump JSON (structured code, no goto): constant / polynomial propagation.

Values are polynomials (harness/ir/poly.Poly) over named symbols with declared integer ranges, or None (unknown).
Statements are executed in program order; an `if`/`switch` whose condition is decided by the current values takes
that branch only, otherwise both arms are executed on copies and the states joined (a variable whose two values
differ becomes unknown).  Loops are not iterated: their body is executed once in "loop context" (all variables
assigned in the body are first forgotten) so that calls inside are seen with the loop-invariant values.
Calls to functions whose bodies were dumped are executed inline (bounded depth); everything else goes to `on_call`,
which a rule overrides to model the I/O device (this is how a byte stream written by one function is handed to the
function that parses it).  No program is run: this is a flow-sensitive constant propagation over the syntax tree.
"""
from ..ir.poly import Poly
from . import rules as R


class Stop(Exception):
    """definite abnormal termination (throw / io_error) on the current path"""
    def __init__(self, why, line=None):
        Exception.__init__(self, why)
        self.why, self.line = why, line


MASKS = {"unsigned char": 8, "uint8_t": 8, "unsigned short": 16, "uint16_t": 16, "unsigned int": 32, "uint32_t": 32,
         "std::uint8_t": 8, "std::uint16_t": 16, "std::uint32_t": 32}


TYPE_RANGES = [(r"^(const )?(unsigned char|uint8_t|std::uint8_t|boost::gil::byte_t|byte_t)$", (0, 255)), (r"^(const )?(unsigned short|uint16_t|std::uint16_t)$", (0, 65535)),
               (r"^(const )?(unsigned int|uint32_t|std::uint32_t)$", (0, 2 ** 32 - 1)), (r"^(const )?(int|int32_t|std::int32_t)$", (-2 ** 31, 2 ** 31 - 1)),
               (r"^(const )?(short|int16_t)$", (-32768, 32767)), (r"^(const )?(signed char|int8_t)$", (-128, 127)), (r"^(const )?bool$", (0, 1))]


def type_range(t):
    import re
    t = (t or "").replace("typename ", "").strip()
    for pat, r in TYPE_RANGES:
        if re.match(pat, t):
            return r
    return None


class Exec:
    def __init__(self, fns, ranges=None, depth=6):
        self.by_id = {}
        for f in fns:
            self.by_id.setdefault(f["id"], f)
        self.ranges = dict(ranges or {})      # atom -> (lo, hi)
        self.env = {}                         # variable key -> Poly | None
        self.events = []
        self.depth = depth
        self.loop = 0
        self.trace = []
        self.alias = {}                       # "L:<param id>" -> key of the object a reference parameter is bound to
        self.nphi = 0
        self.arrays = {}                      # local array var key -> [Poly|None, ...]

    # ------------------------------------------------------------------ values
    def bounds(self, p):
        """interval of a polynomial from the atom ranges (None = unbounded)"""
        if p is None:
            return (None, None)
        lo = hi = 0
        for mon, c in p.t.items():
            mlo, mhi = 1, 1
            for a in mon:
                r = self.ranges.get(a)
                if r is None:
                    return (None, None)
                cands = [mlo * r[0], mlo * r[1], mhi * r[0], mhi * r[1]]
                mlo, mhi = min(cands), max(cands)
            cands = [c * mlo, c * mhi]
            lo += min(cands)
            hi += max(cands)
        return (lo, hi)

    def truth(self, n):
        """True / False / None for a condition"""
        n = R.strip(n)
        if n is None:
            return None
        k = n.get("k")
        if k == "Paren":
            return self.truth(n["e"])
        if k == "Unary" and n["op"] == "!":
            t = self.truth(n["e"])
            return None if t is None else (not t)
        if k == "Binary" and n["op"] in ("&&", "||"):
            a = self.truth(n["l"])
            if n["op"] == "&&":
                if a is False:
                    return False
                b = self.truth(n["r"])
                return True if (a and b) else (False if b is False else None)
            if a is True:
                return True
            b = self.truth(n["r"])
            return True if b else (False if (a is False and b is False) else None)
        if k == "Binary" and n["op"] in ("<", "<=", ">", ">=", "==", "!="):
            a, b = self.ev(n["l"]), self.ev(n["r"])
            if a is None or b is None:
                return None
            lo, hi = self.bounds(a - b)
            op = n["op"]
            if lo is None:
                if (a - b).is_const():
                    lo = hi = (a - b).const_value()
                else:
                    return None
            res = {"<": (hi < 0, lo >= 0), "<=": (hi <= 0, lo > 0), ">": (lo > 0, hi <= 0), ">=": (lo >= 0, hi < 0),
                   "==": (lo == hi == 0, lo > 0 or hi < 0), "!=": (lo > 0 or hi < 0, lo == hi == 0)}[op]
            return True if res[0] else (False if res[1] else None)
        v = self.ev(n)
        if v is None:
            return None
        lo, hi = self.bounds(v)
        if lo is None:
            return None
        if lo == hi == 0:
            return False
        if lo > 0 or hi < 0:
            return True
        return None

    def var_key(self, n):
        n = R.strip(n)
        if n is None:
            return None
        while n.get("k") == "Paren":
            n = R.strip(n["e"])
        k = n.get("k")
        if k == "DeclRef":
            if n.get("dk") in ("Var", "ParmVar"):
                kk = "L:%s" % n["id"]
                return self.alias.get(kk, kk)
            return None
        if k == "Member":
            b = R.strip(n.get("base"))
            if b is None or b.get("k") == "This":
                return "M:" + n["name"]
            bk = self.var_key(b)
            return None if bk is None else bk + "." + n["name"]
        return None

    def var_name(self, n, vk):
        n = R.strip(n)
        if vk.startswith("M:"):
            return vk[2:]
        return R.key(n)

    def scalar(self, n):
        t = (n.get("type") or "")
        return not any(x in t for x in ("vector", "view", "iterator", "string", "point", "*", "device", "info<", "settings<"))

    def atomv(self, name, lo=None, hi=None):
        if lo is not None:
            self.ranges[name] = (lo, hi)
        return Poly.atom(name)

    def floordiv(self, a, d):
        """floor(a/d) as a polynomial: every coefficient is split c = d*q + r (0 <= r < d), so
        floor((d*A + rest)/d) = A + floor<d>(rest) with a canonical rest"""
        if d == 1:
            return a
        A, rest = {}, {}
        for mon, c in a.t.items():
            q, r = c // d, c % d
            if q:
                A[mon] = q
            if r:
                rest[mon] = r
        A, rest = Poly(A), Poly(rest)
        if not rest.t:
            return A
        if rest.is_const():
            return A            # 0 <= r < d
        name = "floor%d(%s)" % (d, repr(rest))
        lo, hi = self.bounds(rest)
        if lo is not None:
            self.ranges[name] = (lo // d, hi // d)
        return A + Poly.atom(name)

    def ev(self, n):
        n = R.strip(n)
        if n is None:
            return None
        k = n.get("k")
        if k == "Paren":
            return self.ev(n["e"])
        if k == "Int":
            return Poly.const(int(n["v"]))
        if k == "Bool":
            return Poly.const(1 if str(n.get("v")).lower() in ("true", "1") else 0)
        vk = self.var_key(n)
        if vk is not None and vk in self.env:
            return self.env[vk]
        if "const" in n and R.is_lit(str(n["const"])):
            return Poly.const(int(n["const"]))
        if vk is not None and self.scalar(n):
            nm = self.var_name(n, vk)
            if nm not in self.ranges:
                r = type_range(n.get("ctype") or n.get("type"))
                if r is not None:
                    self.ranges[nm] = r
            return Poly.atom(nm)
        if "const" in n and R.is_lit(str(n["const"])):
            return Poly.const(int(n["const"]))
        if k == "Binary":
            op = n["op"]
            if op in ("<", "<=", ">", ">=", "==", "!=", "&&", "||"):
                t = self.truth(n)
                return None if t is None else Poly.const(1 if t else 0)
            a, b = self.ev(n["l"]), self.ev(n["r"])
            if a is None or b is None:
                return None
            return self.binop(op, a, b)
        if k == "Unary":
            op = n["op"]
            if op == "-":
                v = self.ev(n["e"])
                return None if v is None else -v
            if op == "+":
                return self.ev(n["e"])
            if op == "~":
                v = self.ev(n["e"])
                return None if v is None else (-v - Poly.const(1))
            if op == "!":
                t = self.truth(n["e"])
                return None if t is None else Poly.const(0 if t else 1)
            if op in ("++", "--"):
                self.forget(n["e"])
                return None
            return None
        if k == "Cond":
            t = self.truth(n["cond"])
            if t is True:
                return self.ev(n["then"])
            if t is False:
                return self.ev(n["else"])
            a, b = self.ev(n["then"]), self.ev(n["else"])
            return a if (a is not None and a == b) else None
        if k == "Subscript":
            bk = self.var_key(n.get("base"))
            if bk in self.arrays:
                i = self.ev(n.get("idx"))
                el = self.arrays[bk]
                if i is not None and i.is_const() and 0 <= i.const_value() < len(el):
                    return el[i.const_value()]
                bs = [self.bounds(e) for e in el]
                if all(b[0] is not None for b in bs) and bs:
                    return self.fresh(min(b[0] for b in bs), max(b[1] for b in bs), "elem")
            return None
        if k in ("Assign", "CompoundAssign"):
            return self.assign(n)
        if k == "Call":
            return self.call(n)
        if k == "Construct":
            args = n.get("args", [])
            if len(args) == 1:
                return self.ev(args[0])
            for a in args:
                self.ev(a)
            return None
        return None

    def binop(self, op, a, b):
        if op == "+":
            return a + b
        if op == "-":
            return a - b
        if op == "*":
            return a * b
        if a.is_const() and b.is_const():
            x, y = a.const_value(), b.const_value()
            try:
                if op == "/":
                    return Poly.const(int(x / y)) if y else None
                if op == "%":
                    return Poly.const(x - y * int(x / y)) if y else None
                if op == "<<":
                    return Poly.const(x << y)
                if op == ">>":
                    return Poly.const(x >> y)
                if op == "&":
                    return Poly.const(x & y)
                if op == "|":
                    return Poly.const(x | y)
                if op == "^":
                    return Poly.const(x ^ y)
            except (ValueError, OverflowError):
                return None
        if b.is_const():
            y = b.const_value()
            if op == "&" and y < 0 and (-y) & (-y - 1) == 0:            # x & ~(d-1)
                d = -y
                return self.floordiv(a, d) * Poly.const(d)
            if op == "&" and y in (0xFFFFFFFC, 0xFFFFFFFFFFFFFFFC):
                return self.floordiv(a, 4) * Poly.const(4)
            if op == ">>" and 0 <= y < 32:
                return self.floordiv(a, 1 << y)
            if op == "/" and y > 0:
                return self.floordiv(a, y)
            if op == "<<" and 0 <= y < 32:
                return a * Poly.const(1 << y)
            if op == "&" and y >= 0:
                lo, hi = self.bounds(a)
                if lo is not None and lo >= 0:
                    return self.fresh(0, min(y, hi), "and")
                return self.fresh(0, y, "and")
        return None

    # ------------------------------------------------------------------ state
    def forget(self, n):
        vk = self.var_key(n)
        if vk is not None:
            self.env[vk] = None

    def assign(self, n):
        vk = self.var_key(n["l"])
        if n["k"] == "Assign" and n.get("op", "=") == "=":
            v = self.ev(n["r"])
        else:
            op = n.get("op", "").rstrip("=")
            a, b = self.ev(n["l"]), self.ev(n["r"])
            v = None if a is None or b is None else self.binop(op, a, b)
        if vk is not None:
            self.env[vk] = v
            self.on_assign(vk, v, n)
        return v

    def on_assign(self, vk, v, n):
        pass

    def fresh(self, lo, hi, tag="phi"):
        self.nphi += 1
        nm = "%s%d" % (tag, self.nphi)
        self.ranges[nm] = (lo, hi)
        return Poly.atom(nm)

    def join(self, envs, rngs=None):
        """pointwise join; values that differ become a fresh symbol whose range is the hull of the arms' ranges
        (evaluated with the arm's own refined ranges when given)"""
        keys = set()
        for e in envs:
            keys |= set(e)
        out = {}
        for k in keys:
            vals = [e.get(k, "absent") for e in envs]
            v0 = vals[0]
            if v0 != "absent" and all((v is not None and v != "absent" and v == v0) for v in vals):
                out[k] = v0
                continue
            lo = hi = None
            ok = True
            for i, v in enumerate(vals):
                if v is None or v == "absent":
                    ok = False
                    break
                saved = self.ranges
                if rngs:
                    self.ranges = rngs[i]
                b = self.bounds(v)
                self.ranges = saved
                if b[0] is None:
                    ok = False
                    break
                lo = b[0] if lo is None else min(lo, b[0])
                hi = b[1] if hi is None else max(hi, b[1])
            out[k] = self.fresh(lo, hi) if ok else None
        return out

    # ------------------------------------------------------------------ statements
    def block(self, stmts):
        for s in stmts:
            sig = self.stmt(s)
            if sig is not None:
                return sig
        return None

    def refine(self, cond, positive):
        """ranges refined by a condition `atom <op> const` (or const <op> atom) assumed true / false"""
        r = dict(self.ranges)
        c = R.strip(cond) if cond is not None else None
        while c is not None and c.get("k") == "Paren":
            c = R.strip(c["e"])
        if c is not None and c.get("k") == "Unary" and c.get("op") == "!":
            return self.refine(c["e"], not positive)
        if c is not None and c.get("k") == "Binary" and ((c.get("op") == "&&" and positive) or (c.get("op") == "||" and not positive)):
            # a conjunction assumed true / a disjunction assumed false: both operands are refined
            saved = self.ranges
            self.ranges = self.refine(c["l"], positive)
            out = self.refine(c["r"], positive)
            self.ranges = saved
            return out
        if c is None or c.get("k") != "Binary" or c.get("op") not in ("<", "<=", ">", ">=", "==", "!="):
            return r
        a, b = self.ev(c["l"]), self.ev(c["r"])
        op = c["op"]
        if a is None or b is None:
            return r
        if a.is_const() and not b.is_const():
            a, b, op = b, a, R.FLIP[op]
        if not b.is_const() or len(a.t) != 1:
            return r
        (mon, coef), = a.t.items()
        if len(mon) != 1 or coef != 1:
            return r
        atom, k = mon[0], b.const_value()
        if not positive:
            op = R.NEG[op]
        lo, hi = r.get(atom, (None, None))
        if lo is None:
            lo, hi = -2 ** 63, 2 ** 63
        if op == "<":
            hi = min(hi, k - 1)
        elif op == "<=":
            hi = min(hi, k)
        elif op == ">":
            lo = max(lo, k + 1)
        elif op == ">=":
            lo = max(lo, k)
        elif op == "==":
            lo, hi = max(lo, k), min(hi, k)
        if lo <= hi:
            r[atom] = (lo, hi)
        return r

    def branch(self, arms, cond=None):
        """execute alternative arms (lists of statements) on copies; arms that Stop are dropped. With `cond` (two arms:
        then, else) the ranges are refined per arm."""
        base_env, results, sigs = dict(self.env), [], []
        base_rng = self.ranges
        rngs = []
        stops = []
        for i, arm in enumerate(arms):
            self.env = dict(base_env)
            self.ranges = base_rng
            self.ranges = self.refine(cond, i == 0) if (cond is not None and len(arms) == 2) else dict(base_rng)
            try:
                sig = self.block(arm)
                results.append(self.env)
                rngs.append(self.ranges)
                sigs.append(sig)
            except Stop as s:
                stops.append(s)
        # symbols created in the arms stay known; refinements of older symbols are dropped
        merged = dict(base_rng)
        for rg in rngs:
            for k, v in rg.items():
                if k not in base_rng:
                    merged[k] = v
        self.ranges = merged
        if not results:
            raise stops[0]
        self.env = self.join(results, rngs) if len(results) > 1 else results[0]
        # a return in only some arms: conservatively continue (values were joined)
        if sigs and all(s is not None and s[0] == "return" for s in sigs):
            return sigs[0] if len(sigs) == 1 else ("return", None)
        if sigs and all(s == ("break",) for s in sigs):
            return ("break",)
        return None

    def stmt(self, s):
        if s is None:
            return None
        s0 = s
        s = R.strip(s)
        k = s.get("k")
        if k == "Compound":
            return self.block(s.get("c", []))
        if k == "Decl":
            for d in s.get("decls", []):
                if d.get("name") and d.get("id"):
                    init = R.strip(d["init"]) if d.get("init") is not None else None
                    if init is not None and init.get("k") == "InitList":
                        self.arrays["L:%s" % d["id"]] = [self.ev(e) for e in init.get("c", [])]
                        continue
                    v = self.ev(d["init"]) if d.get("init") is not None else None
                    if v is None and d.get("init") is not None:
                        r = type_range(d.get("ctype") or d.get("type"))
                        if r is not None:
                            v = self.fresh(r[0], r[1], "v_" + d["name"] + "_")
                    self.env["L:%s" % d["id"]] = v
            return None
        if k == "If":
            t = self.truth(s["cond"])
            self.on_branch(s, t)
            th = [s["then"]] if s.get("then") is not None else []
            el = [s["else"]] if s.get("else") is not None else []
            if t is True:
                return self.block(th)
            if t is False:
                return self.block(el)
            return self.branch([th, el], cond=s["cond"])
        if k == "Switch":
            return self.switch(s)
        if k == "Return":
            v = self.ev(s.get("e")) if s.get("e") is not None else None
            return ("return", v)
        if k == "Break":
            return ("break",)
        if k == "Continue":
            return ("break",)
        if k == "Throw":
            raise Stop("throw", s.get("line"))
        if k in ("For", "While", "Do", "ForRange"):
            return self.loop_stmt(s)
        if k == "Try":
            return self.stmt(s.get("body") or s.get("block"))
        if k in ("Case", "Default"):
            return self.stmt(s.get("sub"))
        self.ev(s)
        return None

    def on_branch(self, s, t):
        pass

    def flat_cases(self, body):
        """[(labels or None for default, [stmts...])] in textual order, with fallthrough preserved by position"""
        body = R.strip(body)
        items = body.get("c", []) if body.get("k") == "Compound" else [body]
        out = []
        for it in items:
            it = R.strip(it)
            labels, node = [], it
            while node is not None and node.get("k") in ("Case", "Default"):
                labels.append(node.get("v") if node["k"] == "Case" else "default")
                node = R.strip(node.get("sub"))
            if labels:
                out.append((labels, [node] if node is not None else []))
            elif out:
                out[-1][1].append(it)
        return out

    def switch(self, s):
        cases = self.flat_cases(s["body"])
        v = self.ev(s["cond"])
        self.on_branch(s, v.const_value() if (v is not None and v.is_const()) else None)

        def run_from(i):
            for j in range(i, len(cases)):
                sig = self.block(cases[j][1])
                if sig == ("break",):
                    return None
                if sig is not None:
                    return sig
            return None
        if v is not None and v.is_const():
            c = v.const_value()
            for i, (labels, _) in enumerate(cases):
                if any(l != "default" and self.case_val(l) == c for l in labels):
                    return run_from(i)
            for i, (labels, _) in enumerate(cases):
                if "default" in labels:
                    return run_from(i)
            return None
        base, results, stops = dict(self.env), [], []
        for i in range(len(cases)):
            self.env = dict(base)
            try:
                run_from(i)
                results.append(self.env)
            except Stop as st:
                stops.append(st)
        results.append(base)
        self.env = self.join(results)
        return None

    def case_val(self, l):
        if isinstance(l, dict):
            p = self.ev(l)
            return p.const_value() if p is not None and p.is_const() else None
        try:
            return int(l)
        except (TypeError, ValueError):
            return None

    def loop_stmt(self, s):
        # forget everything assigned in the loop, then run the body once in loop context
        if s.get("init") is not None:
            self.stmt(s["init"])
        for x, _ in R.find(s, lambda x: x.get("k") in ("Assign", "CompoundAssign") or (x.get("k") == "Unary" and x.get("op") in ("++", "--"))):
            self.forget(x.get("l") if "l" in x else x.get("e"))
        self.loop += 1
        self.on_loop(s, True)
        base = dict(self.env)
        try:
            try:
                self.stmt(s.get("body"))
            except Stop:
                pass
        finally:
            self.loop -= 1
            self.on_loop(s, False)
        self.env = self.join([base, self.env])
        return None

    def on_loop(self, s, entering):
        pass

    # ------------------------------------------------------------------ calls
    def call(self, n):
        r = self.on_call(n)
        if r is not NotImplemented:
            return r
        cal = n.get("callee") or {}
        f = self.by_id.get(cal.get("id"))
        if f is None or f.get("body") is None or self.depth <= 0:
            for a in n.get("args", []):
                self.ev(a)
            return None
        return self.invoke(f, n.get("args", []), n)

    def invoke(self, f, args, site=None):
        vals = [self.ev(a) for a in args]
        if site is not None and site.get("op") and not site.get("member_call") and f.get("method") and len(vals) == len(f["params"]) + 1:
            vals = vals[1:]
        saved = {}
        argn = list(args)
        if len(argn) == len(f["params"]) + 1:
            argn = argn[1:]
        for i, (p, v) in enumerate(zip(f["params"], vals)):
            if p.get("id"):
                kk = "L:%s" % p["id"]
                ak = self.var_key(argn[i]) if i < len(argn) else None
                if v is None and ak is not None and "&" in (p.get("type") or ""):
                    self.alias[kk] = ak
                else:
                    self.env[kk] = v
        self.depth -= 1
        self.trace.append(f["name"])
        try:
            sig = self.stmt(f["body"])
        finally:
            self.depth += 1
            self.trace.pop()
        return sig[1] if (sig is not None and sig[0] == "return") else None

    def on_call(self, n):
        """override: return a value (or None) to model the call, NotImplemented to fall through to inlining"""
        return NotImplemented
