// C19: instantiates the histogram members and free functions for the AST rules
#include "vf_common.hpp"
#include <boost/gil/histogram.hpp>
#include <boost/gil/extension/histogram/std.hpp>
#include <map>
#include <array>
using namespace vf;
void inst(gray8_view_t const& g, rgb8_view_t const& c, gray8s_view_t const& gs, rgb8_planar_view_t const& pl, bgr8_view_t const& bg, argb8_view_t const& ar, gray16_view_t const& g16){
  histogram<int> h1; histogram<int, int, int> h3;
  std::vector<std::vector<bool>> mask;
  h1.fill(g); h1.fill(g, 2, true, mask, std::make_tuple(1), std::make_tuple(9), true);
  h3.fill(c); h3.fill<0, 1, 2>(c, 4, false, {}, std::make_tuple(0, 0, 0), std::make_tuple(9, 9, 9), true);
  fill_histogram(g, h1); fill_histogram(g, h1, 2, true, false, true, mask, std::make_tuple(1), std::make_tuple(9), true);
  fill_histogram(c, h3, 1, false, true);
  auto c1 = cumulative_histogram(h1); auto c3 = cumulative_histogram(h3); (void)c1; (void)c3;
  auto s1 = h3.sub_histogram<0, 2>(); auto s2 = h3.sub_histogram<0>(std::make_tuple(1, 0, 0), std::make_tuple(5, 0, 0)); (void)s1; (void)s2;
  h1.normalize(); h3.normalize(); (void)h1.sum();
  h1.fill(gs, 3); h3.fill(pl, 2); auto s3 = h3.sub_histogram<0, 1>(std::make_tuple(1, 1, 0), std::make_tuple(3, 3, 0)); (void)s3;
  // keys built from a sub-selection of the channels (an axis index may exceed the number of axes)
  histogram<int, int> h2; h1.fill<2>(c, 2); h2.fill<2, 0>(c, 4); h2.fill<1, 2>(pl, 2); fill_histogram<2>(c, h1, 2);
  // the same picture in another memory order: the axes are colours
  h1.fill<0>(bg, 2); h3.fill(bg); h2.fill<2, 0>(ar, 4);
  std::vector<int> hv; std::array<int, 64> ha; std::map<int, int> hm;
  fill_histogram(g, hv); fill_histogram(g, hv, true); fill_histogram(g, ha); fill_histogram(g, hm, true);
  std::vector<long> hv2; std::array<long, 16> ha2; std::map<long, long> hm2;
  fill_histogram(c, hv2); fill_histogram(c, ha2, true); fill_histogram(c, hm2);
  // signed image into maps (the vector / array overloads refuse signed images), a 16 bit image into a vector
  std::map<double, int> hmd; std::map<int, int> hmi; fill_histogram(gs, hmd); fill_histogram(gs, hmi, true); fill_histogram(g16, hv, true);
  auto cv = cumulative_histogram(hv); auto ca = cumulative_histogram(ha); auto cm = cumulative_histogram(hm); (void)cv; (void)ca; (void)cm;
  auto cv2 = cumulative_histogram(hv2); auto ca2 = cumulative_histogram(ha2); auto cm2 = cumulative_histogram(hm2); (void)cv2; (void)ca2; (void)cm2;
}
