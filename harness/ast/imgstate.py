"""Ownership / lifetime typestate of boost::gil::image over the instantiated AST (astdump JSON).

A structured abstract interpreter: every public member of image<> is executed abstractly from every
generic valid entry state (this / image-typed parameters: empty or owning), following if/else
non-deterministically except for the conditions it understands, try/catch, return, throw, and with an
exceptional successor for every call that may throw. image's own helpers are interpreted by descending
into their (instantiated) bodies; temporaries of image type are constructed and destroyed (~image) at
scope exit.  Abstract heap: allocation k -> {live|freed, allocator tag, size symbol, pixels raw|constructed}.

Obligations (checked at every deallocate, every store to _memory and every normal or exceptional exit):
 I1 no leak: every live allocation is owned by exactly one surviving object; no store over an owning _memory
 I2 no double free / dangling: deallocate only of a live allocation; no surviving object keeps a freed pointer
    that its destructor would free again; views never point into freed or foreign storage
 I3 size passed to deallocate == size recorded at allocate; _allocated_bytes of an owner == that size
 I4 deallocating allocator == allocating allocator under the equalities known on the path
 I5 pixels of a non-empty view are constructed at every exit (normal and exceptional)
 I6 moved-from objects are empty (null, 0 bytes, empty view)
"""
import copy, re

IMG = "boost::gil::image::"

THROWING_PIXEL_FNS = {"boost::gil::default_construct_pixels": "construct", "boost::gil::uninitialized_fill_pixels": "construct",
                      "boost::gil::uninitialized_copy_pixels": "construct"}
DESTRUCT = "boost::gil::destruct_pixels"
IGNORED_CALLS = ("boost::gil::image::dimensions", "boost::gil::image::width", "boost::gil::image::height",
                 "boost::gil::image_view::dimensions", "boost::gil::image_view::width", "boost::gil::image_view::height",
                 "boost::gil::image::total_allocated_size_in_bytes", "boost::gil::image::get_row_size_in_memunits",
                 "boost::gil::image::is_planar_impl", "boost::gil::align", "boost::gil::point::", "boost::gil::operator==",
                 "boost::gil::operator!=", "std::addressof", "boost::gil::image::allocator", "boost::gil::memunit_step",
                 "boost::gil::dynamic_at_c", "boost::gil::memunit_advance", "boost::gil::view", "boost::gil::const_view")


class Broken(Exception):
    pass


def strip(n):
    while isinstance(n, dict) and n.get("k") in ("ImplicitCast", "ExplicitCast", "DefaultArg"):
        n = n["e"]
    return n


class State:
    def __init__(self):
        self.objs = {}
        self.heap = {}
        self.eq = set()          # frozenset({tagA, tagB}) known equal
        self.neq = set()
        self.locals = []         # stack of scopes: list of local image object names
        self.vars = {}           # non-image locals (symbolic values)
        self.nk = 0
        self.nsym = 0
        self.trace = []

    def clone(self):
        return copy.deepcopy(self)

    def new_alloc(self, by, size):
        self.nk += 1
        k = "k%d" % self.nk
        self.heap[k] = {"state": "live", "by": by, "size": size, "pix": "raw"}
        return k

    def sym(self, base):
        self.nsym += 1
        return "%s#%d" % (base, self.nsym)

    def alloc_eq(self, a, b, always_equal):
        if a == b or always_equal:
            return True
        return frozenset((a, b)) in self.eq


def empty_obj(alloc):
    return {"mem": "null", "bytes": "zero", "view": "empty", "alloc": alloc, "exists": True}


def owning_obj(st, alloc, name):
    k = st.new_alloc(alloc, "S_" + name)
    st.heap[k]["pix"] = "constructed"
    st.__dict__.setdefault("nonzero", set()).add("S_" + name)
    return {"mem": ("ptr", k), "bytes": ("sz", "S_" + name), "view": ("into", k), "alloc": alloc, "exists": True}


class Interp:
    def __init__(self, fns, always_equal, report):
        self.fns = {f["id"]: f for f in fns}
        self.always_equal = always_equal
        self.report = report          # callable(rule, fn_key, construct, detail)
        self.cur_root = None
        self.unknown_calls = set()
        self.depth = 0
        self.paths = 0

    # ------------------------------------------------------------------ violations
    def viol(self, rule, construct, st, detail=""):
        self.report(rule, self.cur_root, construct, detail + (" | path: " + " > ".join(st.trace[-8:]) if st.trace else ""))

    # ------------------------------------------------------------------ lvalues / values
    def lvalue(self, n, env, st):
        """returns ('field', objname, field) | ('var', id) | None"""
        n = strip(n)
        if n is None:
            return None
        k = n.get("k")
        if k == "Member":
            base = strip(n.get("base"))
            obj = self.objref(base, env, st)
            if obj is not None and n["name"] in ("_memory", "_allocated_bytes", "_view", "_alloc", "_align_in_bytes"):
                return ("field", obj, n["name"])
            return None
        if k == "DeclRef":
            if n["id"] in env.get("refs", {}):
                return env["refs"][n["id"]]
            if n["id"] in env["objs"]:
                return ("obj", env["objs"][n["id"]])
            return ("var", n["id"])
        if k == "Unary" and n.get("op") == "*":
            e = strip(n["e"])
            if e.get("k") == "This":
                return ("obj", env["this"])
        if k == "Call" and n["callee"]["name"] in ("std::move", "std::forward"):
            return self.lvalue(n["args"][0], env, st)
        return None

    def objref(self, n, env, st):
        n = strip(n)
        if n is None:
            return None
        k = n.get("k")
        if k == "This":
            return env["this"]
        if k == "DeclRef" and n["id"] in env["objs"]:
            return env["objs"][n["id"]]
        if k == "Unary" and n.get("op") == "*":
            return self.objref(n["e"], env, st)
        if k == "Call" and n["callee"]["name"] in ("std::move", "std::forward"):
            return self.objref(n["args"][0], env, st)
        return None

    FIELD = {"_memory": "mem", "_allocated_bytes": "bytes", "_view": "view", "_alloc": "alloc", "_align_in_bytes": "align"}

    def read(self, lv, st):
        if lv is None:
            return ("unk",)
        if lv[0] == "field":
            return st.objs[lv[1]].get(self.FIELD[lv[2]], ("unk",))
        if lv[0] == "var":
            return st.vars.get(lv[1], ("unk",))
        return ("unk",)

    def write(self, lv, val, st, construct):
        if lv is None:
            return
        if lv[0] == "field":
            o = st.objs[lv[1]]
            f = self.FIELD[lv[2]]
            if f == "bytes" and val == ("unk",):
                val = ("sz", st.sym("total"))
            if f == "view" and isinstance(val, tuple) and val[0] in ("unk", "view-of"):
                # a view built by allocate_/create_view from the object's own storage
                m = o.get("mem")
                val = ("into", m[1]) if isinstance(m, tuple) and m[0] == "ptr" else ("unk",)
            if f == "mem":
                old = o.get("mem")
                if isinstance(old, tuple) and old[0] == "ptr" and st.heap[old[1]]["state"] == "live" and val != old:
                    # overwriting an owning pointer: leak unless some other object also holds it (transfer in progress)
                    holders = [n for n, ob in st.objs.items() if ob.get("mem") == old and n != lv[1]]
                    pend = [v for v in st.vars.values() if v == old]
                    if not holders and not pend and not st.__dict__.get("in_swap"):
                        self.viol("I1-leak", "store to _memory of '%s' while it owns live allocation %s (%s)" % (lv[1].split("@")[0], old[1], construct), st)
            o[f] = val
        elif lv[0] == "var":
            st.vars[lv[1]] = val

    def value(self, n, env, st):
        n0 = n
        n = strip(n)
        if n is None:
            return ("unk",)
        k = n.get("k")
        if k == "Null":
            return "null"
        if k in ("Int",) or ("const" in n and k not in ("DeclRef", "Member")):
            c = n.get("const", n.get("v"))
            return "zero" if str(c) == "0" else ("const", str(c))
        if k in ("Member", "DeclRef"):
            lv = self.lvalue(n, env, st)
            if lv and lv[0] == "obj":
                return ("obj", lv[1])
            return self.read(lv, st)
        if k == "Construct":
            cls = n.get("cls", "")
            if ("image_view" in cls or n.get("callee", {}).get("name", "").startswith("boost::gil::image_view::")) and not n.get("args"):
                return "empty"
            if n.get("args") and len(n["args"]) == 1:
                return self.value(n["args"][0], env, st)
            if "image_view" in cls or n.get("callee", {}).get("name", "").startswith("boost::gil::image_view::"):
                return ("view-of",)
            return ("unk",)
        if k == "InitList" and not n.get("c"):
            return "empty"
        if k == "Call":
            nm = n["callee"]["name"]
            if nm in ("std::move", "std::forward"):
                return self.value(n["args"][0], env, st)
            if nm in ("boost::exchange", "std::exchange"):
                lv = self.lvalue(n["args"][0], env, st)
                old = self.read(lv, st)
                new = self.value(n["args"][1], env, st)
                # the old value is in flight: keep it visible as a pending value so the store is not a leak
                st.vars["__exchange__"] = old
                self.write(lv, new, st, "boost::exchange")
                return old
            if nm.endswith("::allocate") and n.get("member_call"):
                return None     # handled in exec_call (needs throw edge)
        if k == "Cond":
            return ("unk",)
        return ("unk",)

    # ------------------------------------------------------------------ statements
    def exec(self, n, env, st):
        """returns list of (outcome, state); outcome in normal/return/throw/break/continue"""
        if n is None:
            return [("normal", st)]
        self.paths += 1
        if self.paths > 200000:
            raise Broken("path explosion")
        k = n.get("k")
        if k in ("ImplicitCast", "ExplicitCast"):
            return self.exec(n["e"], env, st)
        if k == "Compound":
            st.locals.append([])
            outs = [("normal", st)]
            for c in n.get("c", []):
                nxt = []
                for oc, s in outs:
                    if oc == "normal":
                        nxt += self.exec(c, env, s)
                    else:
                        nxt.append((oc, s))
                outs = nxt
            res = []
            for oc, s in outs:
                res += self.leave_scope(oc, s, env)
            return res
        if k == "If":
            return self.exec_if(n, env, st)
        if k == "Return":
            outs = self.exec_expr(n.get("e"), env, st) if n.get("e") else [("normal", st)]
            return [("return" if oc == "normal" else oc, s) for oc, s in outs]
        if k == "Try":
            outs = self.exec(n["block"], env, st)
            res = []
            for oc, s in outs:
                if oc != "throw":
                    res.append((oc, s))
                    continue
                h = [x for x in n["handlers"] if x["all"]]
                if not h:
                    res.append((oc, s))
                    continue
                s.trace.append("catch(...)")
                for oc2, s2 in self.exec(h[0]["body"], dict(env, in_catch=True), s):
                    res.append((oc2, s2))
            return res
        if k == "Throw":
            st.trace.append("throw")
            return [("throw", st)]
        if k == "Decl":
            outs = [("normal", st)]
            for d in n.get("decls", []):
                nxt = []
                for oc, s in outs:
                    if oc != "normal":
                        nxt.append((oc, s))
                        continue
                    nxt += self.exec_decl(d, env, s)
                outs = nxt
            return outs
        if k in ("For", "While", "Do", "ForRange"):
            # loops inside image members only touch non-tracked state (allocate_ planar loop)
            if self.mentions_tracked(n):
                raise Broken("loop touching ownership fields at line %s" % n.get("line"))
            return [("normal", st)]
        if k in ("Break", "Continue", "Null"):
            return [("normal", st)]
        return self.exec_expr(n, env, st)

    def leave_scope(self, oc, st, env):
        """destroy local image objects of the innermost scope (reverse order): ~image()"""
        names = st.locals.pop() if st.locals else []
        outs = [(oc, st)]
        for name in reversed(names):
            nxt = []
            for oc1, s in outs:
                if not s.objs[name]["exists"]:
                    nxt.append((oc1, s))
                    continue
                s.trace.append("~image(%s)" % name.split("@")[0])
                for oc2, s2 in self.destroy(name, env, s):
                    s2.objs[name]["exists"] = False
                    nxt.append((oc1, s2))
            outs = nxt
        return outs

    def destroy(self, name, env, st):
        d = [f for f in self.fns.values() if f["name"] == IMG + "~image" and f.get("cls") == env["cls"]]
        if not d:
            raise Broken("destructor of %s not found" % env["cls"])
        e2 = {"this": name, "objs": {}, "cls": env["cls"], "fn": d[0]}
        outs = self.exec(d[0]["body"], e2, st)
        return [(("normal" if oc in ("normal", "return") else oc), s) for oc, s in outs]

    def exec_decl(self, d, env, st):
        ty = d.get("ctype", "") or d.get("type", "")
        init = d.get("init")
        i0 = strip(init) if init else None
        if i0 is not None and i0.get("k") == "Construct" and i0["callee"]["name"] == IMG + "image":
            name = "%s@%d" % (d["name"], len(st.objs))
            st.objs[name] = {"mem": ("uninit",), "bytes": ("uninit",), "view": "empty", "alloc": "A_" + name, "exists": False}
            env["objs"][d["id"]] = name
            outs = self.call_function(i0["callee"]["id"], name, i0["args"], env, st, "image %s(...)" % d["name"])
            res = []
            for oc, s in outs:
                if oc in ("normal", "return"):
                    s.objs[name]["exists"] = True
                    s.locals[-1].append(name)
                    res.append(("normal", s))
                else:
                    res += [(oc, s2) for s2 in self.ctor_failed(name, s)]
            return res
        if init is not None:
            outs = self.exec_expr(init, env, st, want_value=True)
            res = []
            for oc, s in outs:
                if oc == "normal":
                    s.vars[d["id"]] = s.__dict__.pop("last_value", ("unk",))
                res.append((oc, s))
            return res
        return [("normal", st)]

    def ctor_failed(self, name, st):
        """constructor exited by exception: the object never existed; whatever it still owns is leaked"""
        o = st.objs[name]
        m = o.get("mem")
        if isinstance(m, tuple) and m[0] == "ptr" and st.heap[m[1]]["state"] == "live":
            self.viol("I1-leak", "constructor of '%s' exits by exception while owning live allocation %s" % (name.split("@")[0], m[1]), st)
        o["exists"] = False
        return [st]

    def mentions_tracked(self, n):
        if isinstance(n, dict):
            if n.get("k") == "Member" and n.get("name") in ("_memory", "_allocated_bytes", "_alloc"):
                return True
            if n.get("k") == "Call" and (n["callee"]["name"].endswith("allocate") or n["callee"]["name"] in THROWING_PIXEL_FNS or n["callee"]["name"] == DESTRUCT):
                return True
            return any(self.mentions_tracked(v) for v in n.values())
        if isinstance(n, list):
            return any(self.mentions_tracked(v) for v in n)
        return False

    # ------------------------------------------------------------------ conditions
    def exec_if(self, n, env, st):
        cond = strip(n["cond"])
        branches = self.decide(cond, env, st)
        res = []
        for truth, s in branches:
            s.trace.append("if@%s=%s" % (n.get("line"), "T" if truth else "F"))
            res += self.exec(n["then"] if truth else n.get("else"), env, s)
        return res

    def decide(self, c, env, st):
        """returns list of (bool, state) for the feasible outcomes of condition c"""
        c = strip(c)
        k = c.get("k")
        if "const" in c and k != "Member":
            return [(str(c["const"]) != "0", st)]
        if k == "Binary" and c["op"] == "&&":
            out = []
            for t1, s1 in self.decide(c["l"], env, st):
                if not t1:
                    out.append((False, s1))
                else:
                    out += self.decide(c["r"], env, s1)
            return out
        if k == "Binary" and c["op"] == "||":
            out = []
            for t1, s1 in self.decide(c["l"], env, st):
                if t1:
                    out.append((True, s1))
                else:
                    out += self.decide(c["r"], env, s1)
            return out
        if k == "Unary" and c["op"] == "!":
            return [(not t, s) for t, s in self.decide(c["e"], env, st)]
        # pointer truthiness
        lv = self.lvalue(c, env, st)
        if lv and lv[0] == "field" and lv[2] == "_memory":
            v = self.read(lv, st)
            if v == "null":
                return [(False, st)]
            if isinstance(v, tuple) and v[0] == "ptr":
                return [(True, st)]
        if k == "Binary" and c["op"] in (">", "==", "!=", ">=", "<"):
            l, r = strip(c["l"]), strip(c["r"])
            ll = self.lvalue(l, env, st)
            if ll and ll[0] == "field" and ll[2] == "_allocated_bytes":
                v = self.read(ll, st)
                rz = str(r.get("const", "")) == "0"
                if rz and c["op"] in (">", "!=", "=="):
                    if v == "zero":
                        return [(c["op"] == "==", st)]
                    if isinstance(v, tuple) and v[0] == "sz":
                        # a recorded size may be zero for empty dimensions: both outcomes, remembering the choice
                        s1, s2 = st.clone(), st.clone()
                        self.write(ll, "zero", s2, "refine")
                        zero_truth = c["op"] == "=="
                        s1.__dict__.setdefault("nonzero", set()).add(v[1])
                        if v[1] in st.__dict__.get("nonzero", set()):
                            return [(not zero_truth, s1)]
                        return [(not zero_truth, s1), (zero_truth, s2)]
            # allocator equality
            if c["op"] in ("==", "!="):
                pass
        if k == "Call" and c["callee"]["name"].endswith("operator==") or (k == "Call" and c.get("op") in ("==", "!=")):
            a = [self.lvalue(x, env, st) for x in c["args"]]
            if c.get("member_call") and c.get("obj") is not None:
                a = [self.lvalue(c["obj"], env, st)] + a
            if len(a) == 2 and all(x and x[0] == "field" and x[2] == "_alloc" for x in a):
                t1, t2 = self.read(a[0], st), self.read(a[1], st)
                neg = c.get("op") == "!=" or c["callee"]["name"].endswith("operator!=")
                if st.alloc_eq(t1, t2, self.always_equal):
                    return [(not neg, st)]
                if frozenset((t1, t2)) in st.neq:
                    return [(neg, st)]
                s1, s2 = st.clone(), st.clone()
                s1.eq.add(frozenset((t1, t2)))
                s2.neq.add(frozenset((t1, t2)))
                return [(not neg, s1), (neg, s2)]
        if k == "Binary" and c["op"] in ("==", "!="):
            # this != addressof(img): distinct objects in our entry states
            txt = repr(c)
            if "addressof" in txt and "'This'" in txt:
                return [(c["op"] == "!=", st)]
        # unknown condition: both ways
        return [(True, st.clone()), (False, st.clone())]

    # ------------------------------------------------------------------ expressions with effects
    def exec_expr(self, n, env, st, want_value=False):
        n0 = strip(n)
        if n0 is None:
            return [("normal", st)]
        k = n0.get("k")
        if k == "Assign" and n0.get("op") == "=":
            lv = self.lvalue(n0["l"], env, st)
            r = strip(n0["r"])
            if r.get("k") == "Call" and r["callee"]["name"].endswith("::allocate") and r.get("member_call"):
                return self.do_allocate(lv, r, env, st)
            outs = self.exec_expr(n0["r"], env, st, want_value=True)
            res = []
            for oc, s in outs:
                if oc == "normal":
                    v = s.__dict__.pop("last_value", None)
                    if v is None:
                        v = self.value(n0["r"], env, s)
                    self.write(lv, v, s, "assignment at line %s" % n0.get("line"))
                    s.vars.pop("__exchange__", None)
                res.append((oc, s))
            return res
        if k == "Cond":
            res = []
            for t, s in self.decide(n0["cond"], env, st):
                res += self.exec_expr(n0["then"] if t else n0["else"], env, s, want_value)
            return res
        if k == "Call":
            return self.exec_call(n0, env, st, want_value)
        if k == "Construct":
            if n0["callee"]["name"] == IMG + "image":
                raise Broken("temporary image expression at line %s" % n0.get("line"))
            if want_value:
                st.last_value = self.value(n0, env, st)
            return [("normal", st)]
        if want_value:
            st.last_value = self.value(n0, env, st)
        return [("normal", st)]

    def do_allocate(self, lv, call, env, st):
        owner = self.lvalue(call["obj"], env, st)
        by = self.read(owner, st) if owner else ("unk",)
        size = self.value(call["args"][0], env, st)
        s_throw = st.clone()
        s_throw.trace.append("allocate throws")
        st.trace.append("allocate")
        sz = size[1] if isinstance(size, tuple) and size[0] == "sz" else repr(size)
        k = st.new_alloc(by, sz)
        self.write(lv, ("ptr", k), st, "_memory = _alloc.allocate(...)")
        return [("normal", st), ("throw", s_throw)]

    def exec_call(self, n, env, st, want_value=False):
        nm = n["callee"]["name"]
        args = n.get("args", [])
        if nm in ("std::move", "std::forward", "boost::exchange", "std::exchange"):
            st.last_value = self.value(n, env, st)
            return [("normal", st)]
        if nm.endswith("::deallocate") and n.get("member_call") and not nm.startswith(IMG):
            return self.do_deallocate(n, env, st)
        if nm.endswith("::allocate") and n.get("member_call") and not nm.startswith(IMG):
            return self.do_allocate(None, n, env, st)
        if nm in THROWING_PIXEL_FNS:
            tgt = self.view_arg(args[1] if nm.endswith("uninitialized_copy_pixels") else args[0], env, st)
            s_throw = st.clone()
            s_throw.trace.append(nm.split("::")[-1] + " throws")
            st.trace.append(nm.split("::")[-1])
            if isinstance(tgt, tuple) and tgt[0] == "into":
                h = st.heap[tgt[1]]
                if h["state"] != "live":
                    self.viol("I2-dangling", "%s on a view into freed storage %s" % (nm.split("::")[-1], tgt[1]), st)
                elif h["pix"] == "constructed":
                    self.viol("I5-lifetime", "%s over already constructed pixels of %s (elements constructed twice)" % (nm.split("::")[-1], tgt[1]), st)
                h["pix"] = "constructed"
            return [("normal", st), ("throw", s_throw)]
        if nm == DESTRUCT:
            tgt = self.view_arg(args[0], env, st)
            st.trace.append("destruct_pixels")
            if isinstance(tgt, tuple) and tgt[0] == "into":
                h = st.heap[tgt[1]]
                if h["state"] != "live":
                    self.viol("I2-dangling", "destruct_pixels on a view into freed storage %s" % tgt[1], st)
                elif h["pix"] != "constructed":
                    self.viol("I5-lifetime", "destruct_pixels over pixels of %s that are not constructed (destroyed twice / never constructed)" % tgt[1], st)
                h["pix"] = "raw"
            return [("normal", st)]
        if nm == "boost::gil::copy_pixels":
            s_throw = st.clone()
            s_throw.trace.append("copy_pixels throws")
            return [("normal", st), ("throw", s_throw)]
        if nm in ("std::swap", "boost::gil::swap", "boost::swap") and len(args) == 2:
            a, b = self.lvalue(args[0], env, st), self.lvalue(args[1], env, st)
            if a and b and a[0] == "field" and b[0] == "field":
                va, vb = self.read(a, st), self.read(b, st)
                st.in_swap = True
                self.write(a, vb, st, "swap")
                self.write(b, va, st, "swap")
                st.in_swap = False
                return [("normal", st)]
            if a and b and a[0] == "obj" and b[0] == "obj":
                return self.call_named(IMG + "swap", a[1], [args[1]], env, st)
            return [("normal", st)]
        if n.get("op") == "=" and len(args) == 2:
            # class-type assignment (image_view, allocators)
            lv = self.lvalue(args[0], env, st)
            if lv and lv[0] == "field":
                outs = self.exec_expr(args[1], env, st, want_value=True)
                res = []
                for oc, s in outs:
                    if oc == "normal":
                        v = s.__dict__.pop("last_value", None)
                        if v is None:
                            v = self.value(args[1], env, s)
                        self.write(lv, v, s, "operator= at line %s" % n.get("line"))
                        s.vars.pop("__exchange__", None)
                    res.append((oc, s))
                return res
            if lv and lv[0] == "obj":
                pass
        if nm.startswith(IMG) or nm == "boost::gil::swap":
            fid = n["callee"].get("id")
            if nm == "boost::gil::swap" and len(args) == 2:
                a = self.objref(args[0], env, st)
                if a is not None:
                    return self.call_named(IMG + "swap", a, [args[1]], env, st)
            if any(nm.startswith(p) for p in IGNORED_CALLS):
                return [("normal", st)]
            if fid in self.fns:
                obj = self.objref(n.get("obj"), env, st) if n.get("member_call") else None
                if n.get("member_call") and obj is None:
                    obj = env["this"]
                f = self.fns[fid]
                if f.get("static"):
                    obj = env["this"]
                return self.call_function(fid, obj, args, env, st, nm.split("::")[-1])
            raise Broken("image member %s called but its body was not dumped" % nm)
        if nm == "__cxa_rethrow" or nm == "std::rethrow_exception":
            return [("throw", st)]
        if any(nm.startswith(p) for p in IGNORED_CALLS):
            return [("normal", st)]
        if nm.startswith("boost::gil::image_view::") or nm.startswith("boost::gil::memory_based") or nm.startswith("boost::gil::planar_pixel_iterator"):
            if want_value:
                st.last_value = ("unk",)
            return [("normal", st)]
        self.unknown_calls.add(nm)
        return [("normal", st)]

    def view_arg(self, n, env, st):
        lv = self.lvalue(n, env, st)
        if lv and lv[0] == "field" and lv[2] == "_view":
            return self.read(lv, st)
        v = self.value(n, env, st)
        return v

    def do_deallocate(self, n, env, st):
        owner = self.lvalue(n["obj"], env, st)
        by = self.read(owner, st) if owner else ("unk",)
        p = self.value(n["args"][0], env, st)
        size = self.value(n["args"][1], env, st)
        st.trace.append("deallocate")
        if not (isinstance(p, tuple) and p[0] == "ptr"):
            self.viol("I2-double-free", "deallocate called with a pointer that is not an owned allocation (%r)" % (p,), st)
            return [("normal", st)]
        h = st.heap[p[1]]
        if h["state"] != "live":
            self.viol("I2-double-free", "deallocate of allocation %s that was already freed" % p[1], st)
            return [("normal", st)]
        if not (isinstance(size, tuple) and size[0] == "sz" and size[1] == h["size"]):
            self.viol("I3-size", "deallocate(%s) with size %r but it was allocated with size %s" % (p[1], size, h["size"]), st)
        if not st.alloc_eq(by, h["by"], self.always_equal):
            self.viol("I4-allocator", "allocation %s made by allocator %s is freed through allocator %s, not known to be equal" % (p[1], h["by"], by), st)
        if h["pix"] == "constructed":
            self.viol("I5-lifetime", "storage %s deallocated while its pixels are still constructed (elements never destroyed)" % p[1], st)
        h["state"] = "freed"
        return [("normal", st)]

    def call_named(self, name, obj, args, env, st):
        cands = [f for f in self.fns.values() if f["name"] == name and f.get("cls") == env["cls"] and len(f["params"]) == len(args)]
        if not cands:
            raise Broken("%s not dumped" % name)
        return self.call_function(cands[0]["id"], obj, args, env, st, name.split("::")[-1])

    def call_function(self, fid, obj, args, env, st, label):
        f = self.fns[fid]
        self.depth += 1
        if self.depth > 12:
            raise Broken("recursion depth")
        e2 = {"this": obj, "objs": {}, "refs": {}, "cls": env["cls"], "fn": f}
        # bind parameters
        for p, a in zip(f["params"], args):
            o = self.objref(a, env, st)
            if o is not None:
                e2["objs"][p["id"]] = o
                continue
            lv = self.lvalue(a, env, st)
            if lv and lv[0] == "field" and "&" in p["type"]:
                e2["refs"][p["id"]] = lv
                continue
            st.vars[p["id"]] = self.value(a, env, st)
        st.trace.append(label)
        outs = []
        if "inits" in f:
            o = st.objs[obj]
            for i in f["inits"]:
                if "member" in i and i["member"] in self.FIELD:
                    v = self.value(i["init"], e2, st)
                    if i["member"] == "_alloc" and not (isinstance(v, str) and v.startswith("A_")):
                        v = "A_fresh_" + obj if v == ("unk",) else v
                    o[self.FIELD[i["member"]]] = v
            if all(i.get("member") != "_view" for i in f["inits"]):
                o["view"] = "empty"
        body_outs = self.exec(f["body"], e2, st)
        for oc, s in body_outs:
            if oc == "return":
                oc = "normal"
            if oc == "throw" and f.get("nothrow"):
                s.trace.append("terminate(noexcept)")
                continue
            outs.append((oc, s))
        self.depth -= 1
        return outs

    # ------------------------------------------------------------------ exit checks
    def check_exit(self, st, outcome, survivors, moved_from=()):
        owners = {}
        for name in survivors:
            o = st.objs[name]
            nm = name.split("@")[0]
            m = o.get("mem")
            if isinstance(m, tuple) and m[0] == "ptr":
                h = st.heap[m[1]]
                b = o.get("bytes")
                if h["state"] == "freed":
                    if b != "zero":
                        self.viol("I2-double-free", "'%s' leaves (%s exit) holding freed storage %s with non-zero _allocated_bytes: its destructor frees it again" % (nm, outcome, m[1]), st)
                else:
                    owners.setdefault(m[1], []).append(nm)
                    if b == "zero":
                        self.viol("I1-leak", "'%s' leaves (%s exit) owning %s but records 0 bytes: never deallocated" % (nm, outcome, m[1]), st)
                    elif not (isinstance(b, tuple) and b[0] == "sz" and b[1] == h["size"]):
                        self.viol("I3-size", "'%s' leaves (%s exit) owning %s (size %s) but records %r" % (nm, outcome, m[1], h["size"], b), st)
                    if not st.alloc_eq(o.get("alloc"), h["by"], self.always_equal):
                        self.viol("I4-allocator", "'%s' leaves (%s exit) owning %s allocated by %s but holds allocator %s, not known equal" % (nm, outcome, m[1], h["by"], o.get("alloc")), st)
            elif isinstance(m, tuple) and m[0] == "uninit":
                self.viol("I2-dangling", "'%s' leaves (%s exit) with uninitialised _memory" % (nm, outcome), st)
            v = o.get("view")
            if isinstance(v, tuple) and v[0] == "into":
                h = st.heap[v[1]]
                if h["state"] == "freed":
                    self.viol("I2-dangling", "'%s' leaves (%s exit) with a view into freed storage %s" % (nm, outcome, v[1]), st)
                elif m != ("ptr", v[1]):
                    self.viol("I2-dangling", "'%s' leaves (%s exit) with a view into %s which it does not own" % (nm, outcome, v[1]), st)
                elif h["pix"] != "constructed":
                    self.viol("I5-lifetime", "'%s' leaves (%s exit) with a non-empty view over unconstructed pixels of %s" % (nm, outcome, v[1]), st)
            elif v == "empty":
                if isinstance(m, tuple) and m[0] == "ptr" and st.heap[m[1]]["state"] == "live" and st.heap[m[1]]["pix"] == "constructed":
                    self.viol("I5-lifetime", "'%s' leaves (%s exit) with an empty view while %s still holds constructed pixels (never destroyed)" % (nm, outcome, m[1]), st)
        for k, h in st.heap.items():
            if h["state"] == "live":
                if k not in owners:
                    self.viol("I1-leak", "allocation %s is live at %s exit but no surviving object owns it" % (k, outcome), st)
                elif len(owners[k]) > 1:
                    self.viol("I2-double-free", "allocation %s is owned by several objects at %s exit: %s" % (k, outcome, owners[k]), st)
        for name in moved_from:
            o = st.objs[name]
            if outcome == "normal" and (o.get("mem") != "null" or o.get("bytes") != "zero" or o.get("view") != "empty"):
                if isinstance(o.get("mem"), tuple) and o["mem"][0] == "ptr" and st.heap[o["mem"][1]]["state"] == "live" and o["mem"][1] in owners and len(owners[o["mem"][1]]) == 1:
                    continue    # still a valid owner (e.g. unequal allocators: copy instead of steal) -- valid but unspecified
                self.viol("I6-moved-from", "moved-from '%s' is not empty after the move: mem=%r bytes=%r view=%r" % (name.split("@")[0], o.get("mem"), o.get("bytes"), o.get("view")), st)

    # ------------------------------------------------------------------ driver for one public member
    def run_member(self, f, cls):
        """interpret public member f of class cls from all generic entry states; returns number of paths"""
        is_ctor = f["name"] == IMG + "image"
        is_dtor = f["name"] == IMG + "~image"
        img_params = [p for p in f["params"] if "image<" in p["type"] and "image_view" not in p["type"].split("image<")[0][-5:]]
        img_params = [p for p in f["params"] if re.search(r"(^|[\s:])image<.*>\s*(const)?\s*&{1,2}$", p["type"])]
        n_paths = 0
        variants = [[]]
        for p in img_params:
            variants = [v + [(p, kind)] for v in variants for kind in ("empty", "owning")]
        this_kinds = ["ctor"] if is_ctor else ["empty", "owning"]
        for tk in this_kinds:
            for var in variants:
                st = State()
                env = {"this": "this", "objs": {}, "refs": {}, "cls": cls, "fn": f}
                if tk == "ctor":
                    st.objs["this"] = {"mem": ("uninit",), "bytes": ("uninit",), "view": "empty", "alloc": "A_this", "exists": False}
                elif tk == "empty":
                    st.objs["this"] = empty_obj("A_this")
                else:
                    st.objs["this"] = owning_obj(st, "A_this", "this")
                moved = []
                same_cls_params = []
                for p, kind in var:
                    nm = p["name"] or "arg"
                    st.objs[nm] = empty_obj("A_" + nm) if kind == "empty" else owning_obj(st, "A_" + nm, nm)
                    env["objs"][p["id"]] = nm
                    if "&&" in p["type"]:
                        moved.append(nm)
                if f["name"] == IMG + "swap" and not self.exchanges_allocators(f):
                    # the instantiated swap leaves the allocators in place (C++17, propagate_on_container_swap false): its precondition
                    # -- BOOST_ASSERT(_alloc == img._alloc) in the source, [container.requirements.general] for the standard containers --
                    # is that they compare equal. Internal callers get no such help: a swap of unequal allocators shows up as I4 at their exit.
                    for p, kind in var:
                        st.eq.add(frozenset({"A_this", "A_" + (p["name"] or "arg")}))
                st.trace = ["entry this=%s %s" % (tk, ",".join("%s=%s" % ((p["name"] or "arg"), k) for p, k in var))]
                self.cur_root = fkey(f)
                self.depth = 0
                outs = self.exec_root(f, env, st)
                for oc, s in outs:
                    n_paths += 1
                    survivors = [n for n, o in s.objs.items() if o.get("exists") or n in ("this",) + tuple(nm for nm in s.objs if "@" not in nm)]
                    survivors = [n for n in s.objs if "@" not in n]
                    if is_ctor and oc == "throw":
                        self.ctor_failed("this", s)
                        survivors = [n for n in survivors if n != "this"]
                    if is_dtor:
                        survivors = [n for n in survivors if n != "this"]
                        # after the destructor nothing of this may stay live
                    self.check_exit(s, "exceptional" if oc == "throw" else "normal", survivors, moved if not is_dtor else ())
        return n_paths

    @staticmethod
    def exchanges_allocators(f):
        from . import rules as R

        def live(n):
            """the statements of n that are part of the instantiation (the discarded arm of an `if constexpr` is not)"""
            if isinstance(n, dict):
                if n.get("k") == "If" and n.get("constexpr") and "const" in (n.get("cond") or {}):
                    taken = n.get("then") if str(n["cond"]["const"]) not in ("0", "false") else n.get("else")
                    yield from live(taken)
                    return
                yield n
                for v in n.values():
                    yield from live(v)
            elif isinstance(n, list):
                for v in n:
                    yield from live(v)
        return any(x.get("k") == "Call" and len(re.findall(r"\b_alloc\b", R.key(x))) >= 2 and "swap" in ((x.get("callee") or {}).get("name") or "") for x in live(f["body"]))

    def exec_root(self, f, env, st):
        self.depth = 0
        e2 = dict(env)
        e2["fn"] = f
        if "inits" in f:
            o = st.objs["this"]
            for i in f["inits"]:
                if "member" in i and i["member"] in self.FIELD:
                    v = self.value(i["init"], e2, st)
                    if i["member"] == "_alloc" and not (isinstance(v, str) and v.startswith("A_")):
                        v = "A_param"
                    o[self.FIELD[i["member"]]] = v
            if all(i.get("member") != "_view" for i in f["inits"]):
                o["view"] = "empty"
        outs = self.exec(f["body"], e2, st)
        res = []
        for oc, s in outs:
            if oc == "return":
                oc = "normal"
            if oc == "throw" and f.get("nothrow"):
                continue
            res.append((oc, s))
        return res


def fkey(f):
    return "%s(%s)" % (f["name"].replace("boost::gil::", ""), ", ".join(short_type(p["type"]) for p in f["params"]))


def short_type(t):
    t = re.sub(r"boost::gil::", "", t)
    t = re.sub(r"image<.*>", "image<...>", t)
    t = re.sub(r"image_view<.*>", "image_view<...>", t)
    t = re.sub(r"pixel<.*>", "Pixel", t)
    t = re.sub(r"point<long>", "point_t", t)
    t = re.sub(r"std::allocator<.*>|vf::salloc<.*>", "Alloc", t)
    return t
