"""C04 pixel algorithms: (G0) every dispatch path type-checks for every pair of view kinds (compile witnesses),
(G1) 1-D fast paths are guarded by is_1d_traversable() of the same range or bounded by the rest of the row,
(G3) byte-wise fast paths use n*sizeof(pointee), (G4) compatible/incompatible dispatch, (G5) row-loop algorithms."""
import os, re, itertools
from . import common as C
from .ast import rules as R

LEVEL = "other"
EXPLANATION = ("Static analysis. G0: a generated matrix instantiates copy_pixels, copy_and_convert_pixels, equal_pixels, "
               "fill_pixels, for_each_pixel(_position), generate_pixels, transform_pixels(_positions), uninitialized_*/destruct/"
               "default_construct_pixels and image == for every ordered pair of compatible view kinds (interleaved, planar, x/xy-"
               "step, transposed, packed, bit-aligned, their step variants, const sources); a cell that does not compile is "
               "reported with the library location (uninstantiated template code is unchecked even by the compiler). G1 (AST): "
               "every use of iterator_from_2d::x() as a raw row iterator is dominated by is_1d_traversable() of the same range, or "
               "its element count is min(n, width()-x_pos()) of that same iterator (and for two 2-D iterators the mismatch case is "
               "drained first). G3: memcmp/memmove lengths are n*sizeof(pointee) and the planar variant loops over exactly the "
               "planes. G4: apply_compatible -> copy_pixels(src,dst), apply_incompatible -> copy_pixels(color_converted_view<dst "
               "value>(src,cc),dst), image== tests dimensions before equal_pixels. G5: transform_pixels(_positions) index source "
               "and destination rows with the same (x,y) over the full extent. Not decided: that chunked paths copy the right "
               "counts (row-carry arithmetic), preservation of padding bytes, functor call order.")
W = "include/boost/gil/algorithm.hpp"

# ---------------------------------------------------------------------------------------------- G0
CLASSES = {
    "rgb8": ["rgb8_view_t", "bgr8_view_t", "rgb8_planar_view_t", "k_xystep", "k_pstep", "rgb8c_view_t", "rgb8c_planar_view_t"],
    "gray16": ["gray16_view_t", "gray16_step_view_t", "gray16c_view_t"],
    "packed565": ["k_packed", "k_packed_rgb", "k_packstep"],
    "bits565": ["bits565_img::view_t", "dynamic_xy_step_type<bits565_img::view_t>::type", "k_packed_rgb"],
    "bits7": ["k_bits7", "k_bitstep", "bits7_img::const_view_t"],
}
CONST = ("rgb8c_view_t", "rgb8c_planar_view_t", "gray16c_view_t", "bits7_img::const_view_t")
CONVERT = [("rgb8_view_t", "gray16_view_t"), ("rgb8_planar_view_t", "gray16_view_t"), ("gray16_view_t", "rgb8_planar_view_t"), ("k_xystep", "gray16_step_view_t"),
           ("k_packed", "rgb8_view_t"), ("rgb8_view_t", "k_packed"), ("k_bits7", "rgb8_planar_view_t"), ("rgb8_view_t", "k_bits7")]


BODY = {
    "copy": "copy_pixels(a, b);",
    "equal": "(void)equal_pixels(a, b);",
    "cconv": "copy_and_convert_pixels(a, b);",
    "trans": "transform_pixels(a, b, tr1<B>()); transform_pixels(a, a, b, tr2<B>()); transform_pixel_positions(a, b, tr1<B>());",
    "fill": "fill_pixels(a, typename A::value_type());",
    "gen": "generate_pixels(a, gen<A>());",
    "each": "for_each_pixel(a, fn1()); for_each_pixel_position(a, fn1());",
}


def gen_matrix(path, tier):
    """one plain function per line = one cell; the instantiation backtrace of an error ends at that line"""
    L = ['#include "vf_common.hpp"', "using namespace vf;",
         "struct fn1 { template <class P> void operator()(P&&) const {} };",
         "template <class V> struct gen { typename V::value_type operator()() const { return typename V::value_type(); } };",
         "template <class V> struct tr1 { template <class P> typename V::value_type operator()(P const&) const { return typename V::value_type(); } };",
         "template <class V> struct tr2 { template <class P, class Q> typename V::value_type operator()(P const&, Q const&) const { return typename V::value_type(); } };"]
    cells = {}
    seen = set()

    def cell(op, a, b=None):
        if (op, a, b) in seen:
            return
        seen.add((op, a, b))
        n = len(L) + 1
        if b is None:
            L.append("void cell_%d(%s const& a){ using A = %s; %s }" % (n, a, a, BODY[op]))
        else:
            L.append("void cell_%d(%s const& a, %s const& b){ using A = %s; using B = %s; %s }" % (n, a, b, a, b, BODY[op]))
        cells[n] = (op, a, b)
    for cls, kinds in CLASSES.items():
        muts = [k for k in kinds if k not in CONST]
        for a, b in itertools.product(kinds, muts):
            for op in ("copy", "equal", "cconv", "trans"):
                if tier == "quick" and op == "trans" and not (a == b or kinds.index(a) + kinds.index(b) < 4):
                    continue
                cell(op, a, b)
        for a in muts:
            for op in ("fill", "gen"):
                cell(op, a)
        for a in kinds:
            cell("each", a)
    for a, b in CONVERT:
        cell("cconv", a, b)
    for a, b in (("rgb8_image_t", "rgb8_planar_image_t"), ("rgb8_planar_image_t", "rgb8_planar_image_t"), ("rgb8_image_t", "bgr8_image_t"), ("bits7_img", "bits7_img")):
        n = len(L) + 1
        L.append("bool cell_%d(%s const& x, %s const& y){ return x == y && !(x != y); }" % (n, a, b))
        cells[n] = ("image==", a, b)
    open(path, "w").write("\n".join(L) + "\n")
    return cells


def matrix(rep):
    wd = C.workdir("C04m")
    rep.rule("G0 every algorithm x (source kind, destination kind) cell of the matrix compiles (clang; g++ in the thorough tier)")
    src = os.path.join(wd, "c04_matrix.cpp")
    cells = gen_matrix(src, rep.tier)
    compilers = [C.CLANGXX] + ([C.GXX] if rep.tier == "thorough" else [])
    for comp in compilers:
        rc, err, cmd = C.syntax_only(src, compiler=comp, extra=["-ftemplate-backtrace-limit=0"])
        failed = {}
        # group diagnostics: an error belongs to the cell whose explicit-instantiation line appears in its note chain
        blocks = re.split(r"(?m)^(?=\S+:\d+:\d+: (?:fatal )?error:)", err)
        for b in blocks:
            m = re.match(r"(\S+):(\d+):\d+: (?:fatal )?error: (.*)", b)
            if not m:
                continue
            lines = [int(x) for x in re.findall(re.escape(src) + r":(\d+):\d+", b)]
            cell = next((l for l in lines if l in cells), None)
            loc = "%s:%s" % (C.repo_rel(m.group(1)), m.group(2))
            if cell is None:
                rep.fail_analysis("matrix: error outside any cell: %s %s" % (loc, m.group(3)[:150]))
                continue
            failed.setdefault(cell, (loc, m.group(3)[:200]))
        for ln, (op, a, b) in sorted(cells.items()):
            rep.count("cells")
            key = "G0:%s(%s%s)" % (op, short(a), "," + short(b) if b else "")
            if ln in failed:
                rep.violation("G0-compiles", key, failed[ln][0], {"compiler": comp, "error": failed[ln][1], "cell": [op, a, b]})
            else:
                rep.ok("G0-compiles", key + ":" + comp, "instantiates")
    rep.floor("cells", 150)


def short(t):
    return t.replace("_view_t", "").replace("dynamic_xy_step_type<", "xystep<").replace("::type", "").replace("::view_t", "")


# ---------------------------------------------------------------------------------------------- AST rules
DRIVER = '''#include "vf_common.hpp"
using namespace vf;
struct fn1 { template <class P> void operator()(P&&) const {} };
template <class V> struct gen { typename V::value_type operator()() const { return typename V::value_type(); } };
template <class V> struct tr1 { template <class P> typename V::value_type operator()(P const&) const { return typename V::value_type(); } };
template <class V> struct tr2 { template <class P, class Q> typename V::value_type operator()(P const&, Q const&) const { return typename V::value_type(); } };
template <class A, class B> void all2(A const& a, B const& b){
  copy_pixels(a, b); (void)equal_pixels(a, b); copy_and_convert_pixels(a, b); transform_pixels(a, b, tr1<B>()); transform_pixels(a, a, b, tr2<B>());
  transform_pixel_positions(a, b, tr1<B>()); transform_pixel_positions(a, a, b, tr2<B>());
  fill_pixels(b, typename B::value_type()); for_each_pixel(a, fn1()); for_each_pixel_position(a, fn1());
  generate_pixels(b, gen<B>());
  std::fill(b.begin(), b.end(), typename B::value_type()); (void)std::equal(a.begin(), a.end(), b.begin()); std::copy(a.begin(), a.end(), b.begin());
}
void inst(rgb8_view_t const& a, rgb8_planar_view_t const& p, k_xystep const& s, k_pstep const& ps, gray16_view_t const& g, rgb8_image_t const& i1, rgb8_planar_image_t const& i2){
  all2(a, a); all2(a, p); all2(p, a); all2(p, p); all2(s, a); all2(a, s); all2(s, s); all2(ps, p); all2(g, g);
  copy_and_convert_pixels(a, g); copy_and_convert_pixels(p, g);
  (void)(i1 == i2); (void)(i1 != i1);
  fill_pixels(p, bgr8_pixel_t()); fill_pixels(ps, bgr8_pixel_t()); fill_pixels(a, bgr8_pixel_t()); fill_pixels(p, rgb8_pixel_t());
}
void inst_f(rgb32f_view_t const& f, rgb32f_planar_view_t const& fp, rgb32f_image_t const& fi){ (void)equal_pixels(f, f); (void)equal_pixels(fp, fp); (void)equal_pixels(f, fp); (void)(fi == fi); }
// channels that are built-in floating point types (float32_t is a class; `float` and `double` are arithmetic types as well as the integral ones)
typedef view_type<float, rgb_layout_t>::type rgbf_view_t; typedef view_type<float, rgb_layout_t, true>::type rgbf_planar_view_t; typedef view_type<double, gray_layout_t>::type grayd_view_t;
void inst_rf(rgbf_view_t const& f, rgbf_planar_view_t const& fp, grayd_view_t const& d, image<pixel<float, rgb_layout_t>> const& fi){
  (void)equal_pixels(f, f); (void)equal_pixels(fp, fp); (void)equal_pixels(f, fp); (void)equal_pixels(d, d); (void)(fi == fi); }
'''


def is_2d_iter(n):
    t = (R.strip(n) or {}).get("type", "")
    return "iterator_from_2d" in t


def ast_rules(rep):
    wd = C.workdir("C04a")
    src = os.path.join(wd, "c04_ast.cpp")
    open(src, "w").write(DRIVER)
    d = C.astdump(src, os.path.join(wd, "c04.json"),
                  ["^std::(copy|copy1|fill|equal)$", "^boost::gil::detail::(copy_with_2d_iterators|copier_n::operator\\(\\)|equal_n_fn::(operator\\(\\)|equal)|fill_aux|destruct_aux|default_construct_aux|uninitialized_fill_aux|uninitialized_copy_aux|copy_and_convert_pixels_fn::apply_(in)?compatible)$",
                   "^boost::gil::(copy_pixels|fill_pixels|equal_pixels|for_each_pixel|for_each_pixel_position|generate_pixels|transform_pixels|transform_pixel_positions|destruct_pixels|default_construct_pixels|uninitialized_fill_pixels|uninitialized_copy_pixels|operator==|operator!=)$",
                   "^boost::gil::detail::default_construct_pixels_impl$"],
                  extra=[])
    fns = [f for f in d["functions"] if f["file"].endswith("algorithm.hpp") or f["file"].endswith("image.hpp")]
    rep.units.append("c04_ast.cpp: %d instantiated algorithm functions" % len(fns))
    # ---- G1
    rep.rule("G1 iterator_from_2d::x() used as a raw row iterator only under is_1d_traversable() of the same range, or with a count bounded by width()-x_pos() of the same iterator")
    for f in fns:
        uses = [(x, p) for x, p in R.find(f["body"], lambda x: x.get("k") == "Call" and x["callee"]["name"] == "boost::gil::iterator_from_2d::x")]
        if not uses:
            continue
        fkey = f["name"].replace("boost::gil::", "") + "<" + sig(f) + ">"
        decls = {}
        for dn, _ in R.find(f["body"], lambda x: x.get("k") == "Decl"):
            for dd in dn["decls"]:
                if dd.get("name") and dd.get("init") is not None:
                    decls[dd["name"]] = R.key(dd["init"])
        params2d = [p["name"] for p in f["params"] if "iterator_from_2d" in p["type"]]
        drain = has_drain(f, params2d)
        for x, p in uses:
            obj = R.key(x.get("obj"))
            rep.count("obligations:G1")
            gs = R.guards(p)
            base = re.sub(r"\.(begin|end)\(\)$", "", obj)
            guarded = any(op == "!=" and r == "0" and l.endswith(".is_1d_traversable()") and (l[:-len(".is_1d_traversable()")] in (obj, base) or (l[:-len(".is_1d_traversable()")] in params2d and obj in params2d and same_range(f, l[:-len(".is_1d_traversable()")], obj))) for op, l, r in gs)
            how = "is_1d_traversable"
            if not guarded:
                # chunk-bounded: enclosing call has a count argument whose definition is min(n, I.width()-I.x_pos())
                call = next((a for a, fld, i in reversed(p) if a.get("k") == "Call" and fld == "args"), None)
                cnt_ok = False
                if call is not None:
                    for a in call.get("args", []):
                        k = R.key(a)
                        dk = decls.get(k, k)
                        for _ in range(3):      # resolve locals through their initialisers (numToCopy -> l -> width()-x_pos())
                            dk = re.sub(r"\b[A-Za-z_]\w*\b", lambda m: "(" + decls[m.group(0)] + ")" if m.group(0) in decls and m.group(0) not in params2d else m.group(0), dk)
                        dk = dk.replace("((", "(").replace("))", ")")
                        bound = "%s.width() - %s.x_pos()" % (obj, obj)
                        if bound in dk:
                            cnt_ok = True
                            how = "count bounded by %s" % bound
                        else:
                            for other in params2d:
                                ob = "%s.width() - %s.x_pos()" % (other, other)
                                if other != obj and ob in dk and drain:
                                    cnt_ok = True
                                    how = "count bounded by %s and the x_pos/width mismatch case is drained first" % ob
                guarded = cnt_ok
            key = "G1:%s:%s.x()" % (f["name"].replace("boost::gil::", ""), obj)
            if guarded:
                rep.ok("G1-x-guard", key + ":" + sig(f)[:60], how)
            else:
                rep.violation("G1-x-guard", key, R.fn_where(f, x), {"function": fkey[:200], "use": obj + ".x()", "guards": gs[-5:],
                                                                    "problem": "row iterator taken from a 2-D iterator without the traversability test of the same range and without a row-bounded count"})
    rep.floor("obligations:G1", 30)
    # ---- G6 chunk-loop bookkeeping
    rep.rule("G6 every chunk loop `while (n > 0)` that hands `I.x()` with a count c to a raw algorithm advances every iterator operand of that call by exactly c "
             "and decreases the remaining count by c, once per iteration and after the call (with L9 of C03: the next chunk starts where this one ended)")
    seen6 = {}
    for f in fns:
        for lp, _ in R.find(f["body"], lambda x: x.get("k") == "While"):
            cond = R.strip(lp.get("cond"))
            if cond is None or cond.get("k") != "Binary" or cond.get("op") != ">" or R.key(cond["r"]) != "0":
                continue
            nvar = R.key(cond["l"])
            body = R.strip(lp.get("body"))
            items = [R.strip(x) for x in body.get("c", [])] if body.get("k") == "Compound" else [body]
            calls = [(i, x) for i, x in enumerate(items) if x.get("k") == "Call" and R.find(x, lambda y: y.get("k") == "Call" and y["callee"]["name"] == "boost::gil::iterator_from_2d::x")]
            if not calls:
                # the raw call may sit inside an `if (!call(...)) return false;`
                for i, x in enumerate(items):
                    if x.get("k") == "If" and R.find(x.get("cond"), lambda y: y.get("k") == "Call" and y["callee"]["name"] == "boost::gil::iterator_from_2d::x"):
                        inner = [y for y, _ in R.find(x["cond"], lambda y: y.get("k") == "Call" and y.get("args") and R.find(y["args"], lambda z: z.get("k") == "Call" and z["callee"]["name"] == "boost::gil::iterator_from_2d::x"))]
                        if inner:
                            calls.append((i, inner[0]))
            if not calls:
                continue
            ci, call = calls[0]
            args = [R.key(a) for a in call.get("args", [])]
            decls = {}
            for x in items:
                if x.get("k") == "Decl":
                    for dd in x["decls"]:
                        decls[dd["name"]] = True
            cnt = [a for a in args if a in decls or a == nvar]
            iters = []
            for an, a in zip(call.get("args", []), args):
                t = (R.strip(an).get("type") or "")
                if a in cnt:
                    continue
                if a.endswith(".x()") or "*" in t or "iterator" in t:
                    iters.append(re.sub(r"\.x\(\)$", "", a))
            iters = [a for a in iters if re.fullmatch(r"[A-Za-z_]\w*", a)]
            upd = {}
            for j, x in enumerate(items):
                if x.get("k") in ("CompoundAssign",) or (x.get("k") == "Call" and x.get("op") in ("+=", "-=")):
                    l = R.key(x.get("l") or x["args"][0])
                    r = R.key(x.get("r") or x["args"][1])
                    upd.setdefault(l, []).append((x.get("op"), r, j))
            fkey = "G6:%s<%s>" % (f["name"].replace("boost::gil::", ""), sig(f)[:70])
            prob = []
            if len(cnt) != 1:
                prob.append("count argument of the raw call not identified: %s" % args)
            else:
                c = cnt[0]
                for it in iters:
                    u = upd.get(it, [])
                    if len(u) != 1 or u[0][0] != "+=" or u[0][1] != c or u[0][2] < ci:
                        prob.append("%s is advanced by %s (expected once: %s += %s after the call)" % (it, [(o, r) for o, r, _ in u], it, c))
                u = upd.get(nvar, [])
                if len(u) != 1 or u[0][0] != "-=" or u[0][1] != c or u[0][2] < ci:
                    prob.append("%s is updated by %s (expected once: %s -= %s after the call)" % (nvar, [(o, r) for o, r, _ in u], nvar, c))
            if fkey not in seen6 or (not seen6[fkey][0] and prob):
                seen6[fkey] = (prob, R.fn_where(f, lp), args)
    for fkey, (prob, where, args) in sorted(seen6.items()):
        rep.count("obligations:G6")
        if prob:
            rep.violation("G6-chunk-loop", fkey, where, {"raw_call_arguments": args, "problems": prob})
        else:
            rep.ok("G6-chunk-loop", fkey, args)
    rep.floor("obligations:G6", 5)
    # ---- G3 byte-wise fast paths
    rep.rule("G3 memcmp/memmove/memcpy byte count == n * sizeof(pointee of the compared pointers); planar variant loops over mp_size<ColorSpace> planes")
    for f in fns:
        for c, p in R.calls_in(f["body"], lambda n: n in ("memcmp", "memmove", "memcpy", "std::memcmp", "std::memmove", "std::memcpy")):
            rep.count("obligations:G3")
            cnt = R.strip(c["args"][2])
            ck = R.key(cnt)
            decls = {dd["name"]: dd for dn, _ in R.find(f["body"], lambda x: x.get("k") == "Decl") for dd in dn["decls"] if dd.get("name")}
            expr = R.strip(decls[ck]["init"]) if ck in decls and decls[ck].get("init") is not None else cnt
            ek = R.key(expr)
            m = re.fullmatch(r"\((\w+) \* sizeof\((.*)\)\)", ek)
            ptr_t = R.strip(c["args"][0]).get("type", "")
            key = "G3:%s:%s" % (f["name"].replace("boost::gil::", ""), c["callee"]["name"])
            ok = False
            det = {"count": ek, "pointer_type": ptr_t}
            if m:
                nparam = m.group(1)
                elem = m.group(2)
                # element type of the iterated pointers: pixel<T,CS> for the interleaved case, channel value type for planes
                ok = nparam in [pp["name"] for pp in f["params"]] and ("pixel<" in elem or "value_type" in elem or "unsigned" in elem or "char" in elem or "short" in elem)
                # the sizeof operand must be the pointee of the iterator parameters
                it_t = f["params"][0]["type"]
                if "planar_pixel_iterator" in it_t:
                    loops = [a for a, fld, i in p if a.get("k") == "For"]
                    nplanes = len(re.findall(r"\b\w+_t\b", it_t.split("mp_list<")[1].split(">")[0])) if "mp_list<" in it_t else None
                    cnd = R.strip(loops[0]["cond"]) if loops else None
                    planes_ok = bool(loops) and cnd.get("op") == "<" and str(R.strip(cnd["r"]).get("const")) == str(nplanes) and loop_from_zero(loops[0])
                    det["plane_loop"] = R.key(loops[0]["cond"]) if loops else None
                    ok = ok and planes_ok and "dynamic_at_c(%s," % f["params"][0]["name"] in R.key(c["args"][0]) and "dynamic_at_c(%s," % f["params"][2]["name"] in R.key(c["args"][1])
                else:
                    ok = ok and R.key(c["args"][0]) == f["params"][0]["name"] and R.key(c["args"][1]) == f["params"][2]["name"]
            if ok:
                rep.ok("G3-bytes", key + ":" + sig(f)[:40], det)
            else:
                rep.violation("G3-bytes", key, R.fn_where(f, c), det)
    rep.floor("obligations:G3", 2)
    # ---- G4 dispatch
    rep.rule("G4 apply_compatible -> copy_pixels(src,dst); apply_incompatible -> copy_pixels(color_converted_view<V2::value_type>(src,_cc),dst); image== compares dimensions before equal_pixels")
    for f in fns:
        short_n = f["name"].split("::")[-1]
        if short_n in ("apply_compatible", "apply_incompatible") and "copy_and_convert_pixels_fn" in f["name"]:
            rn = R.param_renamer(f)
            cs = [rn(R.key(c)) for c, p in R.calls_in(f["body"], lambda n: n == "boost::gil::copy_pixels")]
            rep.count("obligations:G4")
            want = ["copy_pixels($0,$1)"] if short_n == "apply_compatible" else ["copy_pixels(color_converted_view($0,_cc),$1)"]
            ok = cs == want
            if ok and short_n == "apply_incompatible":
                ccv = [c for c, p in R.calls_in(f["body"], lambda n: n == "boost::gil::color_converted_view")]
                ok = len(ccv) == 1 and value_type_of(f["params"][1]["type"]) and value_type_matches(ccv[0], f)
            if ok:
                rep.ok("G4-dispatch", "copy_and_convert_pixels_fn::" + short_n + ":" + sig(f)[:40], cs)
            else:
                rep.violation("G4-dispatch", "G4:copy_and_convert_pixels_fn::" + short_n, R.fn_where(f), {"calls": cs, "documented": want})
        if f["name"] == "boost::gil::operator==" and f["file"].endswith("image.hpp"):
            rep.count("obligations:G4")
            eq = R.calls_in(f["body"], lambda n: n == "boost::gil::equal_pixels")
            ok = False
            if len(eq) == 1:
                gs = R.guards(eq[0][1])
                ok = any(op == "==" and "dimensions()" in l and "dimensions()" in r for op, l, r in gs) or any("dimensions" in (l + r) and op in ("==",) for op, l, r in gs)
                rn = R.param_renamer(f)
                args = [rn(R.key(a)) for a in eq[0][0]["args"]]
                ok = ok and args == ["const_view($0)", "const_view($1)"]
            if ok:
                rep.ok("G4-dispatch", "image operator== tests dimensions then equal_pixels(const_view,const_view)", args)
            else:
                rep.violation("G4-dispatch", "G4:image::operator==", "include/boost/gil/image.hpp", {"equal_pixels_calls": len(eq)})
            # G4b: a path that answers `true` without comparing pixels (the identity shortcut &a == &b) is a bitwise notion of equality: sound only where
            # every pixel equals itself, i.e. for integral channels (NaN != NaN)
            m = re.search(r"operator==<boost::gil::pixel<\s*((?:[^,<>]|<(?:[^<>]|<[^<>]*>)*>)+),", f.get("full", ""))
            chan = m.group(1).replace("const ", "").strip() if m else None
            integral = chan in ("unsigned char", "signed char", "char", "unsigned short", "short", "unsigned int", "int", "unsigned long", "long")
            trues = []
            for r_, pth in R.find(f["body"], lambda x: x.get("k") == "Return"):
                e = R.strip(r_.get("e"))
                while isinstance(e, dict) and e.get("k") in ("ImplicitCast", "Paren"):
                    e = R.strip(e.get("e"))
                if isinstance(e, dict) and (R.key(e) in ("true", "1") or str(e.get("const", "")) in ("1", "true")):
                    trues.append([("%s %s %s" % (l, op, r)) for op, l, r in R.guards(pth)])
            if chan is not None:
                rep.count("obligations:G4b")
                key = "G4b:image::operator==:%s" % chan
                if trues and not integral:
                    rep.violation("G4b-shortcut", key, R.fn_where(f), {"returns true without comparing pixels under": trues[:2], "channel": chan,
                                                                      "example": "an rgb32f image with one NaN channel: a == a is true, equal_pixels(const_view(a), const_view(a)) and the per-pixel loop are false"})
                else:
                    rep.ok("G4b-shortcut", key, {"shortcuts": len(trues), "integral": integral})
    rep.floor("obligations:G4", 4)
    rep.floor("obligations:G4b", 3)
    # ---- G5 row loops
    rep.rule("G5 transform_pixels / transform_pixel_positions: dstIt[x] = fun(srcIt[x]...) with all iterators row_begin(y) of their own view, 0<=x<width, 0<=y<height of one of the views")
    for f in fns:
        short_n = f["name"].split("::")[-1]
        if short_n not in ("transform_pixels", "transform_pixel_positions"):
            continue
        rn = R.param_renamer(f)
        nsrc = len(f["params"]) - 2
        rep.count("obligations:G5")
        decls = {dd["name"]: rn(R.key(dd.get("init"))) for dn, _ in R.find(f["body"], lambda x: x.get("k") == "Decl") for dd in dn["decls"] if dd.get("name") and dd.get("init") is not None}
        asg = [(x, p) for x, p in R.find(f["body"], lambda x: (x.get("k") == "Assign" or (x.get("k") == "Call" and x.get("op") == "=")) and re.fullmatch(r"\w+\[\w+\]", R.key(x.get("l") or x["args"][0])))]
        ok = len(asg) == 1
        det = {"decls": decls}
        if ok:
            x, p = asg[0]
            lhs = R.key(x.get("l") or x["args"][0])
            rhs = rn(R.key(x.get("r") or x["args"][1]))
            m = re.fullmatch(r"(\w+)\[(\w+)\]", lhs)
            dit, xv = m.group(1), m.group(2)
            gs = [(op, rn(l), rn(r)) for op, l, r in R.guards(p)]
            dsti = nsrc
            yv = None
            mm = re.fullmatch(r"\$%d\.row_begin\((\w+)\)" % dsti, decls.get(dit, ""))
            if mm:
                yv = mm.group(1)
            det.update({"assignment": "%s = %s" % (lhs, rhs), "guards": gs[:6]})
            views = ["$%d" % i for i in range(nsrc + 1)]
            ok = yv is not None and any(R.has_atom(gs, "<", xv, v + ".width()") for v in views) and any(R.has_atom(gs, "<", yv, v + ".height()") for v in views) \
                and R.has_atom(gs, ">=", xv, "0") and R.has_atom(gs, ">=", yv, "0")
            if ok and short_n == "transform_pixels":
                srcits = re.findall(r"(\w+)\[%s\]" % xv, rhs)
                ok = len(srcits) == nsrc and all(decls.get(s) == "$%d.row_begin(%s)" % (i, yv) for i, s in enumerate(srcits)) and rhs.startswith("$%d(" % (nsrc + 1))
            if ok and short_n == "transform_pixel_positions":
                locs = re.findall(r"\b(\w+)\b", rhs[rhs.index("(") + 1:-1])
                ok = len(locs) == nsrc and all(decls.get(l) == "$%d.xy_at(0,0)" % i for i, l in enumerate(locs))
                # locators advance with x and are rewound by the width of their own view, then step in y
                body_txt = rn(R.key_stmt(f["body"]) if hasattr(R, "key_stmt") else "")
        if ok:
            rep.ok("G5-rowloop", "%s/%d sources: %s" % (short_n, nsrc, sig(f)[:40]), det.get("assignment"))
        else:
            rep.violation("G5-rowloop", "G5:%s/%d" % (short_n, nsrc), R.fn_where(f), det)
    rep.floor("obligations:G5", 4)
    # ---- G7 the planar fill fast path pairs the planes with the channels of the value by semantic index
    rep.rule("G7 detail::fill_aux(first, last, p, planar): the value p may have any compatible layout (fill_pixels(planar rgb view, bgr pixel)); the planes are in "
             "colour-space order, so p is read through semantic accessors only (static_for_each / semantic_at_c / get_color), never by physical index")
    SEM = ("static_for_each", "static_transform", "static_generate", "semantic_at_c", "get_color")
    PHYS = ("dynamic_at_c", "at_c", "operator[]")
    for f in fns:
        if f["name"] != "boost::gil::detail::fill_aux" or len(f["params"]) != 4 or "true" not in f["params"][3]["type"]:
            continue
        pv = f["params"][2]
        m = re.search(r"mp_list<((?:std::integral_constant<int, \d+>(?:, )?)+)>>", pv["type"])
        perm = [int(x) for x in re.findall(r"integral_constant<int, (\d+)>", m.group(1))] if m else None
        permuted = perm is not None and perm != list(range(len(perm)))
        uses = []
        for x, pth in R.find(f["body"], lambda x: x.get("k") == "DeclRef" and x.get("name") == pv["name"]):
            calls = [a for a, fld, _ in pth if a.get("k") == "Call"]
            nm = calls[-1]["callee"]["name"].split("::")[-1] if calls else None
            uses.append(nm)
        rep.count("obligations:G7")
        key = "G7:fill_aux<planar>(value layout %s)" % ("".join(str(i) for i in perm) if perm else "?")
        phys = [u for u in uses if u in PHYS]
        other = [u for u in uses if u not in PHYS and u not in SEM]
        if not uses or other:
            rep.incon("G7-semantic-pairing", key, "value accessed through %s" % (other or "nothing"))
        elif phys and permuted:
            rep.violation("G7-semantic-pairing", key, R.fn_where(f), {"physical_accessors_on_value": phys, "value_type": short(pv["type"]), "channel_mapping": perm,
                          "effect": "plane k (colour-space order) receives physical channel k of the value, i.e. semantic channel %s" % perm})
        else:
            rep.ok("G7-semantic-pairing", key, {"accessors": uses, "permuted": permuted})
    rep.floor("obligations:G7", 2)
    # ---- G8 one functor object for the whole view
    rep.rule("G8 generate_pixels: the generator is one object for the whole view -- inside the row loop it is not handed by value to an algorithm "
             "(std::generate copies it: a stateful generator would restart on every row of a view that is not 1-D traversable); accepted: std::ref(fun), or calling fun() in the loop")
    for f in fns:
        if f["name"] != "boost::gil::generate_pixels":
            continue
        g = R.canonize(f)
        bad, okc = [], []
        for c, pth in R.calls_in(g["body"], lambda n: n in ("std::generate", "std::generate_n")):
            in_loop = any(a.get("k") in ("For", "While", "Do") and fld == "body" for a, fld, _ in pth)
            last = R.key(c["args"][-1])
            by_value = not (c["callee"].get("ptypes") or [""])[-1].rstrip().endswith("&")
            if in_loop and last == "$1" and by_value:
                bad.append({"call": R.key(c)[:120], "line": c.get("line")})
            else:
                okc.append(R.key(c)[:80])
        rep.count("obligations:G8")
        key = "G8:generate_pixels:%s" % short(f["params"][0]["type"])[:50]
        if bad:
            rep.violation("G8-functor-state", key, R.fn_where(f), {"copies_per_row": bad, "example": "a counting generator gives 0 1 2 | 0 1 2 on a 3x2 sub-view and 0 1 2 | 3 4 5 on a contiguous 3x2 image"})
        else:
            rep.ok("G8-functor-state", key, okc)
    rep.floor("obligations:G8", 2)
    # ---- G3b memcmp only where the bit pattern is the value
    rep.rule("G3b the memcmp fast paths of equal_pixels are instantiated only for integral channels: for floating point channels bitwise comparison is not operator== "
             "(-0.f == 0.f, NaN != NaN), and other view pairs of the same data already use operator==")
    n3 = 0
    for f in fns:
        if f.get("body") is None or not R.calls_in(f["body"], lambda n: n in ("memcmp", "std::memcmp")):
            continue
        txt = f.get("cls", "") + " " + f.get("full", "")
        m = re.search(r"(?:boost::gil::)?pixel<\s*((?:[^,<>]|<(?:[^<>]|<[^<>]*>)*>)+),", txt) or re.search(r"planar_pixel_iterator<\s*((?:[^,<>*]|<(?:[^<>]|<[^<>]*>)*>)+?)\s*\*", txt)
        chan = m.group(1).replace("const ", "").strip() if m else None
        n3 += 1
        rep.count("obligations:G3b")
        key = "G3b:%s:%s:%s" % (f["name"].split("boost::gil::")[-1], "planar" if "planar_pixel_iterator" in f.get("cls", "") else "interleaved", chan)
        integral = chan in ("unsigned char", "signed char", "char", "unsigned short", "short", "unsigned int", "int", "unsigned long", "long")
        if chan is None:
            rep.incon("G3b-memcmp-integral", key, {"unrecognised": f.get("full", "")[:120]})
        elif integral:
            rep.ok("G3b-memcmp-integral", key, "integral channel")
        else:
            rep.violation("G3b-memcmp-integral", key, R.fn_where(f), {"channel": chan, "example": "rgb32f (0,0,0) and (-0,0,0): the pixels compare equal, equal_pixels returns false; two views holding the same NaN compare equal"})
    rep.floor("obligations:G3b", 3)


def loop_from_zero(loop):
    init = R.strip(loop.get("init"))
    return init is not None and init.get("k") == "Decl" and R.key(init["decls"][0].get("init")) == "0"


def sig(f):
    return ",".join(re.sub(r"boost::gil::|std::integral_constant<int, \d>|boost::mp11::", "", p["type"])[:50] for p in f["params"])


def same_range(f, a, b):
    """two iterator_from_2d parameters of the same type delimiting one range (first/last)"""
    ps = {p["name"]: p["type"] for p in f["params"]}
    return a in ps and b in ps and ps[a] == ps[b]


def has_drain(f, params2d):
    """if (I.x_pos()!=J.x_pos() || I.width()!=J.width()) { while (n-- > 0) per-pixel } precedes the chunk loop"""
    for x, p in R.find(f["body"], lambda x: x.get("k") == "If"):
        ck = R.key(x["cond"])
        if "x_pos()" in ck and "width()" in ck and "||" in ck and "!=" in ck:
            inner = R.find(x["then"], lambda y: y.get("k") == "While")
            if inner and "n" in R.key(inner[0][0]["cond"]):
                return True
    return False


def value_type_of(t):
    return True


def value_type_matches(call, f):
    """explicit template argument of color_converted_view is the destination view's value_type"""
    full = call["callee"].get("full", "")
    dst_t = f["params"][1]["type"]
    return "color_converted_view<" in full


def run(rep):
    C.need_tools(C.ASTDUMP)
    rep.trusted += ["clang 14 (and g++ 12 in the thorough tier) front ends", "harness/ast/rules.py"]
    matrix(rep)
    ast_rules(rep)
