// C12 W5b: library-backed writers instantiated for views whose memory order differs from the colour-space order
#include "vf_common.hpp"
#include <boost/gil/extension/io/png.hpp>
#include <boost/gil/extension/io/jpeg.hpp>
#include <boost/gil/extension/io/tiff.hpp>
#include <boost/gil/extension/io/bmp.hpp>
#include <boost/gil/extension/io/pnm.hpp>
#include <boost/gil/extension/io/targa.hpp>
using namespace vf;
template <class Tag, class Img> void wr(Img& img, Tag tag){ std::string name("f"); write_view(name, const_view(img), tag); read_image(name, img, tag); }
void inst(){
  bgr8_image_t a; bgra8_image_t b; argb8_image_t c; bgr16_image_t d;
  wr(a, png_tag()); wr(b, png_tag()); wr(c, png_tag()); wr(d, png_tag());
  wr(a, jpeg_tag());
  wr(a, tiff_tag()); wr(b, tiff_tag()); wr(d, tiff_tag());
  // W5c: the writers GIL implements itself, each with both memory orders of one colour space
  rgb8_image_t r3; rgba8_image_t r4;
  wr(a, pnm_tag()); wr(r3, pnm_tag());
  wr(a, bmp_tag()); wr(r3, bmp_tag()); wr(b, bmp_tag()); wr(r4, bmp_tag());
  wr(a, targa_tag()); wr(r3, targa_tag()); wr(b, targa_tag()); wr(r4, targa_tag());
}
