// partial reads of TARGA files: uncompressed and RLE, bottom-up and top-down, must equal the crop of the full read
#include <boost/gil.hpp>
#include <boost/gil/extension/io/targa.hpp>
#include <sstream>
#include <iostream>
using namespace boost::gil;
static std::string make(rgb8_image_t const& img, bool topdown, bool rle){
  int W = img.width(), H = img.height(); std::string s(18, '\0');
  s[2] = rle ? 10 : 2; s[12] = W & 255; s[13] = W >> 8; s[14] = H & 255; s[15] = H >> 8; s[16] = 24; s[17] = topdown ? 32 : 0;
  for (int k = 0; k < H; ++k) { int y = topdown ? k : H - 1 - k;
    if (!rle) for (int x = 0; x < W; ++x) { auto p = const_view(img)(x,y); s += (char)p[2]; s += (char)p[1]; s += (char)p[0]; }
    else { s += (char)(W - 1); for (int x = 0; x < W; ++x) { auto p = const_view(img)(x,y); s += (char)p[2]; s += (char)p[1]; s += (char)p[0]; } } }
  return s;
}
int main(){
  rgb8_image_t img(5, 6); for (int y=0;y<6;++y) for(int x=0;x<5;++x) view(img)(x,y)=rgb8_pixel_t(10*y+x, y, x);
  int total = 0;
  for (int td = 0; td < 2; ++td) for (int rle = 0; rle < 2; ++rle) {
    std::string s = make(img, td, rle); int bad = 0;
    { std::istringstream in(s, std::ios::binary); rgb8_image_t full; read_image(in, full, targa_tag()); if (!equal_pixels(const_view(full), const_view(img))) { std::cout << "FULL READ WRONG "; ++bad; } }
    for (int y0 = 0; y0 < 6; ++y0) for (int dy = 1; y0 + dy <= 6; ++dy) for (int x0 = 0; x0 < 5; ++x0) {
      std::istringstream in(s, std::ios::binary); rgb8_image_t part;
      image_read_settings<targa_tag> st(point_t(x0, y0), point_t(5 - x0, dy));
      read_image(in, part, st);
      if (!equal_pixels(const_view(part), subimage_view(const_view(img), x0, y0, 5 - x0, dy))) ++bad;
    }
    std::cout << (td ? "top-down " : "bottom-up ") << (rle ? "rle" : "raw") << ": " << bad << " reads differ from the crop\n"; total += bad;
  }
  return total != 0;
}
