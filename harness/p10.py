"""C10 image is a leak-free deep-value container: ownership/lifetime typestate over every member of image<>."""
import os, re
from . import common as C
from .ast import imgstate

LEVEL = "other"
EXPLANATION = ("Static analysis: a structured abstract interpreter (harness/ast/imgstate.py) runs every public member of "
               "image<> (all constructors, destructor, copy/move/converting assignment, swap, every recreate overload) on the "
               "instantiated AST, from every generic entry state (this and image-typed parameters empty or owning), through "
               "every branch and with an exceptional successor at every call that may throw (allocate, *_construct/fill/"
               "copy_pixels, copy_pixels, constructors of temporaries), descending into image's own helpers and running "
               "~image for temporaries. Configurations: interleaved/planar x {std::allocator, stateful propagating, stateful "
               "non-propagating possibly unequal} and a non-trivially-destructible element type. Obligations I1-I6 (leak, "
               "double free/dangling, recorded size, allocator identity, element lifetime, moved-from state) are checked at "
               "every deallocate, every overwrite of _memory and every normal and exceptional exit. Genuine defects that are "
               "not repaired are listed as known findings. Not decided: pixel values after copy; the roll-back loops inside "
               "algorithm.hpp are axioms (construct: raw->constructed or throw leaving raw).")

ROOTS = ("image", "~image", "operator=", "swap", "recreate")


def run(rep):
    C.need_tools(C.ASTDUMP)
    wd = C.workdir("C10")
    src = os.path.join(C.DRIVERS, "c10_driver.cpp")
    d = C.astdump(src, os.path.join(wd, "c10.json"), ["^boost::gil::image::"])
    if d.get("errors"):
        raise C.AnalysisBroken("c10 driver has compile errors")
    fns = d["functions"]
    rep.units.append("drivers/c10_driver.cpp (%d instantiated image members)" % len(fns))
    by_cls = {}
    for f in fns:
        by_cls.setdefault(f.get("cls"), []).append(f)
    rep.trusted += ["clang 14 front end (template instantiation, overload resolution)", "axioms: allocate -> owned or throws; deallocate frees; "
                    "default_construct/uninitialized_fill/uninitialized_copy_pixels: raw -> constructed or throw leaving raw; destruct_pixels: constructed -> raw; "
                    "view assignment, boost::exchange and std::swap of scalars do not throw"]
    rep.rule("I1 no leak / I2 no double free or dangling view / I3 recorded size / I4 allocator identity / I5 element lifetime / I6 moved-from empty, "
             "at every deallocate, overwrite of _memory and every normal or exceptional exit of every public member")
    seen = set()
    viols = {}

    def report(rule, root, construct, detail):
        cfgname = cfg
        key = "%s:%s" % (root, construct_key(construct))
        v = viols.setdefault((rule, key), {"where": root, "detail": construct, "path": detail, "count": 0, "configs": set()})
        v["count"] += 1
        v["configs"].add(cfgname)
    total_paths = 0
    for cls, members in sorted(by_cls.items(), key=lambda kv: str(kv[0])):
        if cls is None:
            continue
        cfg = config_name(cls)
        always_equal = "std::allocator" in cls or "salloc" not in cls
        it = imgstate.Interp(fns, always_equal, report)
        for f in members:
            short = f["name"].split("::")[-1]
            if short not in ROOTS:
                continue
            rep.count("members")
            rep.count("config:" + cfg)
            try:
                n = it.run_member(f, cls)
            except imgstate.Broken as e:
                rep.fail_analysis("%s [%s]: %s" % (imgstate.fkey(f), cfg, e))
                continue
            total_paths += n
            rep.obligations += 1
            had = [k for k, v in viols.items() if k[1].startswith(imgstate.fkey(f) + ":") and cfg in v["configs"]]
            if not had:
                rep.discharged += 1
                if len(rep.samples) < 12:
                    rep.samples.append({"member": imgstate.fkey(f), "config": cfg, "paths": n, "result": "I1-I6 hold on all paths"})
        if it.unknown_calls:
            rep.notes.append("calls treated as neutral in %s: %s" % (cfg, sorted(it.unknown_calls)[:12]))
    rep.analysed["paths"] = total_paths
    for (rule, key), v in sorted(viols.items()):
        rep.obligations += 0
        rep.violations.append({"rule": rule, "key": key, "where": "include/boost/gil/image.hpp " + v["where"], "detail": {"problem": v["detail"], "example_path": v["path"][-600:], "paths": v["count"], "configurations": sorted(v["configs"])}})
    rep.floor("members", 100)
    rep.floor("config:interleaved/sticky", 20)


def config_name(cls):
    planar = "planar" if re.search(r", true(,|>)", cls) else "interleaved"
    if "salloc<unsigned char, true" in cls:
        a = "propagating"
    elif "salloc<unsigned char, false" in cls:
        a = "sticky"
    else:
        a = "std"
    if "vf::elem" in cls:
        a += "/elem"
    return planar + "/" + a


def construct_key(c):
    c = re.sub(r"\bk\d+\b", "k", c)
    c = re.sub(r"@\d+", "", c)
    c = re.sub(r"line \d+", "line", c)
    c = re.sub(r"#\d+", "", c)
    return c
