"""Numeric abstract interpreter over irdump JSON (loop-free functions).

Domains computed together for every SSA value:
  * D-range : closed interval [lo,hi] of the *mathematical* value (Fractions for ints,
              floats for fp evaluated in the operation's own precision), the bit pattern being
              the value mod 2^bits.  Each bound has an 'attained' flag (a concrete input tuple
              that produces it) kept while transfer functions are exact and monotone.
  * D-mono  : per input, '=' (independent), '+' (non-decreasing), '-' (non-increasing) or None.
  * D-affine: value = sum_i c_i * sym_i + e, e in [elo,ehi]; products of two inputs become
              a product symbol.
Obligations (recorded, never raised): lossless narrowing, fp->int in range, no wrap in
add/sub/mul, divisor non-zero, shift amount < width.
Outcome per obligation: proved / refuted (with witness input) / inconclusive.
"""
import struct, math
from fractions import Fraction as Fr

INF = float("inf")


def f32(x):
    if x != x or x in (INF, -INF):
        return x
    try:
        return struct.unpack("f", struct.pack("f", x))[0]
    except OverflowError:
        return INF if x > 0 else -INF


def fnext(x, bits, up):
    """neighbouring representable value in the given precision"""
    if bits == 64:
        return math.nextafter(x, INF if up else -INF)
    x = f32(x)
    if x == 0.0:
        t = struct.unpack("f", struct.pack("I", 1))[0]
        return t if up else -t
    i = struct.unpack("I", struct.pack("f", x))[0]
    if (x > 0) == up:
        i += 1
    else:
        i -= 1
    return struct.unpack("f", struct.pack("I", i))[0]


def rnd(x, bits):
    return f32(x) if bits == 32 else float(x)


class AV:

    def __init__(self, kind, bits, lo, hi, lo_w=None, hi_w=None, mono=None, aff=None, elo=None, ehi=None):
        self.kind, self.bits, self.lo, self.hi = kind, bits, lo, hi
        self.lo_w, self.hi_w = lo_w, hi_w      # witness input tuples (dict input->value) or None
        self.mono = mono or {}                 # input -> '=', '+', '-', None
        self.aff = aff                         # dict sym->Fraction or None
        self.elo, self.ehi = elo, ehi
        self.top = False

    def is_const(self):
        return self.lo == self.hi

    def __repr__(self):
        return "AV(%s%d [%s,%s] mono=%s aff=%s+[%s,%s])" % (self.kind, self.bits, self.lo, self.hi, self.mono,
                                                             self.aff, self.elo, self.ehi)


def const_av(kind, bits, v, inputs):
    return AV(kind, bits, v, v, {}, {}, {i: "=" for i in inputs}, {}, v if kind == "int" else Fr(v), v if kind == "int" else Fr(v))


def umax(b):
    return (1 << b) - 1


def fits_u(lo, hi, b):
    return lo >= 0 and hi <= umax(b)


def fits_s(lo, hi, b):
    return lo >= -(1 << (b - 1)) and hi <= (1 << (b - 1)) - 1


def neg_mono(m):
    return {k: {"+": "-", "-": "+", "=": "="}.get(v) for k, v in m.items()}


def join_mono2(a, b, sa=1, sb=1):
    """monotonicity of f+g style combination (sa, sb signs)."""
    out = {}
    for k in set(a) | set(b):
        x, y = a.get(k), b.get(k)
        if sa < 0:
            x = {"+": "-", "-": "+", "=": "="}.get(x)
        if sb < 0:
            y = {"+": "-", "-": "+", "=": "="}.get(y)
        if x is None or y is None:
            out[k] = None
        elif x == "=":
            out[k] = y
        elif y == "=":
            out[k] = x
        elif x == y:
            out[k] = x
        else:
            out[k] = None
    return out


def merge_w(a, b):
    """combine witnesses (dict input->value); conflict -> None"""
    if a is None or b is None:
        return None
    out = dict(a)
    for k, v in b.items():
        if k in out and out[k] != v:
            return None
        out[k] = v
    return out


class Event:
    def __init__(self, kind, inst, status, detail, witness=None):
        self.kind, self.inst, self.status, self.detail, self.witness = kind, inst, status, detail, witness

    def where(self):
        d = self.inst.get("dbg") or []
        return ["%s:%d" % (x["file"], x["line"]) for x in d]

    def as_dict(self):
        return {"kind": self.kind, "status": self.status, "detail": self.detail, "witness": self.witness,
                "inst": self.inst.get("id"), "op": self.inst["op"], "where": self.where()}


class Unsupported(Exception):
    pass


class NumInterp:
    def __init__(self, fn, inputs):
        """inputs: dict arg-id -> (kind, bits, lo, hi) giving the documented range of every argument
        (mathematical value; for signed ints lo<0)."""
        self.fn = fn
        self.inputs = inputs
        self.val = {}
        self.events = []
        self.ret = None
        self.inst_of = {}
        self.block = {b["id"]: b for b in fn["blocks"]}

    # ------------------------------------------------------------------
    def arg_value(self, a):
        kind, bits, lo, hi = self.inputs[a]
        m = {i: "=" for i in self.inputs}
        m[a] = "+"
        if kind == "int":
            return AV("int", bits, lo, hi, {a: lo}, {a: hi}, m, {a: Fr(1)}, Fr(0), Fr(0))
        return AV("float", bits, lo, hi, {a: lo}, {a: hi}, m, {a: Fr(1)}, Fr(0), Fr(0))

    def operand(self, o, refine):
        k = o["k"]
        if k == "c":
            bits = o["bits"]
            u = int(o["u"])
            # a constant with the top bit set is read as the negative number it almost always is (x + -8, x * -1);
            # unsigned readers (zext, udiv, unsigned compares, uitofp) convert back through as_unsigned()
            if bits > 1 and u >= (1 << (bits - 1)):
                u -= (1 << bits)
            v = const_av("int", bits, u, self.inputs)
            return v
        if k == "cf":
            return const_av("float", o["bits"], float.fromhex(o["hex"]), self.inputs)
        if k in ("v", "arg"):
            i = o["id"]
            if i in refine:
                return refine[i]
            if i in self.val:
                return self.val[i]
            if k == "arg":
                if i not in self.inputs:
                    at = self.fn["args"][o["idx"]]["type"]
                    if at.get("k") == "ptr":
                        return self.top_int(64)
                    raise Unsupported("argument %s has no declared range" % i)
                v = self.arg_value(i)
                self.val[i] = v
                return v
            raise Unsupported("use of undefined value " + i)
        if k == "undef":
            b = o.get("bits")
            return self.top_int(b or 64)
        raise Unsupported("operand kind " + k)

    def aff_mul(self, a, b_):
        """(ca*ka + ea) * (cb*kb + eb) with ka, kb input symbols -> affine form over {ka*kb, ka, kb} + error"""
        if a.aff is None or b_.aff is None or len(a.aff) != 1 or len(b_.aff) != 1:
            return None, None, None
        (ka, ca), = a.aff.items()
        (kb, cb), = b_.aff.items()
        ra, rb = self.sym_range(ka), self.sym_range(kb)
        if ra is None or rb is None:
            return None, None, None

        def imul(x, y):
            c_ = [x[0] * y[0], x[0] * y[1], x[1] * y[0], x[1] * y[1]]
            return (min(c_), max(c_))
        aff = {"*".join(sorted([ka, kb])): ca * cb}
        ma, mb = (a.elo + a.ehi) / 2, (b_.elo + b_.ehi) / 2      # midpoints go to the linear part
        da, db = (a.elo - ma, a.ehi - ma), (b_.elo - mb, b_.ehi - mb)
        aff[ka] = aff.get(ka, Fr(0)) + ca * mb
        aff[kb] = aff.get(kb, Fr(0)) + cb * ma
        const = ma * mb
        A = (ca * ra[0], ca * ra[1]) if ca >= 0 else (ca * ra[1], ca * ra[0])
        B = (cb * rb[0], cb * rb[1]) if cb >= 0 else (cb * rb[1], cb * rb[0])
        A = (A[0] + ma, A[1] + ma)
        B = (B[0] + mb, B[1] + mb)
        t1 = imul(A, db)
        t2 = imul(B, da)
        t3 = imul(da, db)
        elo = const + t1[0] + t2[0] + t3[0]
        ehi = const + t1[1] + t2[1] + t3[1]
        aff = {k: v for k, v in aff.items() if v != 0}
        return aff, elo, ehi

    def sym_range(self, k):
        if k in self.inputs and "*" not in k:
            _, _, lo, hi = self.inputs[k]
            return (Fr(lo), Fr(hi))
        return None

    def ev(self, kind, inst, status, detail, witness=None):
        self.events.append(Event(kind, inst, status, detail, witness))

    # signed/unsigned views --------------------------------------------------
    def as_unsigned(self, v, inst):
        """return AV whose math value is the unsigned reading of the bit pattern."""
        b = v.bits
        if fits_u(v.lo, v.hi, b):
            return v
        if v.hi < 0 and v.lo >= -(1 << (b - 1)):
            off = 1 << b
            return AV("int", b, v.lo + off, v.hi + off, v.lo_w, v.hi_w, v.mono, self.aff_add_const(v, off), *self.e_add(v, off))
        return self.top_int(b)

    def as_signed(self, v, inst):
        b = v.bits
        if fits_s(v.lo, v.hi, b):
            return v
        if v.lo >= (1 << (b - 1)) and v.hi <= umax(b):
            off = -(1 << b)
            return AV("int", b, v.lo + off, v.hi + off, v.lo_w, v.hi_w, v.mono, self.aff_add_const(v, off), *self.e_add(v, off))
        t = self.top_int(b)
        t.lo, t.hi = -(1 << (b - 1)), (1 << (b - 1)) - 1
        return t

    def aff_add_const(self, v, c):
        return dict(v.aff) if v.aff is not None else None

    def e_add(self, v, c):
        if v.aff is None:
            return (None, None)
        return (v.elo + c, v.ehi + c)

    def top_int(self, b):
        t = AV("int", b, 0, umax(b), None, None, {i: None for i in self.inputs}, None, None, None)
        t.top = True
        return t

    def top_float(self, b):
        t = AV("float", b, -INF, INF, None, None, {i: None for i in self.inputs}, None, None, None)
        t.top = True
        return t

    # ------------------------------------------------------------------
    def norm_int(self, inst, b, lo, hi, lo_w, hi_w, mono, aff, elo, ehi, what):
        """result of add/sub/mul/shl: check that the math value is representable."""
        if fits_u(lo, hi, b) or fits_s(lo, hi, b):
            self.ev("no-wrap", inst, "proved", "%s result [%s,%s] fits i%d" % (what, lo, hi, b))
            return AV("int", b, lo, hi, lo_w, hi_w, mono, aff, elo, ehi)
        # mixed: representable neither as signed nor unsigned consistently
        if lo >= -(1 << (b - 1)) and hi <= umax(b):
            # every value representable under one of the readings, but the reading is ambiguous
            self.ev("no-wrap", inst, "inconclusive", "%s result [%s,%s] straddles signed/unsigned i%d" % (what, lo, hi, b))
            return self.top_int(b)
        wit = None
        if hi > umax(b) and hi_w is not None:
            wit = {"input": hi_w, "value": str(hi)}
        elif lo < -(1 << (b - 1)) and lo_w is not None:
            wit = {"input": lo_w, "value": str(lo)}
        self.ev("no-wrap", inst, "refuted" if wit else "inconclusive",
                "%s result [%s,%s] does not fit i%d (wraps)" % (what, lo, hi, b), wit)
        return self.top_int(b)

    def binop_int(self, inst, op, a, b_):
        b = inst["type"]["bits"]
        if a.top or b_.top:
            if op in ("and",) and (b_.is_const() or a.is_const()):
                pass
            else:
                if op in ("udiv", "sdiv", "urem", "srem"):
                    self.div_check(inst, b_)
                return self.top_int(b)
        if op in ("add", "sub"):
            # a constant operand is known only modulo 2^b: choose the reading (c or c +- 2^b) under which the result is representable
            for which in (0, 1):
                cst, oth = (b_, a) if which == 0 else (a, b_)
                if cst.is_const() and not oth.top and inst["ops"][1 if which == 0 else 0]["k"] == "c":
                    for alt in (cst.lo, cst.lo + (1 << b), cst.lo - (1 << b)):
                        cv = const_av("int", b, alt, self.inputs)
                        x, y = (oth, cv) if which == 0 else (cv, oth)
                        lo_, hi_ = (x.lo + y.lo, x.hi + y.hi) if op == "add" else (x.lo - y.hi, x.hi - y.lo)
                        if fits_u(lo_, hi_, b) or fits_s(lo_, hi_, b):
                            if which == 0:
                                b_ = cv
                            else:
                                a = cv
                            break
                    break
            s = 1 if op == "add" else -1
            if s > 0:
                lo, hi = a.lo + b_.lo, a.hi + b_.hi
                lo_w, hi_w = merge_w(a.lo_w, b_.lo_w), merge_w(a.hi_w, b_.hi_w)
            else:
                lo, hi = a.lo - b_.hi, a.hi - b_.lo
                lo_w, hi_w = merge_w(a.lo_w, b_.hi_w), merge_w(a.hi_w, b_.lo_w)
            mono = join_mono2(a.mono, b_.mono, 1, s)
            aff = elo = ehi = None
            if a.aff is not None and b_.aff is not None:
                aff = dict(a.aff)
                for k, c in b_.aff.items():
                    aff[k] = aff.get(k, Fr(0)) + s * c
                if s > 0:
                    elo, ehi = a.elo + b_.elo, a.ehi + b_.ehi
                else:
                    elo, ehi = a.elo - b_.ehi, a.ehi - b_.elo
            return self.norm_int(inst, b, lo, hi, lo_w, hi_w, mono, aff, elo, ehi, op)
        if op == "mul":
            if b_.is_const() or a.is_const():
                if a.is_const() and not b_.is_const():
                    a, b_ = b_, a
                c = b_.lo
                # a constant written as unsigned may mean a negative factor (e.g. * -1 on i64)
                if c > (1 << (b - 1)) - 1 and not fits_u(a.lo * c, a.hi * c, b):
                    c = c - (1 << b)
                if c >= 0:
                    lo, hi, lo_w, hi_w, mono = a.lo * c, a.hi * c, a.lo_w, a.hi_w, a.mono
                else:
                    lo, hi, lo_w, hi_w, mono = a.hi * c, a.lo * c, a.hi_w, a.lo_w, neg_mono(a.mono)
                if c == 0:
                    mono = {i: "=" for i in self.inputs}
                aff = elo = ehi = None
                if a.aff is not None:
                    aff = {k: v * c for k, v in a.aff.items()}
                    e1, e2 = a.elo * c, a.ehi * c
                    elo, ehi = min(e1, e2), max(e1, e2)
                return self.norm_int(inst, b, lo, hi, lo_w, hi_w, mono, aff, elo, ehi, "mul")
            # product of two varying values
            cands = [(a.lo * b_.lo, merge_w(a.lo_w, b_.lo_w)), (a.lo * b_.hi, merge_w(a.lo_w, b_.hi_w)),
                     (a.hi * b_.lo, merge_w(a.hi_w, b_.lo_w)), (a.hi * b_.hi, merge_w(a.hi_w, b_.hi_w))]
            lo, lo_w = min(cands, key=lambda t: t[0])
            hi, hi_w = max(cands, key=lambda t: t[0])
            mono = {}
            for i in self.inputs:
                x, y = a.mono.get(i), b_.mono.get(i)
                if a.lo >= 0 and b_.lo >= 0 and x in ("+", "=") and y in ("+", "="):
                    mono[i] = "=" if (x == "=" and y == "=") else "+"
                else:
                    mono[i] = None
            aff, elo, ehi = self.aff_mul(a, b_)
            return self.norm_int(inst, b, lo, hi, lo_w, hi_w, mono, aff, elo, ehi, "mul")
        if op in ("udiv", "sdiv"):
            self.div_check(inst, b_)
            if not b_.is_const():
                return self.top_int(b)
            if op == "udiv":
                a = self.as_unsigned(a, inst)
                c = b_.lo
            else:
                a = self.as_signed(a, inst)
                c = self.as_signed(b_, inst).lo
            if a.top or c == 0:
                return self.top_int(b)
            if c < 0:
                return self.top_int(b)

            def tdiv(x):
                q = abs(x) // c
                return q if x >= 0 else -q
            lo, hi = tdiv(a.lo), tdiv(a.hi)
            aff = elo = ehi = None
            if a.aff is not None:
                aff = {k: v / c for k, v in a.aff.items()}
                # floor for x>=0: x/c - (c-1)/c <= q <= x/c ; trunc for x<0: x/c <= q <= x/c+(c-1)/c
                slack = Fr(c - 1, c)
                elo = a.elo / c - (slack if a.hi > 0 else 0)
                ehi = a.ehi / c + (slack if a.lo < 0 else 0)
            return AV("int", b, lo, hi, a.lo_w, a.hi_w, a.mono, aff, elo, ehi)
        if op in ("urem", "srem"):
            self.div_check(inst, b_)
            if op == "srem" and b_.is_const():
                c = self.as_signed(b_, inst).lo
                sa = self.as_signed(a, inst)
                if c > 0 and not sa.top:
                    if sa.is_const():
                        x = sa.lo
                        q = abs(x) // c * (1 if x >= 0 else -1)
                        return const_av("int", b, x - q * c, self.inputs)
                    if 0 <= sa.lo and sa.hi < c:
                        return sa
                    lo = 0 if sa.lo >= 0 else -(c - 1)
                    hi = 0 if sa.hi <= 0 else (c - 1)
                    return AV("int", b, lo, hi, None, None, {i: None for i in self.inputs}, None, None, None)
            if op == "urem" and b_.is_const() and b_.lo > 0:
                a = self.as_unsigned(a, inst)
                if not a.top:
                    if a.hi < b_.lo:
                        return a
                    t = self.top_int(b)
                    t.hi = b_.lo - 1
                    t.top = False
                    return t
            return self.top_int(b)
        if op == "and":
            if a.is_const() and not b_.is_const():
                a, b_ = b_, a
            if b_.is_const():
                m = b_.lo
                if m & (m + 1) == 0:  # low mask 2^k-1
                    if a.lo >= 0 and a.hi <= m and not a.top:
                        return a       # identity on the declared range
                    t = self.top_int(b)
                    t.hi = m
                    t.top = False
                    t.lo_w = t.hi_w = None
                    return t
                t = self.top_int(b)
                t.hi = m
                t.top = False
                return t
            t = self.top_int(b)
            if not a.top and not b_.top and a.lo >= 0 and b_.lo >= 0:
                t.hi = min(a.hi, b_.hi)
                t.top = False
            return t
        if op in ("or", "xor"):
            t = self.top_int(b)
            if not a.top and not b_.top and a.lo >= 0 and b_.lo >= 0:
                n = max(int(a.hi).bit_length(), int(b_.hi).bit_length())
                t.hi = (1 << n) - 1
                t.top = False
            return t
        if op in ("shl", "lshr", "ashr"):
            if not b_.is_const():
                if b_.hi >= b:
                    self.ev("shift-range", inst, "inconclusive", "shift amount [%s,%s] vs width %d" % (b_.lo, b_.hi, b))
                return self.top_int(b)
            k = b_.lo
            if k >= b:
                self.ev("shift-range", inst, "refuted", "shift by %d on i%d" % (k, b), {"input": {}, "value": str(k)})
                return self.top_int(b)
            self.ev("shift-range", inst, "proved", "shift by %d on i%d" % (k, b))
            if op == "shl":
                c = 1 << k
                aff = elo = ehi = None
                if a.aff is not None:
                    aff = {kk: v * c for kk, v in a.aff.items()}
                    elo, ehi = a.elo * c, a.ehi * c
                return self.norm_int(inst, b, a.lo * c, a.hi * c, a.lo_w, a.hi_w, a.mono, aff, elo, ehi, "shl")
            if op == "lshr":
                a = self.as_unsigned(a, inst)
            else:
                a = self.as_signed(a, inst)
            if a.top:
                return self.top_int(b)
            c = 1 << k
            lo, hi = a.lo // c, a.hi // c
            aff = elo = ehi = None
            if a.aff is not None:
                aff = {kk: v / c for kk, v in a.aff.items()}
                elo, ehi = a.elo / c - Fr(c - 1, c), a.ehi / c
            return AV("int", b, lo, hi, a.lo_w, a.hi_w, a.mono, aff, elo, ehi)
        raise Unsupported("int op " + op)

    def div_check(self, inst, d):
        if d.top or (d.lo <= 0 <= d.hi):
            wit = None
            if d.lo == 0 and d.lo_w is not None:
                wit = {"input": d.lo_w, "value": "0"}
            elif d.hi == 0 and d.hi_w is not None:
                wit = {"input": d.hi_w, "value": "0"}
            self.ev("div-nonzero", inst, "refuted" if wit else "inconclusive", "divisor range [%s,%s] contains 0" % (d.lo, d.hi), wit)
        else:
            self.ev("div-nonzero", inst, "proved", "divisor range [%s,%s]" % (d.lo, d.hi))

    # floats -------------------------------------------------------------
    def fbin(self, inst, op, a, b_):
        bits = inst["type"]["bits"]
        if a.top or b_.top:
            return self.top_float(bits)
        R = lambda x: rnd(x, bits)
        eps = Fr(1, 1 << (23 if bits == 32 else 52))

        def relerr(lo, hi):
            m = max(abs(lo), abs(hi))
            if m == INF:
                return None
            return Fr(m) * eps

        if op in ("fadd", "fsub"):
            s = 1 if op == "fadd" else -1
            if s > 0:
                lo, hi = R(a.lo + b_.lo), R(a.hi + b_.hi)
                lo_w, hi_w = merge_w(a.lo_w, b_.lo_w), merge_w(a.hi_w, b_.hi_w)
            else:
                lo, hi = R(a.lo - b_.hi), R(a.hi - b_.lo)
                lo_w, hi_w = merge_w(a.lo_w, b_.hi_w), merge_w(a.hi_w, b_.lo_w)
            mono = join_mono2(a.mono, b_.mono, 1, s)
            aff = elo = ehi = None
            if a.aff is not None and b_.aff is not None:
                re = relerr(lo, hi)
                if re is not None:
                    aff = dict(a.aff)
                    for k, c in b_.aff.items():
                        aff[k] = aff.get(k, Fr(0)) + s * c
                    if s > 0:
                        elo, ehi = a.elo + b_.elo - re, a.ehi + b_.ehi + re
                    else:
                        elo, ehi = a.elo - b_.ehi - re, a.ehi - b_.elo + re
            return AV("float", bits, lo, hi, lo_w, hi_w, mono, aff, elo, ehi)
        if op in ("fmul", "fdiv"):
            if op == "fdiv":
                if b_.lo <= 0 <= b_.hi:
                    self.ev("fdiv-nonzero", inst, "inconclusive" if not (b_.is_const()) else "refuted",
                            "float divisor range [%s,%s] contains 0" % (b_.lo, b_.hi),
                            {"input": b_.lo_w or {}, "value": "0"} if b_.is_const() else None)
                    return self.top_float(bits)
                self.ev("fdiv-nonzero", inst, "proved", "float divisor range [%s,%s]" % (b_.lo, b_.hi))
                f = lambda x, y: x / y
            else:
                f = lambda x, y: x * y

            def safe(x, y):
                try:
                    return R(f(x, y))
                except (OverflowError, ZeroDivisionError):
                    return INF
            cands = [(safe(a.lo, b_.lo), merge_w(a.lo_w, b_.lo_w)), (safe(a.lo, b_.hi), merge_w(a.lo_w, b_.hi_w)),
                     (safe(a.hi, b_.lo), merge_w(a.hi_w, b_.lo_w)), (safe(a.hi, b_.hi), merge_w(a.hi_w, b_.hi_w))]
            if any(c[0] != c[0] for c in cands):
                return self.top_float(bits)
            lo, lo_w = min(cands, key=lambda t: t[0])
            hi, hi_w = max(cands, key=lambda t: t[0])
            mono = {}
            for i in self.inputs:
                x, y = a.mono.get(i), b_.mono.get(i)
                if op == "fmul":
                    if y == "=" and b_.is_const() and x is not None:
                        mono[i] = x if b_.lo >= 0 else neg_mono({i: x})[i]
                    elif x == "=" and a.is_const() and y is not None:
                        mono[i] = y if a.lo >= 0 else neg_mono({i: y})[i]
                    elif a.lo >= 0 and b_.lo >= 0 and x in ("+", "=") and y in ("+", "="):
                        mono[i] = "=" if x == y == "=" else "+"
                    else:
                        mono[i] = None
                else:
                    if y == "=" and b_.is_const() and x is not None:
                        mono[i] = x if b_.lo > 0 else neg_mono({i: x})[i]
                    else:
                        mono[i] = None
            aff = elo = ehi = None
            re = relerr(lo, hi)
            if re is not None:
                if b_.is_const() and a.aff is not None and abs(b_.lo) != INF and not (op == "fdiv" and b_.lo == 0):
                    c = Fr(b_.lo)
                    c = c if op == "fmul" else 1 / c
                    aff = {k: v * c for k, v in a.aff.items()}
                    e1, e2 = a.elo * c, a.ehi * c
                    elo, ehi = min(e1, e2) - re, max(e1, e2) + re
                elif a.is_const() and b_.aff is not None and op == "fmul" and abs(a.lo) != INF:
                    c = Fr(a.lo)
                    aff = {k: v * c for k, v in b_.aff.items()}
                    e1, e2 = b_.elo * c, b_.ehi * c
                    elo, ehi = min(e1, e2) - re, max(e1, e2) + re
                elif op == "fmul":
                    aff, elo, ehi = self.aff_mul(a, b_)
                    if aff is not None:
                        elo, ehi = elo - re, ehi + re
            return AV("float", bits, lo, hi, lo_w, hi_w, mono, aff, elo, ehi)
        raise Unsupported("float op " + op)

    # ------------------------------------------------------------------
    def cast(self, inst, op, a):
        t = inst["type"]
        b = t["bits"]
        if op == "zext":
            a = self.as_unsigned(a, inst)
            if a.top:
                return self.top_int(b)
            return AV("int", b, a.lo, a.hi, a.lo_w, a.hi_w, a.mono, a.aff, a.elo, a.ehi)
        if op == "sext":
            a = self.as_signed(a, inst)
            if a.top:
                t = self.top_int(b)
                t.lo, t.hi = a.lo, a.hi
                return t
            return AV("int", b, a.lo, a.hi, a.lo_w, a.hi_w, a.mono, a.aff, a.elo, a.ehi)
        if op == "trunc":
            if b == 1:
                if a.is_const():
                    return const_av("int", 1, a.lo & 1, self.inputs)
                return self.top_int(1)
            if a.top:
                self.ev("lossless-trunc", inst, "inconclusive", "operand unknown, trunc to i%d" % b)
                return self.top_int(b)
            if fits_u(a.lo, a.hi, b) or fits_s(a.lo, a.hi, b):
                self.ev("lossless-trunc", inst, "proved", "[%s,%s] fits i%d" % (a.lo, a.hi, b))
                return AV("int", b, a.lo, a.hi, a.lo_w, a.hi_w, a.mono, a.aff, a.elo, a.ehi)
            wit = None
            if a.hi > umax(b) and a.hi_w is not None:
                wit = {"input": a.hi_w, "value": str(a.hi)}
            elif a.lo < -(1 << (b - 1)) and a.lo_w is not None:
                wit = {"input": a.lo_w, "value": str(a.lo)}
            self.ev("lossless-trunc", inst, "refuted" if wit else "inconclusive",
                    "value range [%s,%s] truncated to i%d loses bits" % (a.lo, a.hi, b), wit)
            return self.top_int(b)
        if op in ("uitofp", "sitofp"):
            a = self.as_unsigned(a, inst) if op == "uitofp" else self.as_signed(a, inst)
            if a.top:
                t = self.top_float(b)
                t.lo, t.hi = rnd(float(a.lo), b), rnd(float(a.hi), b)
                t.top = False
                return t
            lo, hi = rnd(float(a.lo), b), rnd(float(a.hi), b)
            aff, elo, ehi = a.aff, a.elo, a.ehi
            if aff is not None:
                mant = 24 if b == 32 else 53
                m = max(abs(a.lo), abs(a.hi))
                if m >= (1 << mant):
                    re = Fr(m, 1 << (mant - 1))
                    elo, ehi = elo - re, ehi + re
            return AV("float", b, lo, hi, a.lo_w, a.hi_w, a.mono, aff, elo, ehi)
        if op in ("fptoui", "fptosi"):
            if a.top:
                self.ev("fptoint-range", inst, "inconclusive", "operand unknown")
                return self.top_int(b)
            lo_ok = a.lo > -1 if op == "fptoui" else a.lo > -(1 << (b - 1)) - 1
            hi_ok = a.hi < (1 << b) if op == "fptoui" else a.hi < (1 << (b - 1))
            if not (lo_ok and hi_ok):
                wit = None
                if not hi_ok and a.hi_w is not None:
                    wit = {"input": a.hi_w, "value": repr(a.hi)}
                elif not lo_ok and a.lo_w is not None:
                    wit = {"input": a.lo_w, "value": repr(a.lo)}
                self.ev("fptoint-range", inst, "refuted" if wit else "inconclusive",
                        "float range [%r,%r] not representable in %s i%d (undefined behaviour)" % (a.lo, a.hi, op, b), wit)
                return self.top_int(b)
            self.ev("fptoint-range", inst, "proved", "float range [%r,%r] fits %s i%d" % (a.lo, a.hi, op, b))
            lo, hi = int(math.trunc(a.lo)), int(math.trunc(a.hi))
            aff, elo, ehi = a.aff, a.elo, a.ehi
            if aff is not None:
                elo = elo - (1 if a.hi > 0 else 0)
                ehi = ehi + (1 if a.lo < 0 else 0)
            return AV("int", b, lo, hi, a.lo_w, a.hi_w, a.mono, aff, elo, ehi)
        if op in ("fpext", "fptrunc"):
            if a.top:
                return self.top_float(b)
            re = Fr(0)
            aff, elo, ehi = a.aff, a.elo, a.ehi
            if op == "fptrunc" and aff is not None:
                m = max(abs(a.lo), abs(a.hi))
                re = Fr(m) / (1 << 23) if m != INF else None
                if re is None:
                    aff = elo = ehi = None
                else:
                    elo, ehi = elo - re, ehi + re
            return AV("float", b, rnd(a.lo, b), rnd(a.hi, b), a.lo_w, a.hi_w, a.mono, aff, elo, ehi)
        if op == "bitcast":
            # type punning (SROA of partially initialised aggregates): value unknown
            return self.top_float(b) if t["k"] == "float" else self.top_int(b)
        raise Unsupported("cast " + op)

    # comparisons & refinement ------------------------------------------------
    def cmp_const(self, inst, a, b_):
        """decide a comparison if ranges make it constant; returns True/False/None"""
        p = inst["pred"]
        if inst["op"] == "icmp":
            if p in ("ult", "ule", "ugt", "uge"):
                a, b_ = self.as_unsigned(a, inst), self.as_unsigned(b_, inst)
            elif p in ("slt", "sle", "sgt", "sge"):
                a, b_ = self.as_signed(a, inst), self.as_signed(b_, inst)
            if a.top or b_.top:
                return None, a, b_
        else:
            if a.top or b_.top:
                return None, a, b_
        base = p[-2:] if p not in ("eq", "ne") else p
        if inst["op"] == "fcmp":
            base = p[1:] if p[0] in "ou" else p
        r = None
        if base == "lt":
            r = True if a.hi < b_.lo else (False if a.lo >= b_.hi else None)
        elif base == "le":
            r = True if a.hi <= b_.lo else (False if a.lo > b_.hi else None)
        elif base == "gt":
            r = True if a.lo > b_.hi else (False if a.hi <= b_.lo else None)
        elif base == "ge":
            r = True if a.lo >= b_.hi else (False if a.hi < b_.lo else None)
        elif base == "eq":
            r = True if (a.is_const() and b_.is_const() and a.lo == b_.lo) else (False if (a.hi < b_.lo or a.lo > b_.hi) else None)
        elif base == "ne":
            r = False if (a.is_const() and b_.is_const() and a.lo == b_.lo) else (True if (a.hi < b_.lo or a.lo > b_.hi) else None)
        return r, a, b_

    def refine_edge(self, cond_inst, taken, refine):
        """returns a new refine dict for the edge where cond == taken"""
        out = dict(refine)
        if cond_inst is None or cond_inst["op"] not in ("icmp", "fcmp"):
            return out
        o0, o1 = cond_inst["ops"]
        try:
            a, b_ = self.operand(o0, refine), self.operand(o1, refine)
        except Unsupported:
            return out
        p = cond_inst["pred"]
        if cond_inst["op"] == "icmp":
            if p[0] == "u":
                a, b_ = self.as_unsigned(a, cond_inst), self.as_unsigned(b_, cond_inst)
            elif p[0] == "s":
                a, b_ = self.as_signed(a, cond_inst), self.as_signed(b_, cond_inst)
            base = p[-2:] if p not in ("eq", "ne") else p
            step = 1
        else:
            base = p[1:]
            step = 0
        if cond_inst["op"] == "fcmp" and (a.top != b_.top):
            # an unknown float compared with a known one: refine it from (-inf, +inf) (NaN is not modelled anywhere in this domain)
            inf = float("inf")
            if a.top and a.kind == "float":
                a = AV("float", a.bits, -inf, inf)
            if b_.top and b_.kind == "float":
                b_ = AV("float", b_.bits, -inf, inf)
        if a.top or b_.top:
            return out
        neg = {"lt": "ge", "le": "gt", "gt": "le", "ge": "lt", "eq": "ne", "ne": "eq"}
        if not taken:
            base = neg.get(base)
        if base is None:
            return out

        def clone(v, lo, hi):
            n = AV(v.kind, v.bits, lo, hi, v.lo_w if lo == v.lo else None, v.hi_w if hi == v.hi else None,
                   v.mono, v.aff, v.elo, v.ehi)
            # a bound introduced by the branch is attained when the variable is an input itself
            return n

        def restrict(o, v, other, rel):
            if o["k"] not in ("v", "arg"):
                return
            lo, hi = v.lo, v.hi
            if rel == "lt":
                hi = min(hi, other.hi - step) if step else min(hi, fnext(other.hi, v.bits, False))
            elif rel == "le":
                hi = min(hi, other.hi)
            elif rel == "gt":
                lo = max(lo, other.lo + step) if step else max(lo, fnext(other.lo, v.bits, True))
            elif rel == "ge":
                lo = max(lo, other.lo)
            elif rel == "eq":
                lo, hi = max(lo, other.lo), min(hi, other.hi)
            elif rel == "ne" and other.is_const() and step:
                if other.lo == lo:
                    lo = lo + 1
                if other.lo == hi:
                    hi = hi - 1
            if lo > hi:
                out["__dead__"] = True
                return
            n = clone(v, lo, hi)
            if o["k"] == "arg" and v.kind == "int":
                if n.lo_w is None:
                    n.lo_w = {o["id"]: lo}
                if n.hi_w is None:
                    n.hi_w = {o["id"]: hi}
            if o["k"] == "arg" and v.kind == "float":
                if n.lo_w is None:
                    n.lo_w = {o["id"]: lo}
                if n.hi_w is None:
                    n.hi_w = {o["id"]: hi}
            out[o["id"]] = n
            # the same restriction holds for the value this one was cast from (value-preserving casts)
            src = o
            cur = n
            for _ in range(6):
                di = self.inst_of.get(src.get("id")) if src["k"] == "v" else None
                if di is None or di["op"] not in ("zext", "sext", "trunc"):
                    break
                so = di["ops"][0]
                if so["k"] not in ("v", "arg"):
                    break
                try:
                    sv = self.operand(so, refine)
                except Unsupported:
                    break
                if sv.top or sv.kind != "int":
                    break
                if di["op"] == "trunc" and not (fits_u(sv.lo, sv.hi, di["type"]["bits"]) or fits_s(sv.lo, sv.hi, di["type"]["bits"])):
                    break
                nlo, nhi = max(sv.lo, cur.lo), min(sv.hi, cur.hi)
                if nlo > nhi:
                    break
                cur = clone(sv, nlo, nhi)
                out[so["id"]] = cur
                src = so
        flip = {"lt": "gt", "le": "ge", "gt": "lt", "ge": "le", "eq": "eq", "ne": "ne"}
        restrict(o0, a, b_, base)
        restrict(o1, b_, a, flip[base])
        return out

    # ------------------------------------------------------------------
    def pieces_mono(self, doms, vals, i):
        """joined value is monotone in input i when each piece is, the pieces' domains (given by the
        refinement of one value that is itself increasing in i) are ordered and disjoint, and the
        pieces' value ranges are ordered the same way"""
        items = []
        for dom, v in zip(doms, vals):
            ks = [k for k in dom if k != "__dead__" and dom[k].mono.get(i) == "+"
                  and all(dom[k].mono.get(j) == "=" for j in self.inputs if j != i)]
            if len(ks) != 1 or v is None or v.top or v.mono.get(i) not in ("+", "="):
                return False
            a = dom[ks[0]]
            items.append((a.lo, a.hi, v.lo, v.hi))
        items.sort()
        for (l1, h1, vl1, vh1), (l2, h2, vl2, vh2) in zip(items, items[1:]):
            if not (h1 < l2 and vh1 <= vl2):
                return False
        return True

    def join(self, vals, doms=None):
        vals = [v for v in vals if v is not None]
        if len(vals) == 1:
            return vals[0]
        k, b = vals[0].kind, vals[0].bits
        if k == "int" and b > 1 and any(v.hi > (1 << (b - 1)) - 1 for v in vals if not v.top):
            # mixed readings: values known to be used as unsigned (some exceed the signed maximum); re-read wholly negative ones
            vals = [AV(v.kind, v.bits, v.lo + (1 << b), v.hi + (1 << b), v.lo_w, v.hi_w, v.mono, v.aff,
                       None if v.elo is None else v.elo + (1 << b), None if v.ehi is None else v.ehi + (1 << b))
                    if (not v.top and v.hi < 0) else v for v in vals]
        lo = min(v.lo for v in vals)
        hi = max(v.hi for v in vals)
        lo_w = next((v.lo_w for v in vals if v.lo == lo and v.lo_w is not None), None)
        hi_w = next((v.hi_w for v in vals if v.hi == hi and v.hi_w is not None), None)
        mono = {}
        for i in self.inputs:
            ms = [v.mono.get(i) for v in vals]
            mono[i] = "=" if all(m == "=" for m in ms) and all(v.is_const() for v in vals) and lo == hi else None
            if mono[i] is None and doms is not None and len(doms) == len(vals) and self.pieces_mono(doms, vals, i):
                mono[i] = "+"
        out = AV(k, b, lo, hi, lo_w, hi_w, mono, None, None, None)
        out.top = any(v.top for v in vals)
        # affine join: same linear part -> hull of error
        if all(v.aff is not None for v in vals) and all(v.aff == vals[0].aff for v in vals):
            out.aff = vals[0].aff
            out.elo = min(v.elo for v in vals)
            out.ehi = max(v.ehi for v in vals)
        return out

    def run(self):
        fn = self.fn
        blocks = fn["blocks"]
        order = self.topo(blocks)
        preds = {b["id"]: [] for b in blocks}
        for b in blocks:
            for s in b["succ"]:
                preds[s].append(b["id"])
        edge_ref = {}           # (from,to) -> refine dict
        reach = {blocks[0]["id"]: True}
        block_ref = {blocks[0]["id"]: {}}
        rets = []
        for bid in order:
            if not reach.get(bid):
                continue
            b = self.block[bid]
            if bid != blocks[0]["id"]:
                inc = [(p, edge_ref[(p, bid)]) for p in preds[bid] if (p, bid) in edge_ref]
                if not inc:
                    continue
                # intersection-join of refinements
                keys = set.intersection(*[set(r) for _, r in inc]) if inc else set()
                ref = {}
                for k in keys:
                    if k == "__dead__":
                        continue
                    ref[k] = self.join([r[k] for _, r in inc])
                block_ref[bid] = ref
            ref = block_ref[bid]
            for inst in b["insts"]:
                op = inst["op"]
                if "id" in inst:
                    self.inst_of[inst["id"]] = inst
                if op == "phi":
                    vals = []
                    for inc_ in inst["incoming"]:
                        if (inc_["bb"], bid) not in edge_ref:
                            continue
                        vals.append(self.operand(inc_["v"], edge_ref[(inc_["bb"], bid)]))
                    doms = [edge_ref[(inc_["bb"], bid)] for inc_ in inst["incoming"] if (inc_["bb"], bid) in edge_ref]
                    self.val[inst["id"]] = self.join(vals, doms)
                elif op in ("add", "sub", "mul", "udiv", "sdiv", "urem", "srem", "and", "or", "xor", "shl", "lshr", "ashr"):
                    a, c = self.operand(inst["ops"][0], ref), self.operand(inst["ops"][1], ref)
                    self.val[inst["id"]] = self.binop_int(inst, op, a, c)
                elif op in ("fadd", "fsub", "fmul", "fdiv"):
                    a, c = self.operand(inst["ops"][0], ref), self.operand(inst["ops"][1], ref)
                    self.val[inst["id"]] = self.fbin(inst, op, a, c)
                elif op == "fneg":
                    a = self.operand(inst["ops"][0], ref)
                    z = const_av("float", a.bits, 0.0, self.inputs)
                    self.val[inst["id"]] = self.fbin(dict(inst, op="fsub"), "fsub", z, a)
                elif op == "bitcast" and inst["ops"][0]["k"] == "undef":
                    self.val[inst["id"]] = self.top_float(inst["type"]["bits"]) if inst["type"]["k"] == "float" else self.top_int(inst["type"].get("bits", 64))
                elif op in ("zext", "sext", "trunc", "uitofp", "sitofp", "fptoui", "fptosi", "fpext", "fptrunc", "bitcast"):
                    self.val[inst["id"]] = self.cast(inst, op, self.operand(inst["ops"][0], ref))
                elif op in ("icmp", "fcmp"):
                    a, c = self.operand(inst["ops"][0], ref), self.operand(inst["ops"][1], ref)
                    r, _, _ = self.cmp_const(inst, a, c)
                    if r is None:
                        self.val[inst["id"]] = self.top_int(1)
                    else:
                        self.val[inst["id"]] = const_av("int", 1, 1 if r else 0, self.inputs)
                elif op == "select":
                    c = self.operand(inst["ops"][0], ref)
                    ci = self.inst_of.get(inst["ops"][0].get("id"))
                    if c.is_const() and not c.top:
                        self.val[inst["id"]] = self.operand(inst["ops"][1 if c.lo else 2], ref)
                    else:
                        rt = self.refine_edge(ci, True, ref)
                        rf = self.refine_edge(ci, False, ref)
                        vals, doms = [], []
                        if not rt.get("__dead__"):
                            vals.append(self.reeval(inst["ops"][1], rt))
                            doms.append(rt)
                        if not rf.get("__dead__"):
                            vals.append(self.reeval(inst["ops"][2], rf))
                            doms.append(rf)
                        self.val[inst["id"]] = self.join(vals, doms)
                elif op == "br":
                    if len(inst["ops"]) == 1:
                        t = inst["ops"][0]["id"]
                        edge_ref[(bid, t)] = ref
                        reach[t] = True
                    else:
                        c = self.operand(inst["ops"][0], ref)
                        ci = self.inst_of.get(inst["ops"][0].get("id"))
                        # LLVM operand order: cond, false-dest, true-dest
                        tf, tt = inst["ops"][1]["id"], inst["ops"][2]["id"]
                        if c.is_const() and not c.top:
                            t = tt if c.lo else tf
                            edge_ref[(bid, t)] = ref
                            reach[t] = True
                        else:
                            rt = self.refine_edge(ci, True, ref)
                            rf = self.refine_edge(ci, False, ref)
                            if not rt.get("__dead__"):
                                edge_ref[(bid, tt)] = rt
                                reach[tt] = True
                            if not rf.get("__dead__"):
                                edge_ref[(bid, tf)] = rf
                                reach[tf] = True
                elif op == "switch":
                    sel = self.operand(inst["ops"][0], ref)
                    self.switch_check(inst, sel)
                    for c in inst["cases"]:
                        edge_ref[(bid, c["bb"])] = ref
                        reach[c["bb"]] = True
                    edge_ref[(bid, inst["default"])] = ref
                    reach[inst["default"]] = True
                elif op == "ret":
                    if inst["ops"]:
                        rets.append(self.operand(inst["ops"][0], ref))
                elif op == "call":
                    cal = inst.get("callee", "")
                    if cal.startswith("llvm.experimental.noalias") or cal.startswith("llvm.dbg") or cal.startswith("llvm.lifetime"):
                        continue
                    v = self.call(inst, ref)
                    if "id" in inst:
                        self.val[inst["id"]] = v
                elif op == "unreachable":
                    pass
                elif op in ("getelementptr", "alloca", "inttoptr") or (op in ("bitcast", "load", "phi", "select") and inst["type"].get("k") == "ptr"):
                    self.val[inst["id"]] = self.top_int(64)
                elif op == "store":
                    pass
                elif op == "load":
                    self.val[inst["id"]] = self.top_float(inst["type"]["bits"]) if inst["type"].get("k") == "float" else self.top_int(inst["type"].get("bits", 64))
                elif op == "ptrtoint":
                    self.val[inst["id"]] = self.top_int(inst["type"].get("bits", 64))
                else:
                    raise Unsupported("opcode " + op)
        self.ret = self.join(rets) if rets else None
        return self.ret

    def reeval(self, o, refine):
        """value of operand o under extra refinements: recompute the defining chain when it depends on refined ids"""
        if o["k"] not in ("v",):
            return self.operand(o, refine)
        if not refine:
            return self.operand(o, refine)
        memo = {}

        def go(i):
            if i in refine:
                return refine[i]
            if i in memo:
                return memo[i]
            inst = self.inst_of.get(i)
            if inst is not None and inst["op"] == "select" and any(self.depends(x["id"], refine) for x in inst.get("ops", []) if x["k"] in ("v", "arg")):
                # a select inside a refined region (nested clamps): decide or split its condition under the refinement
                ci = self.inst_of.get(inst["ops"][0].get("id"))
                r = None
                if ci is not None and ci["op"] in ("icmp", "fcmp"):
                    try:
                        a, c = self.operand(ci["ops"][0], refine), self.operand(ci["ops"][1], refine)
                        r, _, _ = self.cmp_const(ci, a, c) if not (a.top or c.top) else (None, None, None)
                    except Unsupported:
                        r = None
                if r is not None:
                    v = go(inst["ops"][1 if r else 2]["id"]) if inst["ops"][1 if r else 2]["k"] == "v" else self.operand(inst["ops"][1 if r else 2], refine)
                    memo[i] = v
                    return v
                rt, rf = self.refine_edge(ci, True, refine), self.refine_edge(ci, False, refine)
                vals, doms = [], []
                for arm, rr in ((1, rt), (2, rf)):
                    if rr.get("__dead__"):
                        continue
                    o2 = inst["ops"][arm]
                    vals.append(self.reeval(o2, rr) if o2["k"] == "v" else self.operand(o2, rr))
                    doms.append(rr)
                v = self.join(vals, doms) if vals else self.val.get(i)
                memo[i] = v
                return v
            if inst is None or inst["op"] in ("phi", "select", "call", "icmp", "fcmp", "load"):
                return self.val.get(i)
            deps = [x["id"] for x in inst.get("ops", []) if x["k"] in ("v", "arg")]
            if not any(self.depends(d, refine) for d in deps):
                return self.val.get(i)
            sub = dict(refine)
            for d in deps:
                if d in self.inst_of:
                    sub[d] = go(d)
            saved = len(self.events)
            op = inst["op"]
            if op in ("add", "sub", "mul", "udiv", "sdiv", "urem", "srem", "and", "or", "xor", "shl", "lshr", "ashr"):
                r = self.binop_int(inst, op, self.operand(inst["ops"][0], sub), self.operand(inst["ops"][1], sub))
            elif op in ("fadd", "fsub", "fmul", "fdiv"):
                r = self.fbin(inst, op, self.operand(inst["ops"][0], sub), self.operand(inst["ops"][1], sub))
            else:
                r = self.cast(inst, op, self.operand(inst["ops"][0], sub))
            # events under refinement replace the unrefined ones for this instruction
            new = self.events[saved:]
            del self.events[saved:]
            self.refined_events.setdefault(i, []).extend(new)
            memo[i] = r
            return r
        self.refined_events = getattr(self, "refined_events", {})
        return go(o["id"])

    def depends(self, i, refine, seen=None):
        if i in refine:
            return True
        seen = seen if seen is not None else set()
        if i in seen:
            return False
        seen.add(i)
        inst = self.inst_of.get(i)
        if inst is None:
            return False
        return any(self.depends(x["id"], refine, seen) for x in inst.get("ops", []) if x["k"] in ("v", "arg"))

    def switch_check(self, inst, sel):
        cases = sorted(c["val"] for c in inst["cases"])
        dflt = self.block[inst["default"]]
        default_is_trivial = False
        inst["_sel_range"] = (sel.lo, sel.hi)
        self.switch_info = getattr(self, "switch_info", [])
        self.switch_info.append({"inst": inst, "cases": cases, "lo": sel.lo, "hi": sel.hi, "top": sel.top,
                                 "lo_w": sel.lo_w, "hi_w": sel.hi_w})

    def call(self, inst, ref):
        cal = inst.get("callee", "")
        t = inst["type"]
        args = inst["ops"][:inst["nargs"]]
        if cal in ("llvm.floor.f32", "llvm.floor.f64", "floorf", "floor", "llvm.ceil.f32", "llvm.ceil.f64",
                   "llvm.round.f32", "llvm.round.f64", "llvm.trunc.f32", "llvm.trunc.f64"):
            a = self.operand(args[0], ref)
            if a.top:
                return self.top_float(t["bits"])
            f = {"floor": math.floor, "ceil": math.ceil, "round": round, "trunc": math.trunc}[[k for k in ("floor", "ceil", "round", "trunc") if k in cal][0]]
            return AV("float", t["bits"], float(f(a.lo)), float(f(a.hi)), a.lo_w, a.hi_w, a.mono, None, None, None)
        if cal in ("llvm.fabs.f32", "llvm.fabs.f64", "fabsf", "fabs"):
            a = self.operand(args[0], ref)
            if a.top:
                return self.top_float(t["bits"])
            if a.lo >= 0:
                return a
            lo = 0.0 if a.lo <= 0 <= a.hi else min(abs(a.lo), abs(a.hi))
            return AV("float", t["bits"], lo, max(abs(a.lo), abs(a.hi)), None, None, {i: None for i in self.inputs})
        if t["k"] == "int":
            return self.top_int(t["bits"])
        if t["k"] == "float":
            return self.top_float(t["bits"])
        if t["k"] == "void":
            return None
        raise Unsupported("call to %s returning %s" % (cal, t["s"]))

    def final_events(self):
        """Events of instructions that are only reachable through a select arm are taken from the
        evaluation under that arm's condition (LLVM speculates such instructions; an out-of-range
        result there is poison that the select discards, not behaviour of the source program)."""
        refined = getattr(self, "refined_events", {})
        if not refined:
            return list(self.events)
        uses = {}
        for b in self.fn["blocks"]:
            for inst in b["insts"]:
                for n, o in enumerate(inst.get("ops", [])):
                    if o["k"] == "v":
                        uses.setdefault(o["id"], []).append((inst, n))
                for inc in inst.get("incoming", []):
                    if inc["v"]["k"] == "v":
                        uses.setdefault(inc["v"]["id"], []).append((inst, -1))
        memo = {}

        def strict(i):
            if i in memo:
                return memo[i]
            memo[i] = False
            r = False
            for inst, n in uses.get(i, []):
                if inst["op"] == "select" and n in (1, 2):
                    continue
                if "id" not in inst or inst["op"] in ("phi", "select", "call", "icmp", "fcmp"):
                    r = True
                    break
                if strict(inst["id"]):
                    r = True
                    break
            memo[i] = r
            return r
        out = []
        replaced = set()
        for e in self.events:
            i = e.inst.get("id")
            if i in refined and not strict(i):
                if i not in replaced:
                    replaced.add(i)
                    # keep the last evaluation per arm (each select arm evaluated once)
                    out.extend(refined[i])
                continue
            out.append(e)
        return out

    def topo(self, blocks):
        succ = {b["id"]: b["succ"] for b in blocks}
        state, order = {}, []

        def dfs(u):
            state[u] = 1
            for v in succ[u]:
                if state.get(v) == 1:
                    raise Unsupported("loop in CFG (back edge %s -> %s)" % (u, v))
                if v not in state:
                    dfs(v)
            state[u] = 2
            order.append(u)
        import sys
        sys.setrecursionlimit(10000)
        dfs(blocks[0]["id"])
        return order[::-1]
