"""C18 toolbox colour spaces (decided part): hue-sector dispatch covers its selector's whole range (no output left
uninitialised), pass-through channels, luminance weights, access by colour name."""
import os, re
from fractions import Fraction as Fr
from . import common as C
from .ir.num import NumInterp, Unsupported
from .pairs import Pair, run_pairs
from .p06 import inner_fn, accept_inconclusive
from .p09 import walk
from .ast import rules as R

LEVEL = "other"
EXPLANATION = ("Static analysis of the toolbox converters: (S1) for every switch in the inlined hsv/hsl -> rgb converters the "
               "selector's value range (interval domain with attained bounds, from hue/saturation/value in [0,1]) must be covered "
               "by the case labels, or the default edge must not leave an output undefined (phi with undef); an uncovered value "
               "with an attained witness is a violation; every float->int conversion inside is in range; (S3) gray_alpha -> rgba "
               "carries alpha and copies channel_convert(gray), gray_alpha -> rgb/gray == convert(gray*alpha) (value numbering); "
               "(S4) the double-precision luminance functor has the core weights 0.30/0.59/0.11 (affine form); (S5) AST: every "
               "toolbox converter reaches channels by colour name only. Not decided: round-trip tolerance and intermediate "
               "ranges of rgb->hsv/hsl/xyz/lab (relational floating-point reasoning).")
W = "include/boost/gil/extension/toolbox/color_spaces/"
HDR = '''#include "vf_common.hpp"
#include <boost/gil/extension/toolbox/color_spaces.hpp>
#include <boost/gil/extension/toolbox/color_converters.hpp>
#include <boost/gil/extension/toolbox/color_spaces/ycbcr.hpp>
using namespace vf;
'''


def run(rep):
    C.need_tools(C.IRDUMP, C.ASTDUMP)
    wd = C.workdir("C18num")
    L = [HDR, 'extern "C" {']
    obl = []
    for sp, ns, cols in (("hsv", "hsv_color_space", ("hue_t", "saturation_t", "value_t")), ("hsl", "hsl_color_space", ("hue_t", "saturation_t", "lightness_t"))):
        for dch, raw in (("rgb8_pixel_t", "std::uint8_t"), ("rgb16_pixel_t", "std::uint16_t"), ("rgb32f_pixel_t", "float")):
            for col in ("red_t", "green_t", "blue_t"):
                nm = "w_%s_%s_%s" % (sp, dch, col)
                L.append("%s %s(float h, float s, float v){ %s32f_pixel_t p; get_color(p, %s::%s()) = h; get_color(p, %s::%s()) = s; get_color(p, %s::%s()) = v; %s d; color_convert(p, d); return (%s)get_color(d, %s()); }"
                         % (raw, nm, sp, ns, cols[0], ns, cols[1], ns, cols[2], dch, raw, col))
                obl.append((nm, sp, dch, col))
    L.append("double w_lum(double r, double g, double b){ return (double)boost::gil::detail::rgb_to_luminance<double>(r, g, b); }")
    L.append("}")
    src = os.path.join(wd, "c18_num.cpp")
    open(src, "w").write("\n".join(L) + "\n")
    bc = C.emit_ir(src, src[:-4] + ".bc")
    dump = C.irdump(bc, src[:-4] + ".json")
    fns = {f["name"]: f for f in dump["functions"]}
    rep.trusted += ["clang front end, LLVM inliner/SROA/mem2reg", "harness/ir/num.py", "documented ranges: hue, saturation, value/lightness in [0,1]"]
    rep.rule("S1 every switch selector value in its range has a case, or the switch has default code of its own")
    reported = set()
    for nm, sp, dch, col in obl:
        fn = fns[nm]
        what = "%s -> %s [%s]" % (sp, dch, col)
        rep.count("converters")
        try:
            it = NumInterp(fn, {"a0": ("float", 32, 0.0, 1.0), "a1": ("float", 32, 0.0, 1.0), "a2": ("float", 32, 0.0, 1.0)})
            it.run()
        except Unsupported as e:
            rep.fail_analysis("%s: %s" % (what, e))
            continue
        for sw in getattr(it, "switch_info", []):
            inst = sw["inst"]
            rep.count("switches")
            key = "switch:%s:%s" % (what, inner_fn_of(inst))
            where = where_of(inst)
            cases = set(sw["cases"])
            # does the default edge leave something undefined?
            dflt = it.block[inst["default"]]
            sw_block = [b["id"] for b in fn["blocks"] if inst in b["insts"]]
            case_blocks = set(c["bb"] for c in inst["cases"])
            # the source has no default label when the default edge goes straight to the block where the cases join
            undef_default = any(inst["default"] in it.block[cb]["succ"] for cb in case_blocks if cb != inst["default"]) or \
                any(i["op"] == "phi" and any(inc["v"]["k"] == "undef" for inc in i["incoming"]) for i in dflt["insts"])
            if sw["top"]:
                if undef_default:
                    rep.incon("S1-switch", key, "selector range unknown and the default edge leaves a value undefined")
                else:
                    rep.ok("S1-switch", key, "explicit default")
                continue
            lo, hi = int(sw["lo"]), int(sw["hi"])
            missing = [v for v in range(lo, hi + 1) if v not in cases] if hi - lo < 4096 else ["range too wide"]
            if not missing or not undef_default:
                rep.ok("S1-switch", key, {"selector_range": [lo, hi], "cases": sorted(cases), "default_defines_outputs": not undef_default})
            else:
                wit = None
                if hi in missing and sw["hi_w"] is not None:
                    wit = {"input": sw["hi_w"], "selector": hi}
                elif lo in missing and sw["lo_w"] is not None:
                    wit = {"input": sw["lo_w"], "selector": lo}
                if not wit:
                    # confirm feasibility of an uncovered selector value by constant propagation of candidate hues
                    # (sector mid-points and boundaries); this only produces the witness, the verdict "uncovered value
                    # inside the selector's range" is the interval analysis above
                    for k in range(0, 25):
                        hval = k / 24.0
                        try:
                            it4 = NumInterp(fn, {"a0": ("float", 32, hval, hval), "a1": ("float", 32, 0.5, 0.5), "a2": ("float", 32, 0.5, 0.5)})
                            it4.run()
                        except Unsupported:
                            continue
                        for sw4 in getattr(it4, "switch_info", []):
                            if sw4["inst"].get("dbg") == inst.get("dbg") and not sw4["top"] and sw4["lo"] == sw4["hi"] and int(sw4["lo"]) in missing:
                                wit = {"input": {"a0": hval, "a1": 0.5, "a2": 0.5}, "selector": int(sw4["lo"])}
                        if wit:
                            break
                if wit:
                    key = "switch:%s -> rgb:%s" % (sp, inner_fn_of(inst))
                    if key in reported:
                        continue
                    reported.add(key)
                    rep.violation("S1-switch", key, where, {"selector_range": [lo, hi], "cases": sorted(cases), "uncovered": missing, "witness": wit,
                                                             "effect": "no case is executed: red, green, blue keep their indeterminate initial values"})
                else:
                    rep.incon("S1-switch", key, "uncovered selector values %s but no attained witness" % missing)
    # S7 gamut: float -> integer channel conversions of xyz -> rgb are in range for every xyz in [0,1]^3
    gamut(rep, wd)
    # S4 luminance weights
    rep.rule("S4 detail::rgb_to_luminance_fn<double,double,double,G> has affine coefficients 0.30, 0.59, 0.11")
    try:
        it = NumInterp(fns["w_lum"], {"a0": ("float", 64, 0.0, 1.0), "a1": ("float", 64, 0.0, 1.0), "a2": ("float", 64, 0.0, 1.0)})
        r = it.run()
        want = {"a0": 0.30, "a1": 0.59, "a2": 0.11}
        rep.count("luminance")
        if r is not None and r.aff is not None and all(abs(float(r.aff.get(k, 0)) - v) < 1e-6 for k, v in want.items()) and set(r.aff) <= set(want):
            rep.ok("S4-luminance", "rgb_to_luminance<double>", {k: float(v) for k, v in r.aff.items()})
        elif r is not None and r.aff is not None:
            rep.violation("S4-luminance", "S4:rgb_to_luminance<double>:weights", "include/boost/gil/extension/toolbox/color_converters/rgb_to_luminance.hpp",
                          {"weights": {k: float(v) for k, v in r.aff.items()}, "expected": want})
        else:
            rep.incon("S4-luminance", "rgb_to_luminance<double>", "no affine form")
    except (Unsupported, KeyError) as e:
        rep.incon("S4-luminance", "rgb_to_luminance<double>", str(e))
    passthrough(rep)
    ast_rules(rep)
    rep.floor("converters", 18)
    rep.floor("switches", 9)
    accept_inconclusive(rep, "c18_inconclusive.json")


def inner_fn_of(inst):
    d = inst.get("dbg") or []
    for x in d:
        if x["file"].startswith(C.REPO):
            return (x.get("fn") or "?").split("<")[0] + "@" + os.path.basename(x["file"])
    return "?"


def where_of(inst):
    d = inst.get("dbg") or []
    for x in d:
        if x["file"].startswith(C.REPO):
            return "%s:%d" % (C.repo_rel(x["file"]), x["line"])
    return W


def passthrough(rep):
    pairs = []
    par = "std::uint8_t g, std::uint8_t a"
    src = "gray_alpha8_pixel_t p; get_color(p, gray_color_t()) = g; get_color(p, alpha_t()) = a;"

    def conv(dt, col):
        return "[&]{ %s %s d; color_convert(p, d); return (iptr)get_color(d, %s()); }()" % (src, dt, col)
    for dt, ch in (("rgba8_pixel_t", "std::uint8_t"), ("rgba16_pixel_t", "std::uint16_t")):
        pairs.append(Pair(par, conv(dt, "alpha_t"), "(iptr)channel_convert<%s>(a)" % ch, "S3-passthrough", "gray_alpha8 -> %s alpha == channel_convert(alpha)" % dt, "S3:gray_alpha:%s:alpha" % dt, W + "gray_alpha.hpp"))
        for col in ("red_t", "green_t", "blue_t"):
            pairs.append(Pair(par, conv(dt, col), "(iptr)channel_convert<%s>(g)" % ch, "S3-passthrough", "gray_alpha8 -> %s %s == channel_convert(gray)" % (dt, col), "S3:gray_alpha:%s:%s" % (dt, col), W + "gray_alpha.hpp"))
    for dt, ch, cols in (("rgb8_pixel_t", "std::uint8_t", ("red_t", "green_t", "blue_t")), ("gray8_pixel_t", "std::uint8_t", ("gray_color_t",)), ("rgb16_pixel_t", "std::uint16_t", ("red_t", "green_t", "blue_t"))):
        for col in cols:
            pairs.append(Pair(par, conv(dt, col), "(iptr)channel_convert<%s>(channel_multiply(g, a))" % ch, "S3-passthrough", "gray_alpha8 -> %s %s == convert(gray*alpha)" % (dt, col), "S3:gray_alpha:%s:%s" % (dt, col), W + "gray_alpha.hpp"))
    # gray -> rgba (toolbox converter): colours = convert(gray), alpha = max
    par1 = "std::uint8_t g, std::uint8_t a"
    for col in ("red_t", "green_t", "blue_t"):
        pairs.append(Pair(par1, "[&]{ gray8_pixel_t p(g); rgba8_pixel_t d; color_convert(p, d); return (iptr)get_color(d, %s()); }()" % col, "(iptr)g", "S3-passthrough", "gray8 -> rgba8 %s == gray" % col, "S3:gray_to_rgba:%s" % col, "include/boost/gil/extension/toolbox/color_converters/gray_to_rgba.hpp"))
    pairs.append(Pair(par1, "[&]{ gray8_pixel_t p(g); rgba8_pixel_t d; color_convert(p, d); return (iptr)get_color(d, alpha_t()); }()", "(iptr)255", "S3-passthrough", "gray8 -> rgba8 alpha == max", "S3:gray_to_rgba:alpha", "include/boost/gil/extension/toolbox/color_converters/gray_to_rgba.hpp"))
    # cmyka -> rgba: the alpha channel is carried over like the one of gray_alpha
    srcc = "cmyka8_pixel_t p(g, g, g, g, a);"
    for dt, ch in (("rgba8_pixel_t", "std::uint8_t"), ("rgba16_pixel_t", "std::uint16_t")):
        pairs.append(Pair(par, "[&]{ %s %s d; color_convert(p, d); return (iptr)get_color(d, alpha_t()); }()" % (srcc, dt), "(iptr)channel_convert<%s>(a)" % ch, "S3-passthrough",
                          "cmyka8 -> %s alpha == channel_convert(alpha)" % dt, "S3:cmyka:%s:alpha" % dt, W + "cmyka.hpp"))
    rep.rule("S3 pass-through channels: equal value-numbering normal forms")
    run_pairs(rep, "C18", pairs, header=HDR, nchunks=4)
    rep.floor("obligations:S3-passthrough", 15)


def usable_witness(rep, wd):
    """S10: compile witness: the alpha-first gray_alpha pixel family is usable like the gray-first one"""
    rep.rule("S10 witness: get_color and color_convert instantiate for alpha_gray pixels (the permuted layout of gray_alpha), 8 and 16 bit, into rgba/rgb/gray")
    src = os.path.join(wd, "c18_witness.cpp")
    open(src, "w").write(HDR + '''
void witness(){
  alpha_gray8_pixel_t a; get_color(a, gray_color_t()) = 10; get_color(a, alpha_t()) = 20;
  rgba8_pixel_t r; color_convert(a, r); rgb8_pixel_t q; color_convert(a, q); gray8_pixel_t g; color_convert(a, g);
  alpha_gray16_pixel_t b; get_color(b, alpha_t()) = 7; rgba16_pixel_t w; color_convert(b, w);
  static_assert(std::is_same<color_space_type<alpha_gray8_pixel_t>::type, gray_alpha_t>::value, "alpha_gray pixels have the gray_alpha color space");
}
''')
    rc, err, cmd = C.syntax_only(src, compiler=C.CLANGXX, extra=["-ftemplate-backtrace-limit=0"])
    rep.count("obligations:S10")
    if rc == 0:
        rep.ok("S10-usable", "alpha_gray pixel family: get_color / color_convert instantiate", "4 conversions, 3 channel accesses, 1 static_assert")
        return
    seen = set()
    for e in C.parse_errors(err)[:20]:
        loc = "%s:%s" % (C.repo_rel(e["file"]), e["line"])
        key = "S10:%s:%s" % (loc if e["file"].startswith(C.REPO) else "witness", re.sub(r"'[^']{60,}'", "'...'", e["msg"])[:100])
        if key in seen:
            continue
        seen.add(key)
        rep.violation("S10-usable", key, loc, {"error": e["msg"][:300]})


def ast_rules(rep):
    wd = C.workdir("C18ast")
    usable_witness(rep, wd)
    src = os.path.join(wd, "c18_ast.cpp")
    open(src, "w").write(HDR + '''
template <class S, class D> void cc(){ S s; D d; color_convert(s, d); }
void inst(){
  cc<rgb8_pixel_t,hsv32f_pixel_t>(); cc<hsv32f_pixel_t,rgb8_pixel_t>(); cc<rgb8_pixel_t,hsl32f_pixel_t>(); cc<hsl32f_pixel_t,rgb8_pixel_t>();
  cc<rgb8_pixel_t,xyz32f_pixel_t>(); cc<xyz32f_pixel_t,rgb8_pixel_t>(); cc<rgb8_pixel_t,lab32f_pixel_t>(); cc<lab32f_pixel_t,rgb8_pixel_t>();
  cc<rgb8_pixel_t,ycbcr_601_8_pixel_t>(); cc<ycbcr_601_8_pixel_t,rgb8_pixel_t>(); cc<rgb8_pixel_t,ycbcr_709_8_pixel_t>(); cc<ycbcr_709_8_pixel_t,rgb8_pixel_t>(); cc<ycbcr_601_8_pixel_t,rgb16_pixel_t>(); cc<gray_alpha8_pixel_t,rgba8_pixel_t>(); cc<gray_alpha8_pixel_t,rgb8_pixel_t>();
  cc<gray_alpha8_pixel_t,gray8_pixel_t>(); cc<cmyka8_pixel_t,rgba8_pixel_t>(); cc<ycbcr_601_8_pixel_t,rgb8s_pixel_t>(); cc<ycbcr_709_8_pixel_t,rgb8s_pixel_t>(); cc<gray8_pixel_t,rgba8_pixel_t>();
}
''')
    d = C.astdump(src, src[:-4] + ".json", ["^boost::gil::default_color_converter_impl::"], extra=[])
    transfer_pairs(rep, d["functions"])
    matrix_pairs(rep, d["functions"])
    clamp_subjects(rep, d["functions"])
    clamped_stores(rep, d["functions"])
    d["functions"] = [f for f in d["functions"] if f["name"].endswith("operator()")]
    rep.rule("S5 toolbox converters reach channels only through get_color/static_for_each (no at_c, semantic_at_c, dynamic_at_c, operator[])")
    POS = ("boost::gil::at_c", "boost::gil::semantic_at_c", "boost::gil::dynamic_at_c")
    for f in d["functions"]:
        if "toolbox" not in f["file"]:
            continue
        bad = []

        def chk(n):
            if n.get("k") == "Call":
                nm = n["callee"]["name"]
                if nm in POS or (n.get("op") == "[]" and "pixel" in nm):
                    bad.append((nm, n.get("line")))
        walk(f["body"], chk)
        rep.count("obligations:S5")
        key = "S5:%s:%s" % (os.path.basename(f["file"]), f["full"].split("default_color_converter_impl")[1][:60])
        if bad:
            rep.violation("S5-by-name", key, "%s:%s" % (C.repo_rel(f["file"]), f["line"]), {"positional_access": bad[:5]})
        else:
            rep.ok("S5-by-name", key, "only named access")
    rep.floor("obligations:S5", 12)
    grey_thresholds(rep, d["functions"])
    fraction_of_unreduced_hue(rep, d["functions"])


# ---------------------------------------------------------------------------------------------
# S8: piecewise transfer functions and their inverses
class Form:
    """m * (a*s + b)**e + c  in the one variable s"""
    def __init__(self, m, a, b, e, c):
        self.m, self.a, self.b, self.e, self.c = float(m), float(a), float(b), float(e), float(c)

    def lin(self):
        return self.e == 1.0

    def norm(self):
        if self.lin():
            return Form(1, self.m * self.a, self.m * self.b + self.c, 1, 0)
        if self.m > 0:
            k = self.m ** (1.0 / self.e)
            return Form(1, k * self.a, k * self.b, self.e, self.c)
        return self

    def at(self, s):
        base = self.a * s + self.b
        if base < 0 and self.e != int(self.e):
            return float("nan")
        return self.m * base ** self.e + self.c

    def inverse(self):
        # y = m*(a s + b)^e + c   =>   s = (1/a) * ((1/m) y - c/m)^(1/e) - b/a
        return Form(1.0 / self.a, 1.0 / self.m, -self.c / self.m, 1.0 / self.e, -self.b / self.a).norm()

    def close(self, o, tol=2e-4):
        x, y = self.norm(), o.norm()
        return all(abs(p - q) <= tol * max(1.0, abs(p), abs(q)) for p, q in zip((x.m, x.a, x.b, x.e, x.c), (y.m, y.a, y.b, y.e, y.c)))

    def __repr__(self):
        x = self.norm()
        return "%.6g*s%+.6g" % (x.a, x.b) if x.lin() else "(%.6g*s%+.6g)^%.6g%+.6g" % (x.a, x.b, x.e, x.c)


class NoForm(Exception):
    pass


def form_of(n, var):
    """expression over the scalar `var` -> Form or float"""
    n = R.strip(n)
    k = n.get("k")
    if k in ("Float", "Int"):
        return float(n["v"])
    if "const" in n and k not in ("DeclRef", "Member") and R.is_lit(str(n["const"])):
        return float(n["const"])
    if k == "DeclRef" and n.get("name") == var:
        return Form(1, 1, 0, 1, 0)
    if k == "Call":
        nm = n["callee"]["name"]
        if nm.endswith("::operator float") or nm.endswith("::operator double"):
            return form_of(n.get("obj") or n["args"][0], var)
        if nm.split("::")[-1] in ("powf", "pow") and len(n["args"]) == 2:
            b, e = form_of(n["args"][0], var), form_of(n["args"][1], var)
            if isinstance(e, Form):
                raise NoForm("variable exponent")
            if not isinstance(b, Form):
                return b ** e
            b = b.norm()
            if not b.lin():
                raise NoForm("power of a power")
            return Form(1, b.a, b.b, e, 0)
        if nm.split("::")[-1] in ("scoped_channel_value", "float32_t") and len(n["args"]) == 1:
            return form_of(n["args"][0], var)
        raise NoForm("call %s" % nm)
    if k in ("Construct", "Temporary", "FunctionalCast") and len(n.get("args", [])) == 1:
        return form_of(n["args"][0], var)
    if k == "Unary" and n.get("op") == "-":
        v = form_of(n["e"], var)
        return -v if not isinstance(v, Form) else Form(-v.m, v.a, v.b, v.e, -v.c)
    if k == "Binary" and n["op"] in ("+", "-", "*", "/"):
        l, r = form_of(n["l"], var), form_of(n["r"], var)
        op = n["op"]
        lf, rf = isinstance(l, Form), isinstance(r, Form)
        if not lf and not rf:
            return {"+": l + r, "-": l - r, "*": l * r, "/": l / r if r else float("nan")}[op]
        if lf and rf:
            raise NoForm("two occurrences of the variable")
        if op == "+":
            f, c = (l, r) if lf else (r, l)
            return Form(f.m, f.a, f.b, f.e, f.c + c)
        if op == "-":
            return Form(l.m, l.a, l.b, l.e, l.c - r) if lf else Form(-r.m, r.a, r.b, r.e, l - r.c)
        if op == "*":
            f, c = (l, r) if lf else (r, l)
            return Form(f.m * c, f.a, f.b, f.e, f.c * c)
        if lf:
            return Form(l.m / r, l.a, l.b, l.e, l.c / r)
        raise NoForm("division by the variable")
    raise NoForm("node %s %s" % (k, R.key(n)[:60]))


# ---------------------------------------------------------------------------------------------
# S9: linear colour transforms and their inverses (ycbcr)
CH_RANGE = {"unsigned char": (0.0, 255.0), "signed char": (-128.0, 127.0), "unsigned short": (0.0, 65535.0), "short": (-32768.0, 32767.0),
            "unsigned int": (0.0, 4294967295.0), "int": (-2147483648.0, 2147483647.0), "long": (-9223372036854775808.0, 9223372036854775807.0)}


def aff_add(a, b, k=1.0):
    out = dict(a)
    for v, c in b.items():
        out[v] = out.get(v, 0.0) + k * c
    return out


def aff_of(n, notes):
    """expression over get_color(src, X) -> {X: coefficient, 1: constant}; channel_convert between integral types is the affine range map"""
    n = R.strip(n)
    k = n.get("k")
    if k in ("Float", "Int"):
        return {1: float(n["v"])}
    if "const" in n and k not in ("DeclRef", "Member") and R.is_lit(str(n["const"])):
        return {1: float(n["const"])}
    if k in ("Construct", "FunctionalCast", "Temporary") and len(n.get("args", [])) == 1:
        return aff_of(n["args"][0], notes)
    if k == "Unary" and n.get("op") == "-":
        return {v: -c for v, c in aff_of(n["e"], notes).items()}
    if k == "Binary" and n["op"] in ("+", "-"):
        return aff_add(aff_of(n["l"], notes), aff_of(n["r"], notes), 1.0 if n["op"] == "+" else -1.0)
    if k == "Binary" and n["op"] in ("*", "/", ">>"):
        l, r = aff_of(n["l"], notes), aff_of(n["r"], notes)
        if n["op"] == ">>":
            if set(r) != {1}:
                raise NoForm("variable shift")
            return {v: c / (2.0 ** r[1]) for v, c in l.items()}
        if n["op"] == "/":
            if set(r) != {1}:
                raise NoForm("division by a variable")
            return {v: c / r[1] for v, c in l.items()}
        if set(l) <= {1}:
            return {v: c * l.get(1, 0.0) for v, c in r.items()}
        if set(r) <= {1}:
            return {v: c * r.get(1, 0.0) for v, c in l.items()}
        raise NoForm("product of two variables")
    if k == "Call":
        nm = n["callee"]["name"]
        short = nm.split("::")[-1]
        if short == "get_color":
            tag = re.sub(r"\{\}$", "", R.key(n["args"][1])).split("::")[-1]
            return {tag: 1.0}
        if short.startswith("operator ") and (n.get("obj") is not None or n.get("args")):
            return aff_of(n.get("obj") or n["args"][0], notes)
        if short == "clamp" and len(n["args"]) == 3:
            notes.append("clamp(%s,%s)" % (R.key(n["args"][1]), R.key(n["args"][2])))
            return aff_of(n["args"][0], notes)
        if short == "channel_convert" and len(n["args"]) == 1:
            m = re.search(r"channel_convert<(.*)>$", n["callee"].get("full", ""))
            inner = aff_of(n["args"][0], notes)
            if m:
                parts = [x.strip() for x in m.group(1).rsplit(",", 1)] if "," in m.group(1) else [m.group(1).strip(), ""]
                dst, src = parts[0], parts[1] if len(parts) > 1 else ""
                src = src.replace("const ", "").replace("&", "").strip()
                dst = dst.replace("const ", "").replace("&", "").strip()
                if src == dst or src == "":
                    return inner
                if src in CH_RANGE and dst in CH_RANGE:
                    (sl, sh), (dl, dh) = CH_RANGE[src], CH_RANGE[dst]
                    k_ = (dh - dl) / (sh - sl)
                    notes.append("channel_convert<%s>(%s): range map with slope %.3g" % (dst, src, k_))
                    out = {v: c * k_ for v, c in inner.items()}
                    out[1] = out.get(1, 0.0) - sl * k_ + dl
                    return out
            raise NoForm("channel_convert %s" % n["callee"].get("full", "")[-80:])
        raise NoForm("call %s" % nm)
    raise NoForm("node %s %s" % (k, R.key(n)[:60]))


def matrix_pairs(rep, fns):
    rep.rule("S9 ycbcr (601 and 709): the rgb->ycbcr and ycbcr->rgb converters are extracted from the AST as affine maps over the colour channels (named values inlined, "
             "channel_convert between integral types as the affine range map, >>8 as /256); their composition must be the identity: coefficients within 0.02, "
             "constants within 1.5 levels, and every channel narrowed into an 8-bit level is clamped first; a refutation carries the grey (128,128,128) pushed through both closed forms")

    def cls_of(f):
        m = re.match(r"boost::gil::default_color_converter_impl<(.*)>$", f.get("cls", ""))
        if not m:
            return None
        t = m.group(1)
        fam = "601" if "ycbcr_601" in t else ("709" if "ycbcr_709" in t else None)
        if fam is None or "toolbox" not in f.get("file", ""):
            return None
        return fam, ("fwd" if t.lstrip().startswith("boost::mp11::mp_list<boost::gil::red_t") else "inv")
    maps = {}
    for f in fns:
        c = cls_of(f)
        if c is None or f.get("body") is None:
            continue
        g = R.canonize(f)
        stores = {}
        notes = []
        try:
            for k, x, _ in R.effects(g["body"]):
                m = re.match(r"\(get_color\(\$1,(\w+)\{\}\) = ", k)
                if m:
                    stores[m.group(1)] = (aff_of(x.get("r") or x["args"][1], notes), list(notes))
        except NoForm as e:
            maps.setdefault(c + (f["name"].split("::")[-1] + ":" + str(len(f["full"])),), ("unknown", str(e), f))
            continue
        if len(stores) == 3:
            dpart = f["full"].split("operator()")[-1].split("convert")[-1]
            dstbits = "16" if "unsigned short" in dpart else ("8s" if "pixel<signed char" in dpart.split("pixel<unsigned char")[-1] else "8")
            maps[c + (f["name"].split("::")[-1] + "<" + dstbits + ">",)] = ("ok", stores, f)
    for fam in ("601", "709"):
        fw = [(k, v) for k, v in maps.items() if k[0] == fam and k[1] == "fwd" and v[0] == "ok"]
        inv = [(k, v) for k, v in maps.items() if k[0] == fam and k[1] == "inv"]
        if not fw or not inv:
            rep.fail_analysis("S9: ycbcr_%s converters not instantiated / not recognised (%d forward, %d inverse)" % (fam, len(fw), len(inv)))
            continue
        F = fw[0][1][1]
        for (k, v) in sorted(inv, key=lambda t: t[0][2]):
            rep.count("obligations:S9")
            key = "S9:ycbcr_%s:%s" % (fam, k[2])
            where = R.fn_where(v[2])
            if v[0] != "ok":
                rep.incon("S9-matrix-pair", key, {"unrecognised": v[1]})
                continue
            I = v[1]
            prob, det = [], {}
            scale = 257.0 if k[2].endswith("<16>") else 1.0
            for out in ("red_t", "green_t", "blue_t"):
                if out not in I:
                    prob.append("%s is not stored" % out)
                    continue
                a, notes = I[out]
                comp = {1: a.get(1, 0.0)}
                for var, c in a.items():
                    if var == 1:
                        continue
                    if var not in F:
                        prob.append("%s reads %s, which the forward converter does not produce" % (out, var))
                        continue
                    comp = aff_add(comp, F[var][0], c)
                comp = {q: c / scale for q, c in comp.items()}
                det[out] = {str(q): round(c, 4) for q, c in comp.items()}
                for col in ("red_t", "green_t", "blue_t"):
                    want = 1.0 if col == out else 0.0
                    if abs(comp.get(col, 0.0) - want) > 0.02:
                        prob.append("%s of ycbcr->rgb(rgb->ycbcr) has coefficient %.4f on %s (expected %g)" % (out, comp.get(col, 0.0), col, want))
                # a signed destination depth holds the level v as v + min (channel_convert's range map): the identity has that constant
                off = -128.0 if k[2].endswith("<8s>") else 0.0
                if abs(comp.get(1, 0.0) - off) > 1.5:
                    prob.append("%s of ycbcr->rgb(rgb->ycbcr) has the constant %.2f" % (out, comp.get(1, 0.0)))
                if not any(nn.startswith("clamp(0") for nn in notes):
                    prob.append("%s is narrowed to the destination channel without a clamp to [0,255]" % out)
            if prob:
                grey = {c: (sum(cf * (128.0 if q != 1 else 1.0) for q, cf in d.items())) for c, d in ((o, {(q if q == "1" else q): v_ for q, v_ in det[o].items()}) for o in det)}
                rep.violation("S9-matrix-pair", key, where, {"problems": prob[:8], "composition": det,
                              "witness": "rgb (128,128,128) -> ycbcr -> rgb by the closed forms: %s" % {o: round(sum(cf * (1.0 if q == "1" else 128.0) for q, cf in det[o].items()), 1) for o in det}})
            else:
                rep.ok("S9-matrix-pair", key, det)
    rep.floor("obligations:S9", 3)


def piecewise_of(f):
    """float32_t g(float32_t s) { if (s > T) return hi(s); else return lo(s); }  ->  (T, hi, lo)"""
    if len(f["params"]) != 1:
        raise NoForm("arity")
    var = f["params"][0]["name"]
    ifs = [x for x, _ in R.find(f["body"], lambda x: x.get("k") == "If")]
    if len(ifs) != 1:
        raise NoForm("%d conditionals" % len(ifs))
    c = R.strip(ifs[0]["cond"])
    if c.get("k") != "Binary" or c["op"] not in (">", ">=", "<", "<="):
        raise NoForm("condition %s" % R.key(c))
    l, r = form_of(c["l"], var), form_of(c["r"], var)
    if not (isinstance(l, Form) and l.close(Form(1, 1, 0, 1, 0)) and not isinstance(r, Form)):
        raise NoForm("condition %s" % R.key(c))

    def ret(b):
        rs = [x for x, _ in R.find(b, lambda x: x.get("k") == "Return")] if b else []
        if len(rs) != 1:
            raise NoForm("branch without a single return")
        v = form_of(rs[0]["e"], var)
        if not isinstance(v, Form):
            raise NoForm("constant branch")
        return v
    th, el = ret(ifs[0].get("then")), ret(ifs[0].get("else"))
    return (r, th, el) if c["op"] in (">", ">=") else (r, el, th)


def pw_at(pw, s):
    t, hi, lo = pw
    return hi.at(s) if s > t else lo.at(s)


def transfer_pairs(rep, fns):
    rep.rule("S8 piecewise transfer functions (sRGB companding in rgb<->xyz, the cube root with linear toe in xyz<->lab): the reverse converter applies, to every channel, a "
             "piecewise function whose upper and lower branches are the algebraic inverses of the forward branches (closed forms m*(a*s+b)^e+c extracted from the AST, "
             "compared up to 2e-4) and whose breakpoint is the image of the forward breakpoint, at which the forward branches agree; a refutation carries a value v with G(F(v)) != v")
    RGB, XYZ, LAB = "boost::gil::red_t", "boost::gil::xyz_color_space::x_t", "boost::gil::lab_color_space::luminance_t"

    def cls_of(f):
        m = re.match(r"boost::gil::default_color_converter_impl<boost::mp11::mp_list<([\w:]+),.*?>, boost::mp11::mp_list<([\w:]+),", f.get("cls", ""))
        return (m.group(1), m.group(2)) if m else None
    helpers, ops = {}, {}
    for f in fns:
        c = cls_of(f)
        if c is None or "toolbox" not in f["file"]:
            continue
        if f["name"].endswith("operator()"):
            ops[c] = f
        elif len(f["params"]) == 1 and f.get("body") is not None:
            helpers.setdefault(c, []).append(f)
    PAIRS = [("sRGB companding", (XYZ, RGB), (RGB, XYZ), 1.0), ("lab cube root", (XYZ, LAB), (LAB, XYZ), 1.0)]
    for title, fwd, rev, top in PAIRS:
        rep.count("obligations:S8")
        key = "S8:%s" % title
        try:
            if fwd not in ops or rev not in ops:
                raise NoForm("converter not instantiated")
            where = "%s:%s" % (C.repo_rel(ops[rev]["file"]), ops[rev]["line"])
            def pws(hs):
                out = []
                for h in hs:
                    try:
                        out.append((h, piecewise_of(h)))
                    except NoForm:
                        pass        # other one-argument helpers (the gamut clamp)
                return out
            F = pws(helpers.get(fwd, []))
            if len(F) != 1:
                raise NoForm("%d piecewise helpers in the forward converter" % len(F))
            fh, F = F[0]
            tF, Fhi, Flo = F
            det = {"forward": {"breakpoint": tF, "above": repr(Fhi), "below": repr(Flo), "function": fh["name"].split("::")[-1]}}
            # uses: the forward helper on every channel
            nF = len([1 for c, _ in R.calls_in(ops[fwd]["body"], lambda n: n == fh["name"])])
            G = pws(helpers.get(rev, []))
            if G:
                if len(G) != 1:
                    raise NoForm("%d piecewise helpers in the reverse converter" % len(G))
                gh, Gp = G[0]
                nG = len([1 for c, _ in R.calls_in(ops[rev]["body"], lambda n: n == gh["name"])])
                bare = [R.key(c)[:50] for c, _ in R.calls_in(ops[rev]["body"], lambda n: n.split("::")[-1] in ("powf", "pow", "cbrtf", "cbrt"))]
            else:
                # no helper: the reverse converter applies bare powers
                pws = [c for c, _ in R.calls_in(ops[rev]["body"], lambda n: n.split("::")[-1] in ("powf", "pow"))]
                es = set()
                for c in pws:
                    e = form_of(c["args"][1], "?")
                    es.add(e if not isinstance(e, Form) else None)
                if len(es) != 1 or None in es:
                    raise NoForm("reverse converter without helper and without a uniform power")
                e = es.pop()
                one = Form(1, 1, 0, e, 0)
                Gp, nG, bare, gh = (float("-inf"), one, one), len(pws), [], None
            tG, Ghi, Glo = Gp
            det["reverse"] = {"breakpoint": tG, "above": repr(Ghi), "below": repr(Glo), "function": gh["name"].split("::")[-1] if gh else "(inline power, no branch)"}
            det["applications"] = {"forward": nF, "reverse": nG, "bare powers in the reverse converter": bare}
            prob = []
            if nF != 3 or nG != 3 or bare:
                prob.append("the transfer function is not applied exactly once to each of the three channels")
            if not Ghi.close(Fhi.inverse()):
                prob.append("upper branch %r is not the inverse %r of the forward upper branch" % (Ghi, Fhi.inverse()))
            if not Glo.close(Flo.inverse()):
                prob.append("lower branch %r is not the inverse %r of the forward lower branch" % (Glo, Flo.inverse()))
            yhi, ylo = Fhi.at(tF), Flo.at(tF)
            if abs(yhi - ylo) > 2e-4:
                prob.append("forward branches disagree at the breakpoint: %.6g vs %.6g" % (yhi, ylo))
            if gh is not None and (abs(tG - yhi) > 2e-4 or abs(tG - ylo) > 2e-4):
                prob.append("reverse breakpoint %.6g is not the image %.6g of the forward breakpoint %.6g" % (tG, ylo, tF))
            if not prob:
                rep.ok("S8-transfer-pair", key, det)
                continue
            # witness: a value whose round trip through the closed forms misses by more than the tolerance
            wit = None
            cand = [0.0, tF / 2, tF, tF * 1.0001, tF * 2] + [i / 255.0 * top for i in range(256)]
            if gh is not None:
                for y in (tG, (tG + ylo) / 2, ylo):
                    for inv in (Fhi.inverse(), Flo.inverse()):
                        v = inv.at(y)
                        if v == v and 0 <= v <= top:
                            cand += [v, v * 0.999, v * 1.001]
            worst = 0.0
            for v in cand:
                w = pw_at(Gp, pw_at(F, v))
                if w != w:
                    continue
                if abs(w - v) > max(worst, 2e-4):
                    worst, wit = abs(w - v), {"v": v, "F(v)": pw_at(F, v), "G(F(v))": w}
            det["problems"] = prob
            if wit:
                det["witness"] = wit
                rep.violation("S8-transfer-pair", key, where, det)
            else:
                rep.incon("S8-transfer-pair", key, det)
        except NoForm as e:
            rep.incon("S8-transfer-pair", key, "unrecognised shape: %s" % e)
    rep.floor("obligations:S8", 2)


def fraction_of_unreduced_hue(rep, fns):
    """S13: hue is periodic through the sector index only. The fraction inside a sector is h - floor(h); reducing the floor modulo 6 *before* the subtraction makes
    the fraction 6 at hue 1 (h == 6): t = v(1 + 5s) leaves [0,1] and the colour at hue 1 is no longer the colour at hue 0."""
    rep.rule("S13 hsv -> rgb: the sector fraction is h - floor(h) with the floor as computed (every assignment that reaches the subtraction is a plain floor of h); "
             "the reduction modulo 6 is applied to the sector index afterwards. Witness for a violation: hue 1, h = 6, index 0, fraction 6")
    seen = False
    for f in fns:
        if f.get("body") is None or not re.search(r"hsv_color_space::hue_t.*red_t", f.get("cls", "") + f.get("full", "")) or not f["name"].endswith("operator()"):
            continue
        eff = [(x.get("line") or 0, k, x) for k, x, _ in R.effects(f["body"])]
        hv = [re.match(r"\((\w+) = get_color\(\w+,hue_t\{\}\)\)$", k) for _, k, _ in eff]
        hv = [m.group(1) for m in hv if m]
        if not hv:
            continue
        subs = [(ln, k, re.search(r"= \(%s(?:\.operator float\(\))? - (\w+)\)\)$" % re.escape(hv[0]), k)) for ln, k, x in eff]
        subs = [(ln, k, m.group(1)) for ln, k, m in subs if m]
        if not subs or seen:
            continue
        seen = True
        rep.count("obligations:S13")
        ln, k, sub = subs[0]
        reach = [kk for l2, kk, x2 in eff if l2 < ln and re.match(r"\(%s (%%|[-+*/])?= " % re.escape(sub), kk)]
        key = "S13:hsv->rgb:sector fraction"
        bad = [kk for kk in reach if "%" in kk] or ([] if reach and all("floor(" in kk for kk in reach) else ["no plain floor(h) reaches the subtraction: %s" % reach])
        if bad:
            rep.violation("S13-fraction", key, R.fn_where(f), {"fraction": k, "definitions of the subtrahend that reach it": reach,
                          "example": "hsv(1, 1, 1): h = 6, index 6 % 6 = 0, fraction 6 - 0 = 6, t = v*(1 - s*(1 - 6)) = 6: rgb8 (255, 250, 0) instead of (255, 0, 0)"})
        else:
            rep.ok("S13-fraction", key, {"fraction": k, "floor": reach})
    rep.floor("obligations:S13", 1)


def grey_thresholds(rep, fns):
    """S6: rgb->hsv drops the hue when saturation < t_f, hsv->rgb ignores the hue when |saturation| < t_b. The two
    decisions must agree on every 8-bit pixel, otherwise a pixel whose hue was dropped is rebuilt with hue 0."""
    from .ast import rules as R
    rep.rule("S6 the grey thresholds of rgb->hsv (hue dropped) and hsv->rgb (hue ignored) select the same set of 8-bit pixels: no pixel has "
             "(max-min)/max between the two constants")
    tf = tb = None
    wf = wb = None
    for f in fns:
        if not f["file"].endswith("color_spaces/hsv.hpp"):
            continue
        sig = f["full"].split("default_color_converter_impl")[1]
        fwd = sig.replace(" ", "").startswith("<boost::mp11::mp_list<boost::gil::red_t")
        # the saturation of the forward conversion is the local that is stored into get_color(dst, saturation_t()) (role, not name)
        g = R.canonize(f)
        sat = None
        for k, x, _ in R.effects(g["body"]):
            m = re.fullmatch(r"\(get_color\(\$1,saturation_t\{\}\) = (%\d+)\)", k)
            if m:
                sat = m.group(1)
        for x, _ in R.find(g["body"], lambda x: x.get("k") == "Binary" and x.get("op") == "<"):
            lk, r = R.key(x["l"]), R.strip(x["r"])
            val = r.get("v") if r.get("k") in ("Float", "Int") else r.get("const")
            if val is None:
                continue
            try:
                val = float(val)
            except ValueError:
                continue
            if fwd and sat is not None and lk in (sat, sat + ".operator float()"):
                tf, wf = val, "%s:%s" % (C.repo_rel(f["file"]), x.get("line"))
            if not fwd and "saturation_t" in lk and "abs" in lk:
                tb, wb = val, "%s:%s" % (C.repo_rel(f["file"]), x.get("line"))
    rep.count("obligations:S6")
    if tf is None or tb is None:
        rep.fail_analysis("S6: grey threshold comparisons of the hsv converters not found (forward %s, backward %s)" % (tf, tb))
        return
    lo, hi = min(tf, tb), max(tf, tb)
    wit = None
    if lo != hi:
        for mx in range(1, 256):
            for diff in range(1, mx + 1):
                if lo <= diff / mx < hi:
                    wit = {"pixel": [mx - diff, mx, mx], "saturation": diff / mx}
                    break
            if wit:
                break
    if wit is None:
        rep.ok("S6-grey-threshold", "S6:hsv", {"rgb->hsv": tf, "hsv->rgb": tb})
    else:
        rep.violation("S6-grey-threshold", "S6:hsv", wf + " vs " + wb, {"rgb->hsv drops hue below": tf, "hsv->rgb ignores hue below": tb, "witness": wit,
                                                                      "problem": "for this pixel the forward conversion discards the hue but the backward conversion still uses it (as 0): rgb8 -> hsv -> rgb8 does not return the pixel"})


def gamut(rep, wd):
    """S7: xyz -> rgb8/rgb16 (also the second half of lab -> rgb): the value handed to the float -> integer channel conversion lies in
    the channel range for every x,y,z in [0,1] -- i.e. the converter clamps out-of-gamut colours (constant-propagated witness on refutation)"""
    rep.rule("S7 xyz -> rgb8/rgb16: for all x,y,z in [0,1] the float handed to the float->integer conversion is inside [0,1] (out-of-gamut colours and "
             "in-gamut colours that leave the gamut by rounding are clamped); a refutation is confirmed by constant propagation of a corner of the cube")
    L = [HDR, 'extern "C" {']
    obl = []
    for dch, raw in (("rgb8_pixel_t", "std::uint8_t"), ("rgb16_pixel_t", "std::uint16_t")):
        for col in ("red_t", "green_t", "blue_t"):
            nm = "w_xyz_%s_%s" % (dch, col)
            L.append("%s %s(float x, float y, float z){ xyz32f_pixel_t p; get_color(p, xyz_color_space::x_t()) = x; get_color(p, xyz_color_space::y_t()) = y; get_color(p, xyz_color_space::z_t()) = z; %s d; color_convert(p, d); return (%s)get_color(d, %s()); }"
                     % (raw, nm, dch, raw, col))
            obl.append((nm, dch, col))
    L.append("}")
    src = os.path.join(wd, "c18_gamut.cpp")
    open(src, "w").write("\n".join(L) + "\n")
    bc = C.emit_ir(src, src[:-4] + ".bc")
    dump = C.irdump(bc, src[:-4] + ".json")
    fns = {f["name"]: f for f in dump["functions"]}
    import itertools
    for nm, dch, col in obl:
        rep.count("obligations:S7")
        key = "S7:xyz -> %s [%s]" % (dch, col)
        try:
            it = NumInterp(fns[nm], {"a0": ("float", 32, 0.0, 1.0), "a1": ("float", 32, 0.0, 1.0), "a2": ("float", 32, 0.0, 1.0)})
            it.run()
        except Unsupported as e:
            rep.fail_analysis("%s: %s" % (key, e))
            continue
        bad = [ev for ev in it.final_events() if ev.kind.startswith("fptoint") and ev.status != "proved"]
        if not bad:
            rep.ok("S7-gamut", key, "float->int operand in range for every x,y,z in [0,1]")
            continue
        wit = None
        for corner in itertools.product((0.0, 1.0), repeat=3):
            try:
                it2 = NumInterp(fns[nm], {"a%d" % i: ("float", 32, corner[i], corner[i]) for i in range(3)})
                it2.run()
            except Unsupported:
                continue
            b2 = [ev for ev in it2.final_events() if ev.kind.startswith("fptoint") and ev.status == "refuted"]
            if b2:
                wit = {"xyz": list(corner), "detail": b2[0].detail}
                break
        if wit:
            rep.violation("S7-gamut", key, "include/boost/gil/extension/toolbox/color_spaces/xyz.hpp",
                          {"witness": wit, "problem": "a negative (or > 1) component reaches the float -> integer conversion: undefined behaviour, in practice it wraps (rgb8(0,0,42) -> lab -> rgb8 gives red 255)"})
        else:
            rep.incon("S7-gamut", key, bad[0].detail)
    rep.floor("obligations:S7", 6)


def clamped_stores(rep, fns):
    """S12: a value that was clamped to [lo, hi] and is then cast to the destination channel type arrives only if that type holds [lo, hi]"""
    from .ast.rules import _TYRANGE, _cty
    rep.rule("S12 in every instantiated colour converter an explicit integral cast of a value that was clamped to constants [lo, hi] targets a type that holds [lo, hi] "
             "(`(dst_channel_t) red` with red in 0..255 and a signed 8 bit destination stores 255 as -1; the destination depth needs channel_convert). Witness: hi")
    seen = set()
    for f in fns:
        if f.get("body") is None or "color_convert" not in f["name"] and "default_color_converter_impl" not in f["name"] and "::convert" not in f["name"]:
            continue
        inits = {}
        for dn, _ in R.find(f["body"], lambda x: x.get("k") == "Decl"):
            for dd in dn["decls"]:
                if dd.get("id") and dd.get("init") is not None:
                    inits[dd["id"]] = dd["init"]

        def clamp_interval(n):
            n = R.strip(n)
            while isinstance(n, dict) and n.get("k") in ("ImplicitCast", "ExplicitCast", "Paren") and "const" not in n:
                n = R.strip(n.get("e"))
            if isinstance(n, dict) and n.get("k") == "Call" and re.search(r"(^|::)clamp$", (n.get("callee") or {}).get("name", "")) and len(n.get("args", [])) == 3:
                lo, hi = _const_of(n["args"][1]), _const_of(n["args"][2])
                if lo is not None and hi is not None:
                    return (lo, hi)
            return None
        for x, _ in R.find(f["body"], lambda x: x.get("k") in ("ExplicitCast", "ImplicitCast") and x.get("cast") == "IntegralCast" and _cty(x.get("to_c")) in _TYRANGE):
            e = R.strip(x.get("e"))
            while isinstance(e, dict) and e.get("k") in ("ImplicitCast", "Paren"):
                e = R.strip(e.get("e"))
            iv = clamp_interval(e)
            if iv is None and isinstance(e, dict) and e.get("k") == "DeclRef" and e.get("id") in inits:
                iv = clamp_interval(inits[e["id"]])
            if iv is None:
                continue
            cls = re.sub(r"boost::gil::", "", f.get("cls") or f["name"])
            mfam = re.search(r"(ycbcr_\d+|hsl|hsv|lab|xyz|cmyka|gray_alpha)", cls)
            cs = mfam.group(1) if mfam else cls[:40]
            to = _cty(x["to_c"])
            key = "S12:%s:%s:stored as %s" % (cs, f["name"].split("::")[-1], to)
            lim = _TYRANGE[to]
            bad = iv[0] < lim[0] or iv[1] > lim[1]
            if key in seen and not bad:
                continue
            seen.add(key)
            rep.count("obligations:S12")
            if bad:
                w = iv[1] if iv[1] > lim[1] else iv[0]
                rep.violation("S12-clamped-store", key, R.fn_where(f), {"clamped to": list(iv), "cast to": to, "range of that type": list(lim), "line": x.get("line"),
                                                                       "example": "ycbcr_601 of white -> rgb8s: the level %d is stored as %d (rgb8 gives 254,254,254, rgb8s -2,-2,-2 instead of 126,126,126)" % (w, (w - lim[0]) % (lim[1] - lim[0] + 1) + lim[0])})
            else:
                rep.ok("S12-clamped-store", key, {"clamped to": list(iv)})
    rep.floor("obligations:S12", 1)


def _const_of(n):
    while isinstance(n, dict):
        if "const" in n:
            try:
                return int(str(n["const"]), 0)
            except ValueError:
                try:
                    return float(n["const"])
                except ValueError:
                    return None
        if n.get("k") in ("Paren", "ImplicitCast", "ExplicitCast"):
            n = n.get("e")
        elif n.get("k") == "Int":
            return int(n.get("v", n.get("value", 0)))
        else:
            return None
    return None


def clamp_subjects(rep, fns):
    """S11: a clamp only helps if it sees the value it is meant to bound. clamp<T>(v, lo, hi) with an explicit narrow T converts v to T first: the
    out-of-range values the clamp exists for have already wrapped (-1 -> 255, 256 -> 0) and lie inside [lo, hi]."""
    from .ast.rules import _TYRANGE, _cty, type_range
    rep.rule("S11 in every instantiated colour converter no argument of a clamp (detail::clamp, std::clamp, a min/max pair) is narrowed on the way in: an integral "
             "argument is not converted to a type whose range is smaller than the interval of the argument expression (from the types of its leaves). "
             "Witness: the extreme of the interval that the narrow type cannot hold")
    seen = set()
    n = 0
    for f in fns:
        if f.get("body") is None or "color_convert" not in f["name"] and "default_color_converter_impl" not in f["name"] and "::convert" not in f["name"]:
            continue
        for c, _ in R.find(f["body"], lambda x: x.get("k") == "Call" and re.search(r"(^|::)clamp$", (x.get("callee") or {}).get("name", ""))):
            n += 1
            key = "S11:%s:%s" % (re.sub(r"boost::gil::(detail::)?", "", f.get("full", f["name"]).split("<")[0]), re.sub(r"<.*", "", re.sub(r"boost::gil::", "", f.get("cls") or ""))[:60])
            cls = re.sub(r"boost::gil::", "", f.get("cls") or f["name"])
            cs = "/".join(re.findall(r"(ycbcr_\d+__t|rgb_t|rgba_t|gray_t|cmyk_t|hsl_t|hsv_t|lab_t|xyz_t|gray_alpha_t)", cls)[:2]) or cls[:50]
            key = "S11:%s:%s" % (cs, f["name"].split("::")[-1])
            bad = []
            for a in c.get("args", []):
                x = a
                while isinstance(x, dict) and x.get("k") in ("Paren",):
                    x = x["e"]
                if not (isinstance(x, dict) and x.get("k") in ("ImplicitCast", "ExplicitCast") and x.get("from_c") is not None) or "const" in x:
                    continue
                frm, to = _cty(x["from_c"]), _cty(x["to_c"])
                if frm not in _TYRANGE or to not in _TYRANGE:
                    continue
                r = type_range(x["e"]) or _TYRANGE[frm]
                lim = _TYRANGE[to]
                if r[0] < lim[0] or r[1] > lim[1]:
                    w = r[0] if r[0] < lim[0] else r[1]
                    bad.append({"argument": R.key(x["e"])[:90], "converted from": frm, "to": to, "interval of the argument": list(r), "line": x.get("line")})
            if key in seen and not bad:
                continue
            seen.add(key)
            rep.count("obligations:S11")
            if bad:
                rep.violation("S11-clamp-subject", key, R.fn_where(f), {"narrowed arguments": bad[:3], "example": "ycbcr_601 (16,128,100) -> rgb8: red = (298*0 + 409*(-28) + 128) >> 8 = -45, narrowed to unsigned char 211 before the clamp: red 211 instead of 0"})
            else:
                rep.ok("S11-clamp-subject", key, "%d arguments, none narrowed" % len(c.get("args", [])))
    rep.floor("obligations:S11", 1)
