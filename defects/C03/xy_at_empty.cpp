// C03 / L10: image_view::xy_at asserted x < width() (and, in the point overload, y < height()), although it only forms a locator.
// With assertions enabled (no NDEBUG) the view factories abort on a view without pixels: subimage_view(v,1,1,0,2) is 0x2,
// and transposed_view / flipped_up_down_view / for_each_pixel_position of it call xy_at(0,0).
// Build: g++ -std=c++14 -I /repo/include xy_at_empty.cpp && ./a.out     (before the fix: assertion `x < width()' failed)
#include <boost/gil.hpp>
#include <cstdio>
using namespace boost::gil;
int main()
{
    rgb8_image_t img(4, 3);
    auto v = subimage_view(view(img), 1, 1, 0, 2);
    auto t = transposed_view(v);
    auto f = flipped_up_down_view(v);
    std::printf("%ld %ld %ld\n", (long)t.width(), (long)t.height(), (long)f.size());
}
