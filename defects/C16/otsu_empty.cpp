// C16 replay: threshold_optimal on an empty image dereferences pixel (0,0) of a view without pixels
// g++ -std=c++14 -fsanitize=undefined -DNDEBUG -I/repo/include otsu_empty.cpp && ./a.out
#include <boost/gil.hpp>
#include <boost/gil/image_processing/threshold.hpp>
#include <cstdio>
using namespace boost::gil;
int main()
{
    gray8_image_t src, dst;
    threshold_optimal(const_view(src), view(dst));
    std::printf("returned\n");
}
