// C19 replay: histogram::fill on a planar view scales the source image itself (the "copy" of the pixel is a reference proxy)
// g++ -std=c++14 -I/repo/include planar_fill.cpp && ./a.out
#include <boost/gil.hpp>
#include <boost/gil/histogram.hpp>
#include <cstdio>
namespace gil = boost::gil;
int main()
{
    gil::rgb8_planar_image_t img(1, 1, gil::rgb8_pixel_t(10, 7, 5));
    gil::histogram<int, int, int> h;
    gil::fill_histogram(gil::view(img), h, 2);
    auto p = gil::view(img)(0, 0);
    std::printf("after fill_histogram(view, h, 2) the image pixel is (%d,%d,%d), expected (10,7,5)\n", int(p[0]), int(p[1]), int(p[2]));
    gil::fill_histogram(gil::view(img), h, 2, true);
    std::printf("bins after a second, accumulating fill: %zu (expected 1 bin with count 2)\n", h.size());
    return (p[0] == 10 && h.size() == 1) ? 0 : 1;
}
