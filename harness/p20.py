"""C20 rasterizers (decided part): symmetry orbits, emitted-point counts vs point_count(), trajectory sizing,
guarded ellipse writes -- structural rules over the instantiated AST."""
import os, re
from . import common as C
from .ast import rules as R
from .ir.poly import Poly

LEVEL = "other"
EXPLANATION = ("Static analysis over the instantiated AST: (K1) the mirror lambdas of both circle rasterizers emit exactly the "
               "8-element orbit {(cx+-x, cy+-y), (cx+-y, cy+-x)}, each element once; (K2) the number of mirror calls is "
               "point_count()/8 (trigonometric: loop of point_count()/8 iterations; midpoint: one call plus a loop from 1), and "
               "point_count() is 8 times an integer, so exactly point_count() points are written; (K3) apply_rasterizer for lines "
               "and circles sizes the trajectory with the same rasterizer's point_count() and passes begin(trajectory), then "
               "writes view(point) for each element; (K4) the line rasterizer writes one point per iteration of a loop from "
               "start.x to end.x in unit steps plus the end point, after transposing when width<height, i.e. max(|dx|,|dy|)+1 = "
               "point_count() points, first the start and last the end point; (K5) the ellipse's draw_curve forms the four "
               "(+-x,+-y) combinations and every view write is dominated by the validity flags of both coordinates, which are set "
               "only under the corresponding bounds tests. Not decided: connectivity, distance to the ideal curve and the "
               "bounding-box clause (the Bresenham error term is floating-point state accumulated over a run-time loop).")
W = "include/boost/gil/extension/rasterization/"
DRIVER = '''#include "vf_common.hpp"
#include <boost/gil/extension/rasterization/circle.hpp>
#include <boost/gil/extension/rasterization/ellipse.hpp>
#include <boost/gil/extension/rasterization/line.hpp>
#include <boost/gil/extension/rasterization/apply_rasterizer.hpp>
using namespace vf;
void inst(gray8_view_t const& v){
  gray8_pixel_t px(255);
  apply_rasterizer(v, bresenham_line_rasterizer{{0, 0}, {5, 3}}, px);
  apply_rasterizer(v, trigonometric_circle_rasterizer{{8, 8}, 5}, px);
  apply_rasterizer(v, midpoint_circle_rasterizer{{8, 8}, 5}, px);
  apply_rasterizer(v, midpoint_ellipse_rasterizer{{8, 8}, {5, 3}}, px);
}
'''


def run(rep):
    C.need_tools(C.ASTDUMP)
    wd = C.workdir("C20")
    src = os.path.join(wd, "c20_driver.cpp")
    open(src, "w").write(DRIVER)
    d = C.astdump(src, os.path.join(wd, "c20.json"),
                  ["^boost::gil::(trigonometric_circle_rasterizer|midpoint_circle_rasterizer|bresenham_line_rasterizer|midpoint_ellipse_rasterizer)::",
                   "^boost::gil::detail::apply_rasterizer_op::operator\\(\\)$"])
    fns = d["functions"]
    rep.units.append("c20_driver.cpp: %d instantiated functions" % len(fns))
    rep.trusted += ["clang front end (instantiated AST)", "harness/ast/rules.py"]
    byname = {}
    for f in fns:
        byname.setdefault(f["name"].replace("boost::gil::", ""), []).append(f)
    circle(rep, byname)
    apply_ops(rep, fns)
    line(rep, byname)
    ellipse(rep, byname)
    rep.floor("obligations:K1", 2)
    rep.floor("obligations:K2", 2)
    rep.floor("obligations:K3", 2)
    rep.floor("obligations:K4", 3)
    rep.floor("obligations:K5", 4)


def circle(rep, byname):
    rep.rule("K1 mirror lambda emits the full 8-element symmetry orbit around center, each element once")
    rep.rule("K2 number of mirror calls == point_count()/8 and point_count() == 8 * integer")
    ORBIT = {(sx, a, sy, b) for (a, b) in (("x", "y"), ("y", "x")) for sx in "+-" for sy in "+-"}
    for cls in ("trigonometric_circle_rasterizer", "midpoint_circle_rasterizer"):
        f = (byname.get(cls + "::operator()") or [None])[0]
        pc = (byname.get(cls + "::point_count") or [None])[0]
        if f is None or pc is None:
            rep.fail_analysis("%s not instantiated" % cls)
            continue
        lams = R.find(f["body"], lambda x: x.get("k") == "Lambda")
        rep.count("obligations:K1")
        if len(lams) != 1:
            rep.fail_analysis("%s: %d lambdas" % (cls, len(lams)))
            continue
        lam = lams[0][0]
        pn = lam["params"][0]["name"]
        emitted = []
        for x, p in R.find(lam["body"], lambda x: (x.get("k") == "Assign" or (x.get("k") == "Call" and x.get("op") == "=")) and "d_first" in R.key(x.get("l") or x["args"][0])):
            rhs = R.key(x.get("r") or x["args"][1])
            m = re.fullmatch(r"point_t\{\(center\.x ([+-]) %s\.([xy])\),\(center\.y ([+-]) %s\.([xy])\)\}" % (pn, pn), rhs.replace("point{", "point_t{"))
            emitted.append(m.groups() if m else rhs)
        key = "K1:%s mirror orbit" % cls
        if len(emitted) == 8 and set(emitted) == ORBIT:
            rep.ok("K1-orbit", key, sorted("".join(e) for e in emitted))
        else:
            rep.violation("K1-orbit", key, W + "circle.hpp:%s" % lam.get("line"), {"emitted": [e if isinstance(e, str) else "".join(e) for e in emitted], "expected": "the 8 distinct (+-x,+-y),(+-y,+-x) points"})
        # K2: count of mirror calls
        rep.count("obligations:K2")
        lamvar = None
        for x, p in R.find(f["body"], lambda x: x.get("k") == "Decl"):
            for dd in x["decls"]:
                if dd.get("init") is not None and R.find(dd["init"], lambda y: y.get("k") == "Lambda") and "lambda" in (dd.get("type") or "") or \
                        (dd.get("init") is not None and R.strip(dd["init"]).get("k") in ("Lambda",)) or \
                        (dd.get("init") is not None and R.strip(dd["init"]).get("k") == "Construct" and R.find(dd["init"], lambda y: y.get("k") == "Lambda")):
                    lamvar = dd["name"]
        decls = {dd["name"]: R.key(dd.get("init")) for dn, _ in R.find(f["body"], lambda x: x.get("k") == "Decl") for dd in dn["decls"] if dd.get("name") and dd.get("init") is not None}
        calls = [(x, p) for x, p in R.find(f["body"], lambda x: x.get("k") == "Call" and x.get("op") == "()" and R.key(x["args"][0]) == lamvar)]
        inside, outside = [], []
        for x, p in calls:
            loops = [a for a, fld, i in p if a.get("k") == "For" and fld == "body"]
            (inside if loops else outside).append((x, loops))
        ok = False
        det = {"calls_outside_loop": len(outside), "calls_in_loop": len(inside)}
        if len(inside) == 1 and len(inside[0][1]) == 1:
            loop = inside[0][1][0]
            init = R.strip(loop["init"])
            cond = R.strip(loop["cond"])
            var = init["decls"][0]["name"] if init.get("k") == "Decl" else None
            start = R.key(init["decls"][0]["init"]) if var else None
            bound = R.key(cond["r"]) if cond.get("k") == "Binary" and cond["op"] == "<" and R.key(cond["l"]) == var else None
            incs = R.key(loop["inc"])
            det.update({"loop": "for (%s = %s; %s < %s; %s)" % (var, start, var, bound, incs), "bound_init": decls.get(bound)})
            unit = ("(++%s)" % var) in incs
            bound_is_count = decls.get(bound) in ("(point_count() / 8)", "(this.point_count() / 8)")
            ok = unit and bound_is_count and start is not None and int(start) == len(outside)
        rets = [x for x, _ in R.find(pc["body"], lambda x: x.get("k") == "Return")]
        e = R.strip(rets[0]["e"]) if rets else None
        eight = e is not None and e.get("k") == "Binary" and e.get("op") == "*" and (R.key(e["l"]) == "8" or R.key(e["r"]) == "8") and \
            (e.get("type") in ("long", "std::ptrdiff_t", "ptrdiff_t") or "long" in (e.get("type") or ""))
        det["point_count_is_8_times_integer"] = eight
        key = "K2:%s emitted points == point_count()" % cls
        if ok and eight:
            rep.ok("K2-count", key, det)
        else:
            rep.violation("K2-count", key, W + "circle.hpp", det)


def apply_ops(rep, fns):
    rep.rule("K3 apply_rasterizer_op (line, circle): trajectory(rasterizer.point_count()); rasterizer(begin(trajectory)); for each point: view(point) = pixel")
    for f in fns:
        if not f["name"].endswith("apply_rasterizer_op::operator()"):
            continue
        if "ellipse" in f["full"]:
            rn = R.param_renamer(f)
            cs = [rn(R.key(x)) for x, p in R.find(f["body"], lambda x: x.get("k") == "Call" and x.get("op") == "()")]
            rep.count("obligations:K3")
            if cs == ["$1($0,$2)"]:
                rep.ok("K3-apply", "apply_rasterizer_op<ellipse>", cs)
            else:
                rep.violation("K3-apply", "K3:apply_rasterizer_op<ellipse>", W + "ellipse.hpp", {"calls": cs})
            continue
        kind = "line" if "line_rasterizer_t" in f["full"] else "circle"
        rn = R.param_renamer(f)
        locs = R.local_names(f)
        decls = {dd["name"]: (dd, rn(R.key(dd.get("init")))) for dn, _ in R.find(f["body"], lambda x: x.get("k") == "Decl") for dd in dn["decls"] if dd.get("name") and dd.get("init") is not None}
        traj = [n for n, (dd, k) in decls.items() if "vector" in (dd.get("type") or "")]
        rep.count("obligations:K3")
        det = {"decls": {n: k for n, (dd, k) in decls.items()}}
        ok = False
        if len(traj) == 1:
            t = traj[0]
            m = re.search(r"\{(.*)\}$", decls[t][1])
            inner = m.group(1) if m else decls[t][1]
            depth, first = 0, ""
            for ch in inner:            # first top-level argument (the element count; a defaulted allocator may follow)
                if ch == "," and depth == 0:
                    break
                depth += ch in "({"
                depth -= ch in ")}"
                first += ch
            size_ok = first == "$1.point_count()"
            calls = [rn(R.key(x)) for x, p in R.find(f["body"], lambda x: x.get("k") == "Call" and x.get("op") == "()" and R.key(x["args"][0]) == f["params"][1]["name"])]
            writes = []
            for x, p in R.find(f["body"], lambda x: x.get("k") in ("Assign", "Call") and x.get("op") == "=" and R.key(x.get("l") or x["args"][0]).startswith(f["params"][0]["name"] + "(")):
                fr = [a for a, fld, i in p if a.get("k") == "ForRange"]
                writes.append((rn(R.key(x)), rn(R.key(fr[0]["range"])) if fr else None, fr[0]["var"] if fr else None))
            det.update({"rasterizer_calls": calls, "writes": writes, "trajectory_init": decls[t][1]})
            ok = size_ok and calls == ["$1(begin(%s))" % t] and len(writes) == 1 and writes[0][1] == t and writes[0][0] == "($0(%s) = $2)" % writes[0][2]
        key = "K3:apply_rasterizer_op<%s>" % kind
        if ok:
            rep.ok("K3-apply", key, det)
        else:
            rep.violation("K3-apply", key, W + ("line.hpp" if kind == "line" else "circle.hpp"), det)


def line(rep, byname):
    rep.rule("K4 line: point_count == max(|dx|,|dy|)+1; one store per unit step from start.x to end.x (after transposing when width<height) plus the end point")
    f = (byname.get("bresenham_line_rasterizer::operator()") or [None])[0]
    pc = (byname.get("bresenham_line_rasterizer::point_count") or [None])[0]
    if f is None or pc is None:
        rep.fail_analysis("bresenham_line_rasterizer not instantiated")
        return
    # point_count
    decls = {dd["name"]: R.key(dd.get("init")) for dn, _ in R.find(pc["body"], lambda x: x.get("k") == "Decl") for dd in dn["decls"] if dd.get("name")}
    ret = [R.key(x["e"]) for x, _ in R.find(pc["body"], lambda x: x.get("k") == "Return")]
    rep.count("obligations:K4")
    want_w = "(abs((end_point.x - start_point.x)) + 1)"
    want_h = "(abs((end_point.y - start_point.y)) + 1)"
    vals = sorted(decls.values())
    ok = sorted([want_w, want_h]) == vals and len(ret) == 1 and re.fullmatch(r"\(\((\w+) > (\w+)\) \? \1 : \2\)|\(\((\w+) < (\w+)\) \? \4 : \3\)|max\(\w+,\w+\)", ret[0]) is not None
    if ok:
        rep.ok("K4-line", "point_count == max(|dx|+1, |dy|+1)", {"decls": decls, "return": ret})
    else:
        rep.violation("K4-line", "K4:line:point_count", W + "line.hpp", {"decls": decls, "return": ret})
    # operator(): stores
    stores = []
    for x, p in R.find(f["body"], lambda x: (x.get("k") == "Assign" or (x.get("k") == "Call" and x.get("op") == "=")) and "d_first" in R.key(x.get("l") or x["args"][0])):
        loops = [a for a, fld, i in p if a.get("k") in ("For", "While") and fld == "body"]
        gs = R.guards(p)
        stores.append((R.key(x.get("r") or x["args"][1]), loops, gs, x.get("line")))
    in_loop = [s for s in stores if s[1]]
    after = [s for s in stores if not s[1] and not any(op == "==" and "start" in l + r and "end" in l + r for op, l, r in s[2])]
    degenerate = [s for s in stores if not s[1] and any(op == "==" and "start" in l + r and "end" in l + r for op, l, r in s[2])]
    rep.count("obligations:K4")
    det = {"stores_in_loop": [s[0] for s in in_loop], "stores_after": [s[0] for s in after], "degenerate": [s[0] for s in degenerate]}
    ok = len(in_loop) == 1 and len(after) == 1 and len(degenerate) == 1
    if ok:
        loop = in_loop[0][1][0]
        init, cond, inc = R.strip(loop["init"]), R.key(loop["cond"]), R.key(loop["inc"])
        var = init["decls"][0]["name"] if init.get("k") == "Decl" else None
        start = R.key(init["decls"][0]["init"]) if var else None
        fdecl = {dd["name"]: R.key(dd.get("init")) for dn, _ in R.find(f["body"], lambda x: x.get("k") == "Decl") for dd in dn["decls"] if dd.get("name") and dd.get("init") is not None}
        det.update({"loop": "for (%s = %s; %s; %s)" % (var, start, cond, inc), "x_increment": fdecl.get("x_increment"), "needs_flip": fdecl.get("needs_flip")})
        unit = fdecl.get("x_increment") == "((end.x >= start.x) ? 1 : -1)" and inc == "(%s += x_increment)" % var
        ok = start == "start.x" and cond == "(%s != end.x)" % var and unit and fdecl.get("needs_flip") == "(width < height)"
        ok = ok and in_loop[0][0] == "(needs_flip ? point_t{y,%s} : point_t{%s,y})" % (var, var) and after[0][0] in ("(needs_flip ? point_t{end.y,end.x} : end)",)
        ok = ok and fdecl.get("y") == "start.y" and degenerate[0][0] == "start"
        # the transposition swaps start and end coordinates under needs_flip
        sw = sorted(R.key(c) for c, p in R.calls_in(f["body"], lambda n: n == "std::swap") if any("needs_flip" in l + r for op, l, r in R.guards(p)))
        det["swaps_under_needs_flip"] = sw
        ok = ok and sw == sorted(["swap(width,height)", "swap(start.x,start.y)", "swap(end.x,end.y)"])
    if ok:
        rep.ok("K4-line", "one store per unit x-step + end point, transposed when width<height", det)
    else:
        rep.violation("K4-line", "K4:line:emitted points", W + "line.hpp", det)
    rep.count("obligations:K4")
    fdecl = {dd["name"]: R.key(dd.get("init")) for dn, _ in R.find(f["body"], lambda x: x.get("k") == "Decl") for dd in dn["decls"] if dd.get("name") and dd.get("init") is not None}
    if fdecl.get("width") == "(abs((end.x - start.x)) + 1)" and fdecl.get("height") == "(abs((end.y - start.y)) + 1)" and fdecl.get("start") == "start_point" and fdecl.get("end") == "end_point":
        rep.ok("K4-line", "width/height are |dx|+1, |dy|+1 of the stored end points", {k: fdecl[k] for k in ("width", "height")})
    else:
        rep.violation("K4-line", "K4:line:extent", W + "line.hpp", {k: fdecl.get(k) for k in ("width", "height", "start", "end")})


def ellipse(rep, byname):
    rep.rule("K5 ellipse draw_curve: four (+-x,+-y) writes, each dominated by validity[i] && validity[j]; validity[i] set only under the bounds test of co_ords[i]")
    f = (byname.get("midpoint_ellipse_rasterizer::draw_curve") or [None])[0]
    if f is None:
        rep.fail_analysis("draw_curve not instantiated")
        return
    vn = f["params"][0]["name"]
    writes = []
    for x, p in R.find(f["body"], lambda x: x.get("k") in ("Assign", "Call") and x.get("op") == "=" and R.key(x.get("l") or x["args"][0]).startswith(vn + "(")):
        tgt = R.key(x.get("l") or x["args"][0])
        m = re.fullmatch(re.escape(vn) + r"\(co_ords\[(\d)\],co_ords\[(\d)\]\)", tgt)
        gs = R.guards(p)
        flags = sorted(int(mm.group(1)) for op, l, r in gs for mm in [re.fullmatch(r"validity\[(\d)\]", l)] if mm and op == "!=" and r == "0")
        writes.append((tgt, (int(m.group(1)), int(m.group(2))) if m else None, flags))
    rep.count("obligations:K5")
    combos = sorted(w[1] for w in writes if w[1])
    if combos == [(0, 2), (0, 3), (1, 2), (1, 3)] and all(w[1] and sorted(w[1]) == w[2] for w in writes):
        rep.ok("K5-ellipse", "four guarded writes", [w[0] for w in writes])
    else:
        rep.violation("K5-ellipse", "K5:ellipse:writes", W + "ellipse.hpp", {"writes": [(w[0], w[2]) for w in writes]})
    # validity flags
    for i, dim in ((0, "width"), (1, "width"), (2, "height"), (3, "height")):
        sets = []
        for x, p in R.find(f["body"], lambda x: x.get("k") == "Assign" and R.key(x["l"]) == "validity[%d]" % i):
            gs = R.guards(p)
            sets.append((R.key(x["r"]), gs))
        rep.count("obligations:K5")
        ok = len(sets) == 1 and sets[0][0] in ("true", "True", "1") and R.has_atom(sets[0][1], "<", "co_ords[%d]" % i, "%s.%s()" % (vn, dim))
        if i in (1, 3):
            ok = ok and R.has_atom(sets[0][1], ">=", "co_ords[%d]" % i, "0") if sets else False
        if ok:
            rep.ok("K5-ellipse", "validity[%d] set only under the %s bounds test" % (i, dim), sets[0][0])
        else:
            rep.violation("K5-ellipse", "K5:ellipse:validity[%d]" % i, W + "ellipse.hpp", {"assignments": [(s[0], s[1][-4:]) for s in sets]})
    # coordinate definitions
    rep.count("obligations:K5")
    co = None
    for x, p in R.find(f["body"], lambda x: x.get("k") == "Decl"):
        for dd in x["decls"]:
            if dd.get("name") == "co_ords":
                co = R.key(dd.get("init"))
    want = "{(center2[0] + pnt[0]),(center2[0] - pnt[0]),(center2[1] + pnt[1]),(center2[1] - pnt[1])}"
    if co is not None and want in co:
        rep.ok("K5-ellipse", "co_ords = center +- point per axis", co[-len(want):])
    else:
        rep.violation("K5-ellipse", "K5:ellipse:co_ords", W + "ellipse.hpp", {"co_ords": co, "expected_suffix": want})
