// C10 replay: recreate records the new alignment before it has the new storage; after a failed allocation the same call repeated is taken for a no-op
// g++ -std=c++14 -I/repo/include recreate_alignment_after_throw.cpp && ./a.out
#include <boost/gil.hpp>
#include <cstdio>
#include <cstdint>
#include <new>
namespace gil = boost::gil;
static bool fail_next = false;
template <typename T> struct odd_alloc          // blocks start at an address that is 1 mod 64: the alignment arithmetic is really needed
{
    using value_type = T;
    odd_alloc() = default;
    template <typename U> odd_alloc(odd_alloc<U> const&) {}
    T* allocate(std::size_t n)
    {
        if (fail_next) { fail_next = false; throw std::bad_alloc(); }
        unsigned char* raw = static_cast<unsigned char*>(::operator new(n * sizeof(T) + 128 + sizeof(void*)));
        std::uintptr_t a = (reinterpret_cast<std::uintptr_t>(raw) + sizeof(void*) + 63) / 64 * 64 + 1;
        reinterpret_cast<void**>(a)[-1] = raw;   // unaligned store is fine on x86; keeps the demo short
        return reinterpret_cast<T*>(a);
    }
    void deallocate(T* p, std::size_t) { ::operator delete(reinterpret_cast<void**>(p)[-1]); }
    bool operator==(odd_alloc const&) const { return true; }
    bool operator!=(odd_alloc const&) const { return false; }
};
int main()
{
    gil::image<gil::gray8_pixel_t, false, odd_alloc<unsigned char>> img(3, 3, gil::gray8_pixel_t(7), 0);
    fail_next = true;
    try { img.recreate(3, 3, 16); } catch (std::bad_alloc const&) { std::printf("first recreate(3,3,16): allocation failed, image unchanged\n"); }
    img.recreate(3, 3, 16);                      // no failure this time
    int bad = 0;
    for (int y = 0; y < 3; ++y) { auto a = reinterpret_cast<std::uintptr_t>(&gil::view(img)(0, y)); std::printf("row %d at address %% 16 == %d\n", y, (int)(a % 16)); if (a % 16) ++bad; }
    std::printf("%d of 3 rows are not 16-byte aligned after recreate(3,3,16)\n", bad);
    return bad ? 1 : 0;
}
