// C13 replay: a top-down targa file read into a destination view taller than the region lands at the bottom of the view
// g++ -std=c++14 -I/repo/include targa_topdown_larger_view.cpp && ./a.out
#include <boost/gil.hpp>
#include <boost/gil/extension/io/targa.hpp>
#include <cstdio>
#include <sstream>
namespace gil = boost::gil;
int main()
{
    unsigned char hdr[18] = {0, 0, 2, 0, 0, 0, 0, 0, 0, 0, 0, 0, 1, 0, 1, 0, 24, 0x20};   // 1x1, 24 bit, descriptor bit 5: origin at the top
    std::string f(reinterpret_cast<char*>(hdr), 18); f += char(3); f += char(2); f += char(1);   // b, g, r
    std::istringstream in(f, std::ios::binary);
    gil::rgb8_image_t big(1, 2); gil::fill_pixels(gil::view(big), gil::rgb8_pixel_t(90, 90, 90));
    gil::read_view(in, gil::view(big), gil::image_read_settings<gil::targa_tag>(gil::point_t(0, 0), gil::point_t(1, 1)));
    auto p0 = gil::view(big)(0, 0), p1 = gil::view(big)(0, 1);
    std::printf("row 0 = (%d,%d,%d), row 1 = (%d,%d,%d); expected (1,2,3) and (90,90,90)\n", p0[0], p0[1], p0[2], p1[0], p1[1], p1[2]);
    return p0 == gil::rgb8_pixel_t(1, 2, 3) && p1 == gil::rgb8_pixel_t(90, 90, 90) ? 0 : 1;
}
