// instantiates the row-carry members of iterator_from_2d for the AST rule L9 of C03
#include "vf_common.hpp"
using namespace vf;
std::ptrdiff_t use(boost::gil::rgb8_view_t v, std::ptrdiff_t n){
  auto it = v.begin(); it += n; ++it; --it; auto it2 = it + n; return (it2 - it) + (v.end() - v.begin());
}
