"""C08 packed / bit-aligned channel writes change exactly their own bits -- D-bits (bit provenance)."""
import os
from . import common as C
from .ir.bits import BitsInterp
from .ir.poly import Unsupported

LEVEL = "proof"
EXPLANATION = ("Static analysis: every write/read primitive of packed_channel_reference, packed_dynamic_channel_reference, "
               "packed_pixel and bit_aligned_pixel_reference is inlined into a wrapper and interpreted in the bit-provenance "
               "domain: for each byte the wrapper stores, each of its 8 bits is 0, 1, a copy of a named input bit, or unknown. "
               "The obligation compares that map with the expected one computed from the template constants alone: the "
               "channel's bits receive the value's low N bits in order (or the same-position bits of the source reference), "
               "every other stored bit is a copy of the bit that was there; get() returns exactly the channel's bits "
               "zero-extended. Holds for all 2^k contents at once. Not decided: modular values of ++/--/+= (only that they "
               "stay inside the channel's bits), bit-aligned iterator n/-n value laws.")

BF = {8: "std::uint8_t", 16: "std::uint16_t", 32: "std::uint32_t", 64: "std::uint64_t"}
ITYPE = lambda n: "std::uint8_t" if n <= 8 else ("std::uint16_t" if n <= 16 else "std::uint32_t")


def combos(tier):
    out = []
    for bf in (8, 16, 32, 64):
        widths = range(1, 9) if tier == "thorough" or bf <= 16 else (1, 3, 5, 8)
        for n in widths:
            if n > bf:
                continue
            firsts = range(0, bf - n + 1)
            if tier != "thorough":
                firsts = sorted(set([0, 1, 3, 7, bf - n, max(0, bf - n - 1), (bf - n) // 2]) & set(range(0, bf - n + 1)))
            for f in firsts:
                out.append((bf, f, n))
        # wide channels in a 64-bit field: offset + width exceeds the 32 bits of the channel's own integer type
        for n in ((26, 30, 32) if bf == 64 else ()):
            for f in (0, 3, 7, bf - n):
                out.append((bf, f, n))
        for n in ((11, 16) if bf >= 16 else ()):
            if n <= bf:
                for f in sorted(set([0, bf - n, (bf - n) // 2])):
                    out.append((bf, f, n))
    return out


def inb(root, off, i):
    return ("in", ("m", root, off), i)


def own(root, bitpos):
    return inb(root, bitpos // 8, bitpos % 8)


def run(rep):
    C.need_tools(C.IRDUMP)
    wd = C.workdir("C08")
    cs = combos(rep.tier)
    L = ['#include "vf_common.hpp"', 'using namespace vf;', 'extern "C" {']
    obl = []   # (fn, kind, params)
    for bf, f, n in cs:
        T = "packed_channel_reference<%s,%d,%d,true>" % (BF[bf], f, n)
        TC = "packed_channel_reference<%s,%d,%d,false>" % (BF[bf], f, n)
        tag = "%d_%d_%d" % (bf, f, n)
        it = ITYPE(n)
        L.append("void w_set_%s(unsigned char* p, %s v){ %s r(p); r = v; }" % (tag, it, T))
        obl.append(("w_set_" + tag, "set", (bf, f, n, "packed_channel_reference")))
        L.append("%s w_get_%s(unsigned char const* p){ %s r(p); return (%s)r.get(); }" % (it, tag, TC, it))
        obl.append(("w_get_" + tag, "get", (bf, f, n, "packed_channel_reference")))
        L.append("void w_cpy_%s(unsigned char* p, unsigned char* q){ %s d(p); %s s(q); d = s; }" % (tag, T, T))
        obl.append(("w_cpy_" + tag, "copy", (bf, f, n, "packed_channel_reference")))
        L.append("void w_cpyc_%s(unsigned char* p, unsigned char const* q){ %s d(p); %s s(q); d = s; }" % (tag, T, TC))
        obl.append(("w_cpyc_" + tag, "copy", (bf, f, n, "packed_channel_reference")))
        for nm, stmt in (("inc", "++r;"), ("dec", "--r;"), ("addeq", "r += v;"), ("subeq", "r -= v;"), ("muleq", "r *= v;"), ("postinc", "r++;")):
            L.append("void w_%s_%s(unsigned char* p, %s v){ %s r(p); %s }" % (nm, tag, it, T, stmt))
            obl.append(("w_%s_%s" % (nm, tag), "confined", (bf, f, n, "packed_channel_reference::" + nm)))
        # dynamic reference: first bit is a constructor argument
        if f + n <= bf and f < 8:
            D = "packed_dynamic_channel_reference<%s,%d,true>" % (BF[bf], n)
            DC = "packed_dynamic_channel_reference<%s,%d,false>" % (BF[bf], n)
            L.append("void w_dset_%s(unsigned char* p, %s v){ %s r(p, %d); r = v; }" % (tag, it, D, f))
            obl.append(("w_dset_" + tag, "set", (bf, f, n, "packed_dynamic_channel_reference")))
            L.append("%s w_dget_%s(unsigned char const* p){ %s r(p, %d); return (%s)r.get(); }" % (it, tag, DC, f, it))
            obl.append(("w_dget_" + tag, "get", (bf, f, n, "packed_dynamic_channel_reference")))
            L.append("void w_dcpy_%s(unsigned char* p, unsigned char* q){ %s d(p, %d); %s s(q, %d); d = s; }" % (tag, D, f, D, f))
            obl.append(("w_dcpy_" + tag, "copy", (bf, f, n, "packed_dynamic_channel_reference")))
            L.append("void w_dinc_%s(unsigned char* p){ %s r(p, %d); ++r; }" % (tag, D, f))
            obl.append(("w_dinc_" + tag, "confined", (bf, f, n, "packed_dynamic_channel_reference::inc")))
    # bit-aligned pixel references: channel write / read / whole pixel assignment at every bit offset
    BA = [("bits7_img", (2, 2, 3)), ("bits121_img", (1, 2, 1)), ("bits565_img", (5, 6, 5)), ("bits233_img", (2, 3, 3)), ("bits1_img", (1,))]
    for img, sizes in BA:
        tot = sum(sizes)
        offs = range(8)
        for off in offs:
            for kch, sz in enumerate(sizes):
                first = off + sum(sizes[:kch])
                tag = "%s_%d_%d" % (img, off, kch)
                it = ITYPE(sz)
                L.append("void w_baset_%s(unsigned char* p, %s v){ %s::view_t::reference r(p, %d); at_c<%d>(r) = v; }" % (tag, it, img, off, kch))
                obl.append(("w_baset_" + tag, "set", (None, first, sz, "bit_aligned_pixel_reference<%s>::at_c<%d>@%d" % (img, kch, off))))
                L.append("%s w_baget_%s(unsigned char const* p){ %s::const_view_t::reference r(p, %d); return (%s)at_c<%d>(r); }" % (it, tag, img, off, it, kch))
                obl.append(("w_baget_" + tag, "get", (None, first, sz, "bit_aligned_pixel_reference<%s>::at_c<%d>@%d" % (img, kch, off))))
            for off2 in sorted(set(((off + 3) % 8, 0))):
                tag = "%s_%d_%d" % (img, off, off2)
                L.append("void w_baasg_%s(unsigned char* p, unsigned char const* q){ %s::view_t::reference d(p, %d); %s::const_view_t::reference s(q, %d); d = s; }" % (tag, img, off, img, off2))
                obl.append(("w_baasg_" + tag, "pixcopy", (off, off2, tot, "bit_aligned_pixel_reference<%s>::operator=@%d<-%d" % (img, off, off2))))
            tag = "%s_%d" % (img, off)
            L.append("void w_baswap_%s(unsigned char* p, unsigned char* q){ %s::view_t::reference a(p, %d); %s::view_t::reference b(q, %d); swap(a, b); }" % (tag, img, off, img, (off + 5) % 8))
            obl.append(("w_baswap_" + tag, "pixswap", (off, (off + 5) % 8, tot, "swap(bit_aligned_pixel_reference<%s>)@%d" % (img, off))))
    # packed_pixel channel access
    for pix, sizes in (("bgr565_pixel_t", (5, 6, 5)), ("rgb565_pixel_t", (5, 6, 5))):
        for kch, sz in enumerate(sizes):
            first = sum(sizes[:kch])
            L.append("void w_ppset_%s_%d(%s& px, std::uint8_t v){ at_c<%d>(px) = v; }" % (pix, kch, pix, kch))
            obl.append(("w_ppset_%s_%d" % (pix, kch), "set", (16, first, sz, "packed_pixel %s at_c<%d>" % (pix, kch))))
            L.append("std::uint8_t w_ppget_%s_%d(%s const& px){ return (std::uint8_t)at_c<%d>(px); }" % (pix, kch, pix, kch))
            obl.append(("w_ppget_%s_%d" % (pix, kch), "get", (16, first, sz, "packed_pixel %s at_c<%d>" % (pix, kch))))
    body = L[3:]
    assert len(body) == len(obl)
    NCH = 16
    fns = {}

    def work(ci):
        lines = L[:3] + body[ci::NCH] + ["}"]
        src = os.path.join(wd, "c08_%d.cpp" % ci)
        open(src, "w").write("\n".join(lines) + "\n")
        bc = C.emit_ir(src, os.path.join(wd, "c08_%d.bc" % ci))
        dump = C.irdump(bc, os.path.join(wd, "c08_%d.json" % ci))
        return {f["name"]: f for f in dump["functions"]}
    for d in C.pmap(work, range(NCH)):
        fns.update(d)
    rep.units.append("generated driver c08_driver.cpp: %d wrappers" % len(obl))
    rep.trusted += ["clang 14 front end and LLVM inliner/SROA/mem2reg", "bit transfer functions harness/ir/bits.py",
                    "little-endian byte order of the target (x86-64), as the library itself assumes"]
    rep.assumptions += ["value assigned through operator=(integer) is <= max (documented precondition, BOOST_ASSERT)"]
    rep.rule("set: stored bits [first,first+N) == value bits 0..N-1 in order; every other stored bit is its own previous value")
    rep.rule("get: returned bits == carrier bits [first,first+N), zero-extended")
    rep.rule("copy: reference-to-reference assignment copies the same-position bits and nothing else")
    rep.rule("confined: ++/--/+=/-=/*= leave every bit outside [first,first+N) unchanged")
    rep.rule("pixcopy/pixswap: whole bit-aligned pixel assignment/swap moves exactly the pixel's bits, in order")
    for name, kind, prm in obl:
        rep.count("obligations:" + kind)
        fn = fns.get(name)
        if fn is None:
            rep.fail_analysis("wrapper %s missing" % name)
            continue
        bf, first, n, what = prm
        key = "%s:%s" % (kind, what) + ("<%s,%d,%d>" % (bf, first, n) if kind not in ("pixcopy", "pixswap") and bf else "")
        where = "include/boost/gil/channel.hpp / bit_aligned_pixel_reference.hpp"
        try:
            it = BitsInterp(fn, arg_bits={"a1": n} if kind == "set" else {})
            it.run()
        except Unsupported as e:
            rep.fail_analysis("%s: %s" % (key, e))
            continue
        mem = it.final_memory()
        bad = None
        if kind in ("set", "copy", "confined"):
            for (root, off), bits in sorted(mem.items()):
                if root != "a0":
                    bad = "store to unexpected object %s+%d" % (root, off)
                    break
                for i, b in enumerate(bits):
                    pos = off * 8 + i
                    if first <= pos < first + n:
                        if kind == "set":
                            want = ("in", "a1", pos - first)
                        elif kind == "copy":
                            want = own("a1", pos)
                        else:
                            continue
                    else:
                        want = own("a0", pos)
                    if b != want:
                        bad = "bit %d of the carrier: got %r, expected %r" % (pos, b, want)
                        break
                if bad:
                    break
            if not bad and kind in ("set", "copy"):
                covered = set(off * 8 + i for (root, off) in mem for i in range(8))
                if not set(range(first, first + n)) <= covered:
                    bad = "channel bits %s not all written (written bytes: %s)" % ((first, first + n), sorted(mem))
        elif kind == "get":
            rb = it.ret_bits()
            want = [own("a0", first + i) for i in range(n)]
            want += [0] * (len(rb) - n)
            if rb != want:
                bad = "returned bits %r, expected %r" % (rb, want)
            if mem:
                bad = "get() stores to memory: %s" % sorted(mem)
        elif kind == "pixcopy":
            od, os_, tot = bf, first, n
            for (root, off), bits in sorted(mem.items()):
                if root != "a0":
                    bad = "store to unexpected object %s" % root
                    break
                for i, b in enumerate(bits):
                    pos = off * 8 + i
                    want = own("a1", os_ + pos - od) if od <= pos < od + tot else own("a0", pos)
                    if b != want:
                        bad = "bit %d: got %r expected %r" % (pos, b, want)
                        break
                if bad:
                    break
            covered = set(off * 8 + i for (root, off) in mem for i in range(8))
            if not bad and not set(range(od, od + tot)) <= covered:
                bad = "pixel bits not all written"
        elif kind == "pixswap":
            oa, ob, tot = bf, first, n
            for (root, off), bits in sorted(mem.items()):
                mine, other, o1, o2 = ("a0", "a1", oa, ob) if root == "a0" else ("a1", "a0", ob, oa)
                if root not in ("a0", "a1"):
                    bad = "store to unexpected object %s" % root
                    break
                for i, b in enumerate(bits):
                    pos = off * 8 + i
                    want = own(other, o2 + pos - o1) if o1 <= pos < o1 + tot else own(mine, pos)
                    if b != want:
                        bad = "%s bit %d: got %r expected %r" % (root, pos, b, want)
                        break
                if bad:
                    break
        if bad:
            rep.violation(kind, key, where, {"wrapper": name, "problem": bad})
        else:
            rep.ok(kind, key, {"bytes_written": sorted("%s+%d" % k for k in mem)})
    bit_range_invariant(rep)
    rep.floor("obligations:set", 40)
    rep.floor("obligations:get", 40)
    rep.floor("obligations:copy", 40)
    rep.floor("obligations:confined", 100)
    rep.floor("obligations:pixcopy", 40)


def bit_range_invariant(rep):
    """0 <= _bit_offset <= 7 is preserved by bit_advance(n), ++ and -- for every range size (interval analysis with
    branch refinement); a violated bound is confirmed by constant propagation of a candidate (offset, n)"""
    from .ir.num import NumInterp, Unsupported as NU
    wd = C.workpath("C08")
    sizes = (1, 2, 3, 4, 5, 7, 8, 12, 16)
    L = ['#include "vf_common.hpp"', 'using namespace vf;', 'extern "C" {']
    obl = []
    for r in sizes:
        L.append("int w_adv_%d(unsigned char* p, int off, std::ptrdiff_t n){ bit_range<%d,true> r(p, off); r.bit_advance(n); return r.bit_offset(); }" % (r, r))
        obl.append(("w_adv_%d" % r, "bit_advance(n)", r, True))
        L.append("int w_inc_%d(unsigned char* p, int off){ bit_range<%d,true> r(p, off); ++r; return r.bit_offset(); }" % (r, r))
        obl.append(("w_inc_%d" % r, "operator++", r, False))
        L.append("int w_dec_%d(unsigned char* p, int off){ bit_range<%d,true> r(p, off); --r; return r.bit_offset(); }" % (r, r))
        obl.append(("w_dec_%d" % r, "operator--", r, False))
    L.append("}")
    src = os.path.join(wd, "c08_bitrange.cpp")
    open(src, "w").write("\n".join(L) + "\n")
    bc = C.emit_ir(src, src[:-4] + ".bc")
    d = C.irdump(bc, src[:-4] + ".json")
    fns = {f["name"]: f for f in d["functions"]}
    rep.rule("bit-offset invariant: for 0<=offset<=7 and any n, bit_advance(n), ++ and -- leave 0<=offset<=7 (the normal form every comparison and access relies on)")
    for name, what, r, has_n in obl:
        rep.count("obligations:bit-offset")
        key = "bit-offset:bit_range<%d>::%s" % (r, what)
        inputs = {"a1": ("int", 32, 0, 7)}
        if has_n:
            inputs["a2"] = ("int", 64, -(1 << 20), 1 << 20)
        try:
            it = NumInterp(fns[name], inputs)
            ret = it.run()
            ret = it.as_signed(ret, {}) if ret is not None else None
        except NU as e:
            rep.incon("bit-offset", key, str(e))
            continue
        if ret is not None and not ret.top and ret.lo >= 0 and ret.hi <= 7:
            rep.ok("bit-offset", key, "[%s,%s]" % (ret.lo, ret.hi))
            continue
        # confirm with a concrete candidate
        wit = None
        cands = [(o, n) for o in range(8) for n in (range(-40, 41) if has_n else [0])]
        for o, n in cands:
            inp = {"a1": ("int", 32, o, o)}
            if has_n:
                inp["a2"] = ("int", 64, n, n)
            try:
                it2 = NumInterp(fns[name], inp)
                r2 = it2.run()
                r2 = it2.as_signed(r2, {}) if r2 is not None else None
            except NU:
                continue
            if r2 is not None and not r2.top and r2.is_const() and not (0 <= r2.lo <= 7):
                wit = {"offset": o, "n_bits": n, "resulting_offset": int(r2.lo)}
                break
        if wit:
            rep.violation("bit-offset", key, "include/boost/gil/bit_aligned_pixel_reference.hpp (bit_range)", {"range": [str(ret.lo), str(ret.hi)] if ret is not None else None, "witness": wit})
        else:
            rep.incon("bit-offset", key, "range %s not within [0,7] and no witness" % ([str(ret.lo), str(ret.hi)] if ret is not None else None))
    rep.floor("obligations:bit-offset", 20)
    bit_index_law(rep, wd, sizes)


def bit_index_law(rep, wd, sizes):
    """the linear bit index 8*byte + offset moves by exactly the requested amount (polynomial identity, both carry branches)"""
    from .ir.poly import PolyInterp, Unsupported as PU
    rep.rule("bit-index: for bit_range<R>: after bit_advance(n) the bit index 8*byte+offset has grown by n, after ++/-- by +R/-R; bit_distance_to(b) is the "
             "difference of the bit indices; bit_aligned_pixel_iterator: it+n advances the index by n*R and (it+n)-it == n")
    L = ['#include "vf_common.hpp"', 'using namespace vf;', 'extern "C" {']
    obl = []
    for r in sizes:
        t = "bit_range<%d,true>" % r
        L.append("iptr w_bil_adv_%d(unsigned char* p, int off, std::ptrdiff_t n){ %s r(p, off); r.bit_advance(n); return 8*(iptr)r.current_byte() + r.bit_offset(); }" % (r, t))
        L.append("iptr w_bir_adv_%d(unsigned char* p, int off, std::ptrdiff_t n){ return 8*(iptr)p + off + n; }" % r)
        obl.append(("adv_%d" % r, "bit_range<%d>::bit_advance(n)" % r))
        L.append("iptr w_bil_inc_%d(unsigned char* p, int off, std::ptrdiff_t n){ %s r(p, off); ++r; return 8*(iptr)r.current_byte() + r.bit_offset(); }" % (r, t))
        L.append("iptr w_bir_inc_%d(unsigned char* p, int off, std::ptrdiff_t n){ return 8*(iptr)p + off + %d; }" % (r, r))
        obl.append(("inc_%d" % r, "bit_range<%d>::operator++" % r))
        L.append("iptr w_bil_dec_%d(unsigned char* p, int off, std::ptrdiff_t n){ %s r(p, off); --r; return 8*(iptr)r.current_byte() + r.bit_offset(); }" % (r, t))
        L.append("iptr w_bir_dec_%d(unsigned char* p, int off, std::ptrdiff_t n){ return 8*(iptr)p + off - %d; }" % (r, r))
        obl.append(("dec_%d" % r, "bit_range<%d>::operator--" % r))
        L.append("iptr w_bil_dist_%d(unsigned char* p, int off, std::ptrdiff_t n, unsigned char* q, int off2){ %s a(p, off), b(q, off2); return a.bit_distance_to(b); }" % (r, t))
        L.append("iptr w_bir_dist_%d(unsigned char* p, int off, std::ptrdiff_t n, unsigned char* q, int off2){ return (8*(iptr)q + off2) - (8*(iptr)p + off); }" % r)
        obl.append(("dist_%d" % r, "bit_range<%d>::bit_distance_to" % r))
    L.append("}")
    src = os.path.join(wd, "c08_bitindex.cpp")
    open(src, "w").write("\n".join(L) + "\n")
    bc = C.emit_ir(src, src[:-4] + ".bc")
    d = C.irdump(bc, src[:-4] + ".json")
    fns = {f["name"]: f for f in d["functions"]}
    for tag, desc in obl:
        rep.count("obligations:bit-index")
        key = "bit-index:" + desc
        try:
            rng = {"a1": (0, 7), "a4": (0, 7)}
            a = PolyInterp(fns["w_bil_" + tag], facts=lambda at: rng.get(at)).run()
            b = PolyInterp(fns["w_bir_" + tag]).run()
        except (PU, KeyError) as e:
            rep.fail_analysis("%s: IR not supported: %s" % (key, e))
            continue
        if a == b:
            rep.ok("bit-index", key, repr(b)[:120])
        else:
            rep.violation("bit-index", key, "include/boost/gil/bit_aligned_pixel_reference.hpp (bit_range)", {"after": repr(a)[:600], "expected": repr(b)[:300], "difference": repr(a - b)[:400]})
    rep.floor("obligations:bit-index", 4 * len(sizes))
