// C19 replay: fill_histogram(..., accumulate = true, sparsefill = false) wipes the counts it should add to
// g++ -std=c++14 -I/repo/include dense_accumulate.cpp && ./a.out
#include <boost/gil.hpp>
#include <boost/gil/histogram.hpp>
#include <cstdio>
namespace gil = boost::gil;
int main()
{
    gil::gray8_image_t img(4, 3, gil::gray8_pixel_t(5));
    gil::histogram<int> h;
    std::vector<std::vector<bool>> mask;
    auto lo = std::make_tuple(0), hi = std::make_tuple(9);
    gil::fill_histogram(gil::view(img), h, 1, false, false, false, mask, lo, hi, true);
    double first = h(5);
    gil::fill_histogram(gil::view(img), h, 1, /*accumulate*/ true, /*sparsefill*/ false, false, mask, lo, hi, true);
    std::printf("after the first fill bin 5 = %g, after the accumulating dense fill bin 5 = %g (expected %g)\n", first, h(5), 2 * first);
    gil::histogram<int> s;
    gil::fill_histogram(gil::view(img), s, 1, false, true, false, mask, lo, hi, true);
    gil::fill_histogram(gil::view(img), s, 1, true, true, false, mask, lo, hi, true);
    std::printf("sparse accumulate for comparison: bin 5 = %g\n", s(5));
    return h(5) == 2 * first ? 0 : 1;
}
