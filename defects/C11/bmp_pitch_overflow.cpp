// C11 / R8: the bmp readers computed the row pitch  width * bytes_per_pixel  in int.
// A 58-byte 24-bit file that declares a width of 1431655766 makes the product 2^32 + 2, which wrapped to 2: the row buffer got
// 4 bytes and the pixel copy read 4 GiB from it (SIGSEGV / heap over-read).
// After the fix the pitch is computed in 64 bits: the reader allocates the 4 GiB row it needs; the file is truncated, which the bmp reader
// does not notice (its short reads are the separate known finding R1), so it returns a zero-filled image or std::bad_alloc -- no out-of-bounds access.
// Build: g++ -std=c++14 -O1 -I /repo/include bmp_pitch_overflow.cpp && ./a.out
#include <boost/gil.hpp>
#include <boost/gil/extension/io/bmp.hpp>
#include <cstdio>
#include <sstream>
#include <string>
using namespace boost::gil;
int main()
{
    std::string f;
    auto u8 = [&](unsigned v) { f.push_back(char(v)); };
    auto u16 = [&](unsigned v) { u8(v & 255); u8((v >> 8) & 255); };
    auto u32 = [&](unsigned v) { u16(v & 65535); u16(v >> 16); };
    u8('B'); u8('M'); u32(58); u16(0); u16(0); u32(54);          // file header: size, reserved, offset of the pixel data
    u32(40); u32(1431655766u); u32(1); u16(1); u16(24); u32(0);  // info header: size, width, height, planes, bpp, BI_RGB
    u32(0); u32(0); u32(0); u32(0); u32(0);                      // image size, resolution, colors
    u32(0x01020304);                                             // "one row"
    std::istringstream in(f, std::ios::binary);
    rgb8_image_t img;
    try
    {
        read_image(in, img, bmp_tag());
        std::printf("read %ldx%ld without leaving the row buffer\n", (long)img.width(), (long)img.height());
        return 0;
    }
    catch (std::exception const& e)
    {
        std::printf("rejected: %s\n", e.what());
        return 0;
    }
    return 1;
}
