"""C05 pixel operations pair channels by colour -- memory-effect (D-bits) and address (D-poly) analysis
over the cross product (pixel model x layout) x (pixel model x layout)."""
import os, re, json, itertools
from . import common as C
from .ir.bits import BitsInterp
from .ir.poly import PolyInterp, Poly, Unsupported

LEVEL = "other"
EXPLANATION = ("Static analysis: for every ordered pair of compatible pixel models (value / C++ reference, planar reference, "
               "packed pixel, bit-aligned reference) and every pair of layouts of one colour space, the inlined IR of "
               "assignment and converting construction is interpreted in the bit-provenance domain: each destination cell of "
               "colour c must receive exactly the source cell of colour c, bit for bit, every destination cell is written and "
               "nothing else is. The cell<->colour map is taken from spec/c05_layouts.json and each model's documented storage "
               "order, not from the code under test. Equality must be the conjunction of the same-colour comparisons (boolean "
               "polynomial). at_c / semantic_at_c / get_color / operator[] addresses are compared as polynomials with the "
               "documented mapping; static_for_each/transform/generate/fill with an opaque functor must call it exactly once "
               "per channel with same-colour arguments.")

SPEC = None


def spec():
    global SPEC
    if SPEC is None:
        SPEC = json.load(open(os.path.join(C.SPEC, "c05_layouts.json")))
    return SPEC


class Model:
    """one pixel model instance in a wrapper: parameters, setup code, expression, expected cells"""

    def __init__(self, kind, layout, sizes=None, off=0, bf=None):
        self.kind, self.layout, self.off = kind, layout, off
        self.bf = bf            # an explicit BitField type (default: the smallest type that holds the pixel at any bit offset, as bit_aligned_image_type picks it)
        sp = spec()
        self.space = sp["layouts"][layout]["space"]
        self.colors = sp["color_spaces"][self.space]
        self.mem = sp["layouts"][layout]["memory_order"]
        self.n = len(self.colors)
        self.csizes = sizes     # bits per colour (semantic order) for packed models

    def tag(self):
        return "%s%s_%s%s" % (self.kind, "8" if self.bf else "", self.layout.replace("_layout_t", "").replace("<", "").replace(">", ""), ("o%d" % self.off) if self.kind == "bits" else "")

    def phys_sizes(self):
        return [self.csizes[self.colors.index(c)] for c in self.mem]

    def cxx_type(self, const=False):
        if self.kind == "val":
            return "pixel<std::uint8_t, %s>" % self.layout
        if self.kind == "planar":
            return "planar_pixel_reference<std::uint8_t%s&, %s>" % (" const" if const else "", self.space)
        ps = ",".join(str(x) for x in self.phys_sizes())
        tot = sum(self.csizes)
        if self.kind == "packed":
            bf = "std::uint8_t" if tot <= 8 else ("std::uint16_t" if tot <= 16 else "std::uint32_t")
            return "packed_pixel_type<%s, mp11::mp_list_c<unsigned,%s>, %s>::type" % (bf, ps, self.layout)
        if self.kind == "bits":
            return "bit_aligned_pixel_reference<%s, mp11::mp_list_c<int,%s>, %s, %s>" % (self.bitfield(), ps, self.layout, "false" if const else "true")
        raise ValueError(self.kind)

    def bitfield(self):
        if self.bf:
            return self.bf
        tot = sum(self.csizes) + 7
        return "std::uint8_t" if tot <= 8 else ("std::uint16_t" if tot <= 16 else ("std::uint32_t" if tot <= 32 else "std::uint64_t"))

    def nargs(self):
        return self.n if self.kind == "planar" else 1

    def params(self, first, const):
        """returns (param decls, setup statements, expression) using argument names p<first>.."""
        if self.kind in ("val", "packed"):
            return (["%s%s& p%d" % (self.cxx_type(), " const" if const else "", first)], [], "p%d" % first)
        if self.kind == "planar":
            ps = ["std::uint8_t%s* p%d" % (" const" if const else "", first + i) for i in range(self.n)]
            nm = "pl%d" % first
            return (ps, ["%s %s(%s);" % (self.cxx_type(const), nm, ", ".join("*p%d" % (first + i) for i in range(self.n)))], nm)
        if self.kind == "bits":
            nm = "br%d" % first
            return (["unsigned char%s* p%d" % (" const" if const else "", first)],
                    ["%s %s(p%d, %d);" % (self.cxx_type(const), nm, first, self.off)], nm)

    def cells(self, first):
        """expected cell of every colour: colour -> (root arg, bit offset, nbits)"""
        out = {}
        for ci, c in enumerate(self.colors):
            if self.kind == "val":
                out[c] = ("a%d" % first, 8 * self.mem.index(c), 8)
            elif self.kind == "planar":
                out[c] = ("a%d" % (first + ci), 0, 8)       # planar references are always in colour-space order
            else:
                ps = self.phys_sizes()
                k = self.mem.index(c)
                out[c] = ("a%d" % first, self.off + sum(ps[:k]), ps[k])
        return out


def families(tier):
    fam = []
    # byte-channel family
    for space, layouts in (("rgb_t", ["rgb_layout_t", "bgr_layout_t"]), ("rgba_t", ["rgba_layout_t", "bgra_layout_t", "argb_layout_t", "abgr_layout_t"]),
                           ("cmyk_t", ["cmyk_layout_t"]), ("gray_t", ["gray_layout_t"]),
                           ("devicen_t<2>::type", ["devicen_layout_t<2>"]), ("devicen_t<5>::type", ["devicen_layout_t<5>"])):
        ms = [Model("val", l) for l in layouts] + [Model("planar", layouts[0])]
        if space == "gray_t":
            ms = [Model("val", layouts[0])]
        fam.append(("byte/" + space, ms))
    # packed / bit-aligned family (asymmetric channel sizes so that an index error moves bits visibly)
    for space, layouts, sizes in (("rgb_t", ["rgb_layout_t", "bgr_layout_t"], (3, 5, 8)),
                                  ("rgba_t", ["rgba_layout_t", "bgra_layout_t", "argb_layout_t", "abgr_layout_t"], (2, 3, 5, 6))):
        ms = []
        for l in layouts:
            ms.append(Model("packed", l, sizes))
            offs = (0, 3, 7) if tier == "thorough" else (3,)
            for o in offs:
                ms.append(Model("bits", l, sizes, o))
        fam.append(("packed/" + space, ms))
    # the bit-aligned reference of the library's own documentation (doc/design/pixel.rst, the class comment, test/legacy/pixel.cpp): a 7-bit pixel over an
    # `unsigned char` bit field, which holds the pixel at bit offset 0 or 1 only
    ms = [Model("packed", "bgr_layout_t", (2, 3, 2))] + [Model("bits", "bgr_layout_t", (2, 3, 2), o, bf="std::uint8_t") for o in ((0, 1, 2, 5) if tier == "thorough" else (0, 2))]
    fam.append(("documented-bitfield/rgb_t", ms))
    return fam


def bitname(root, pos):
    return ("in", ("m", root, pos // 8), pos % 8)


DEVICEN_WITNESS = r"""
#include "vf_common.hpp"
using namespace vf;
// the view factories of every provided colour space over planar data (the DeviceN ones are the only way to a planar view of 2..5 unnamed channels)
void inst(unsigned char* a, unsigned char* b, unsigned char* c, unsigned char* d, unsigned char* e){
  auto v2 = planar_devicen_view(2, 2, a, b, 2); auto v3 = planar_devicen_view(2, 2, a, b, c, 2);
  auto v4 = planar_devicen_view(2, 2, a, b, c, d, 2); auto v5 = planar_devicen_view(2, 2, a, b, c, d, e, 2);
  auto r3 = planar_rgb_view(2, 2, a, b, c, 2); auto r4 = planar_rgba_view(2, 2, a, b, c, d, 2); auto k4 = planar_cmyk_view(2, 2, a, b, c, d, 2);
  v2(0, 0) = v2(1, 1); v3(0, 0) = v3(1, 1); v4(0, 0) = v4(1, 1); v5(0, 0) = v5(1, 1); r3(0, 0) = r3(1, 1); r4(0, 0) = r4(1, 1); k4(0, 0) = k4(1, 1);
  (void)(v5(0, 0) == v5(1, 1)); (void)at_c<4>(v5(0, 0)); (void)semantic_at_c<1>(v2(0, 0));
}
"""


def factories_compile(rep, wd):
    rep.rule("X0 the planar view factories of every provided colour space (planar_rgb_view, planar_rgba_view, planar_cmyk_view, planar_devicen_view for 2..5 channels) instantiate, "
             "and pixels of their views can be assigned, compared and indexed: a planar reference model that cannot be formed is not covered by any other rule")
    src = os.path.join(wd, "devicen_witness.cpp")
    open(src, "w").write(DEVICEN_WITNESS)
    rc, err, cmd = C.syntax_only(src)
    rep.count("obligations:X0")
    if rc == 0:
        rep.ok("X0-factories", "X0:planar view factories of rgb, rgba, cmyk, devicen 2..5", "compile")
        return
    seen = set()
    for e in C.parse_errors(err)[:20]:
        if "include/boost/gil/" not in e["file"]:
            continue
        key = "X0:%s:%s" % (C.repo_rel(e["file"]), re.sub(r"'[^']{40,}'", "'...'", e["msg"])[:100])
        if key in seen:
            continue
        seen.add(key)
        rep.violation("X0-factories", key, "%s:%s" % (C.repo_rel(e["file"]), e["line"]), {"error": e["msg"][:300], "example": "auto v = planar_devicen_view(2, 2, plane0, plane1, 2);"})
    if not seen:
        raise C.AnalysisBroken("planar factory witness does not compile: %s" % err[-500:])


def run(rep):
    C.need_tools(C.IRDUMP)
    wd = C.workdir("C05")
    factories_compile(rep, wd)
    lines, obl = [], []

    def emit(name, params, body):
        lines.append("void %s(%s){ %s }" % (name, ", ".join(params), " ".join(body)))
    n = 0
    for fname, ms in families(rep.tier):
        for d, s in itertools.product(ms, ms):
            n += 1
            dp, dsetup, dexpr = d.params(0, False)
            sp, ssetup, sexpr = s.params(d.nargs(), True)
            # assignment
            nm = "w_asg_%d" % n
            emit(nm, dp + sp, dsetup + ssetup + ["%s = %s;" % (dexpr, sexpr)])
            obl.append((nm, "assign", d, s, fname))
            # converting construction (value-type destinations only)
            if d.kind in ("val", "packed"):
                nm = "w_ctor_%d" % n
                emit(nm, dp + sp, ssetup + ["::new((void*)&p0) %s(%s);" % (d.cxx_type(), sexpr)])
                obl.append((nm, "construct", d, s, fname))
            # equality (byte family: polynomial conjunction)
            if fname.startswith("byte/"):
                nm = "w_eq_%d" % n
                dpc, dsetupc, dexprc = d.params(0, True)
                lines.append("iptr %s(%s){ %s return (iptr)(%s == %s); }" % (nm, ", ".join(dpc + sp), " ".join(dsetupc + ssetup), dexprc, sexpr))
                obl.append((nm, "equal", d, s, fname))
                nm = "w_ne_%d" % n
                lines.append("iptr %s(%s){ %s return (iptr)(%s != %s); }" % (nm, ", ".join(dpc + sp), " ".join(dsetupc + ssetup), dexprc, sexpr))
                obl.append((nm, "notequal", d, s, fname))
    # addressing: at_c / semantic_at_c / get_color / operator[] / dynamic_at_c on byte values
    for fname, ms in families(rep.tier):
        if not fname.startswith("byte/"):
            # packed: get_color returns the colour's bits
            for m in ms:
                mp, msetup, mexpr = m.params(0, True)
                for ci, c in enumerate(m.colors):
                    n += 1
                    nm = "w_gc_%d" % n
                    lines.append("std::uint32_t %s(%s){ %s return (std::uint32_t)get_color(%s, %s()); }" % (nm, ", ".join(mp), " ".join(msetup), mexpr, c))
                    obl.append((nm, "get_color_bits", m, c, fname))
                    n += 1
                    nm = "w_sc_%d" % n
                    lines.append("std::uint32_t %s(%s){ %s return (std::uint32_t)semantic_at_c<%d>(%s); }" % (nm, ", ".join(mp), " ".join(msetup), ci, mexpr))
                    obl.append((nm, "get_color_bits", m, c, fname))
                    n += 1
                    nm = "w_ac_%d" % n
                    k = m.mem.index(c)
                    lines.append("std::uint32_t %s(%s){ %s return (std::uint32_t)at_c<%d>(%s); }" % (nm, ", ".join(mp), " ".join(msetup), k, mexpr))
                    obl.append((nm, "get_color_bits", m, c, fname))
            continue
        for m in ms:
            mp, msetup, mexpr = m.params(0, False)
            for ci, c in enumerate(m.colors):
                for what, expr in (("get_color", "get_color(%s, %s())" % (mexpr, c)), ("semantic_at_c", "semantic_at_c<%d>(%s)" % (ci, mexpr))):
                    n += 1
                    nm = "w_ad_%d" % n
                    lines.append("iptr %s(%s){ %s return (iptr)&%s; }" % (nm, ", ".join(mp), " ".join(msetup), expr))
                    obl.append((nm, "address", m, (what, c), fname))
            if m.kind in ("val", "planar"):
                for k in range(m.n):
                    for what, expr in (("at_c", "at_c<%d>(%s)" % (k, mexpr)), ("operator[]", "%s[%d]" % (mexpr, k)), ("dynamic_at_c", "dynamic_at_c(%s, %d)" % (mexpr, k))):
                        if m.kind == "planar" and what == "dynamic_at_c":
                            continue        # does not compile for reference elements (pointer to reference); operator[] is the run-time accessor
                        n += 1
                        nm = "w_ad_%d" % n
                        lines.append("iptr %s(%s){ %s return (iptr)&%s; }" % (nm, ", ".join(mp), " ".join(msetup), expr))
                        obl.append((nm, "address", m, (what, m.mem[k]), fname))
    # static_* with opaque functor
    lines_pre = ['extern "C" void sink1(void*); extern "C" void sink2(void const*, void*); extern "C" std::uint8_t gen0(); extern "C" std::uint8_t op1(void const*); extern "C" std::uint8_t op2(void const*, void const*);',
                 'extern "C" void sink3(void const*, void const*, void const*); extern "C" std::uint8_t op1m(void*); ',
                 'struct fany { template <class A> void operator()(A& a) const { sink1((void*)&a); } template <class A, class B> void operator()(A& a, B& b) const { sink2((void const*)&a, (void*)&b); } template <class A, class B, class D> void operator()(A& a, B& b, D& d) const { sink3((void const*)&a, (void const*)&b, (void const*)&d); } };',
                 'struct tany { template <class A> std::uint8_t operator()(A& a) const { return op1((void const*)&a); } template <class A, class B> std::uint8_t operator()(A& a, B& b) const { return op2((void const*)&a, (void const*)&b); } };',
                 'struct f1 { template <class A> void operator()(A& a) const { sink1((void*)&a); } };',
                 'struct f2 { template <class A, class B> void operator()(A const& a, B& b) const { sink2((void const*)&a, (void*)&b); } };',
                 'struct g0 { std::uint8_t operator()() const { return gen0(); } };',
                 'struct t1 { template <class A> std::uint8_t operator()(A const& a) const { return op1((void const*)&a); } };',
                 'struct t2 { template <class A, class B> std::uint8_t operator()(A const& a, B const& b) const { return op2((void const*)&a, (void const*)&b); } };']
    for fname, ms in families(rep.tier):
        if not fname.startswith("byte/"):
            continue
        vals = [m for m in ms if m.kind == "val"]
        lay = vals[:3]
        import itertools as _it
        # static_for_each with 1..3 pixels, every const/non-const overload, mixed layouts
        for k in (1, 2, 3):
            for combo in _it.product(lay, repeat=k) if k < 3 else [tuple(lay[(a + b) % len(lay)] for b in range(3)) for a in range(len(lay))]:
                for consts in _it.product((True, False), repeat=k):
                    n += 1
                    ps = ", ".join("%s%s& p%d" % (m.cxx_type(), " const" if c else "", ix) for ix, (m, c) in enumerate(zip(combo, consts)))
                    lines.append("void w_sfe_%d(%s){ static_for_each(%s, fany()); }" % (n, ps, ", ".join("p%d" % ix for ix in range(k))))
                    obl.append(("w_sfe_%d" % n, "static_for_each", list(combo), "".join("c" if c else "m" for c in consts), fname))
        for k in (1, 2):
            for combo in _it.product(lay, repeat=k):
                for d in lay[:2]:
                    for consts in _it.product((True, False), repeat=k):
                        n += 1
                        ps = ", ".join("%s%s& p%d" % (m.cxx_type(), " const" if c else "", ix) for ix, (m, c) in enumerate(zip(combo, consts)))
                        lines.append("void w_str_%d(%s, %s& p%d){ static_transform(%s, p%d, tany()); }" % (n, ps, d.cxx_type(), k, ", ".join("p%d" % ix for ix in range(k)), k))
                        obl.append(("w_str_%d" % n, "static_transform", (list(combo), d), "".join("c" if c else "m" for c in consts), fname))
        for m in vals:
            n += 1
            lines.append("void w_sfill_%d(%s& p0, std::uint8_t v){ static_fill(p0, v); }" % (n, m.cxx_type()))
            obl.append(("w_sfill_%d" % n, "static_fill", m, None, fname))
            lines.append("void w_sgen_%d(%s& p0){ static_generate(p0, g0()); }" % (n, m.cxx_type()))
            obl.append(("w_sgen_%d" % n, "static_generate", m, None, fname))
            # static_max / static_min: the address returned by the non-const overload, the value returned by the const overload
            for which in ("max", "min"):
                lines.append("iptr w_sx%s_%d(%s& p0){ return (iptr)&static_%s(p0); }" % (which, n, m.cxx_type(), which))
                obl.append(("w_sx%s_%d" % (which, n), "static_extremum", m, (which, "address"), fname))
                lines.append("std::uint8_t w_sxc%s_%d(%s const& p0){ return static_%s(p0); }" % (which, n, m.cxx_type(), which))
                obl.append(("w_sxc%s_%d" % (which, n), "static_extremum", m, (which, "value"), fname))
        # planar reference built from a mutable pixel, and reference-of-channels pixels: cells by colour
        for m in vals:
            if m.n < 3 or m.n > 4:
                continue            # the 5-element colour base has no constructor from a mutable colour base (not part of the property)
            for ci, c in enumerate(m.colors):
                n += 1
                lines.append("iptr w_ad_%d(%s& p0){ planar_pixel_reference<std::uint8_t&, %s> r(p0); return (iptr)&semantic_at_c<%d>(r); }" % (n, m.cxx_type(), m.space, ci))
                obl.append(("w_ad_%d" % n, "address", m, ("planar_pixel_reference(pixel&)", c), fname))
                n += 1
                lines.append("iptr w_ad_%d(%s const& p0){ pixel<std::uint8_t const&, %s> r(p0); return (iptr)&get_color(r, %s()); }" % (n, m.cxx_type(), vals[-1].layout, c))
                obl.append(("w_ad_%d" % n, "address", m, ("pixel<T const&,L2>(pixel<T,L> const&)", c), fname))
    NCH = 16
    head = ['#include "vf_common.hpp"', 'using namespace vf;'] + lines_pre + ['extern "C" {']
    fns = {}

    def work(ci):
        src = os.path.join(wd, "c05_%d.cpp" % ci)
        open(src, "w").write("\n".join(head + lines[ci::NCH] + ["}"]) + "\n")
        bc = C.emit_ir(src, src[:-4] + ".bc")
        dump = C.irdump(bc, src[:-4] + ".json")
        return {f["name"]: f for f in dump["functions"]}
    for dd in C.pmap(work, range(NCH)):
        fns.update(dd)
    rep.units.append("generated drivers c05_*.cpp: %d wrappers" % len(obl))
    rep.trusted += ["clang 14 front end and LLVM inliner/SROA/mem2reg", "harness/ir/bits.py, harness/ir/poly.py",
                    "spec/c05_layouts.json (documented colour order of each layout)", "little-endian target"]
    rep.assumptions += ["source and destination pixels are distinct objects (no aliasing between wrapper arguments)"]
    rep.rule("assign/construct: dst cell of colour c <- src cell of colour c bit for bit; all dst cells written; nothing else written")
    rep.rule("equal: result is the product (conjunction) of CMP_eq over the same-colour cell pairs; != is its complement")
    rep.rule("address: &at_c<K> = base+K, &semantic_at_c<K> = &get_color(colour K) = base + position of that colour in the layout")
    rep.rule("get_color_bits: packed/bit-aligned get_color/semantic_at_c/at_c return exactly the colour's bit range")
    rep.rule("static_*: the opaque functor is called exactly once per channel with same-colour cells; results stored to the same colour")
    rep.rule("static_max / static_min (const and non-const overload, every byte layout): the inlined IR is a comparison-only select chain; interpreted over every weak "
             "ordering of the channels (the finite set a comparison-only computation can distinguish) it returns a channel of the largest / smallest rank")
    W = "include/boost/gil/color_base.hpp, color_base_algorithm.hpp, pixel.hpp, packed_pixel.hpp, planar_pixel_reference.hpp, bit_aligned_pixel_reference.hpp"
    for o in obl:
        name, kind = o[0], o[1]
        rep.count("obligations:" + kind)
        fn = fns.get(name)
        if fn is None:
            rep.fail_analysis("wrapper %s missing" % name)
            continue
        try:
            check_one(rep, fn, o, W)
        except Unsupported as e:
            rep.fail_analysis("%s: %s" % (name, e))
    # the documented-bitfield family: a channel that straddles the end of the (too narrow) bit field fails in every operation that touches it; report one violation per
    # offending reference model (offset) with the operations as detail, instead of one per operation pair
    narrow = {}
    keep = []
    for v in rep.violations:
        ms = re.findall(r"bits8_(\w+?)o(\d)", v["key"])
        offenders = sorted({"bits8_%so%s" % (l, o_) for l, o_ in ms if any((int(o_) + a_) // 8 != (int(o_) + b_ - 1) // 8 for a_, b_ in ((0, 2), (2, 5), (5, 7)))})
        if offenders:
            for m_ in offenders:
                narrow.setdefault(m_, []).append("%s %s: %s" % (v["rule"], v["key"], (v["detail"] or {}).get("problem", "")[:90]))
        else:
            keep.append(v)
    rep.violations[:] = keep
    for m_, ops in sorted(narrow.items()):
        rep.violations.append({"rule": "narrow-bitfield", "key": "narrow-bitfield:%s:a channel crosses the end of the 8-bit BitField" % m_, "where": "include/boost/gil/bit_aligned_pixel_reference.hpp, channel.hpp (packed_dynamic_channel_reference)",
                               "detail": {"model": "bit_aligned_pixel_reference<unsigned char, mp_list_c<unsigned,2,3,2>, bgr_layout_t, true> at bit offset %s (the type of doc/design/pixel.rst)" % m_[-1],
                                          "failing operations": ops[:12], "count": len(ops)}})
    rep.floor("obligations:assign", 60)
    rep.floor("obligations:equal", 30)
    rep.floor("obligations:address", 60)
    rep.floor("obligations:static_for_each", 40)
    rep.floor("obligations:static_transform", 40)
    rep.floor("obligations:static_extremum", 40)


def weak_orderings(n):
    """every assignment of ranks 0..k-1 (all used) to n cells: the finite set of orderings that a comparison-only computation can distinguish"""
    out = []
    for t in itertools.product(range(n), repeat=n):
        if set(t) == set(range(max(t) + 1)):
            out.append(t)
    return out


def eval_ordering(fn, ranks):
    """interprets a comparison-only IR function over one ordering of the cells of its pixel argument: pointers are offsets into a0, a loaded cell is its rank.
    Returns ("addr", offset) or ("val", rank); raises Unsupported on anything else (arithmetic on cells, stores, calls)."""
    blocks = {b["id"]: b for b in fn["blocks"]}
    env = {}

    def val(o):
        if o["k"] == "arg":
            if o["id"] != "a0":
                raise Unsupported("argument %s" % o["id"])
            return ("addr", 0)
        if o["k"] == "c":
            return ("int", int(o["s"]))
        if o["id"] not in env:
            raise Unsupported("use before definition of %s" % o["id"])
        return env[o["id"]]
    cur, prev, steps = fn["blocks"][0], None, 0
    while True:
        for i in cur["insts"]:
            steps += 1
            if steps > 2000:
                raise Unsupported("no termination")
            op, ops = i["op"], i.get("ops", [])
            if op in ("bitcast", "zext", "sext", "ptrtoint", "inttoptr", "freeze"):
                env[i["id"]] = val(ops[0])
            elif op == "getelementptr":
                b = val(ops[0])
                if b[0] != "addr" or i.get("gep_terms"):
                    raise Unsupported("non-constant address")
                env[i["id"]] = ("addr", b[1] + i["gep_const"])
            elif op == "load":
                a = val(ops[0])
                if a[0] != "addr" or i.get("size") != 1 or not 0 <= a[1] < len(ranks):
                    raise Unsupported("load of %r" % (a,))
                env[i["id"]] = ("val", ranks[a[1]])
            elif op == "icmp":
                a, b = val(ops[0]), val(ops[1])
                if a[0] != "val" or b[0] != "val":
                    raise Unsupported("comparison of %r and %r" % (a, b))
                pr = i["pred"]
                r = {"eq": a[1] == b[1], "ne": a[1] != b[1]}.get(pr)
                if r is None:
                    r = {"lt": a[1] < b[1], "le": a[1] <= b[1], "gt": a[1] > b[1], "ge": a[1] >= b[1]}[pr[1:]]
                env[i["id"]] = ("int", int(r))
            elif op == "select":
                c = val(ops[0])
                env[i["id"]] = val(ops[1]) if c[1] else val(ops[2])
            elif op == "phi":
                inc = [q["v"] for q in i.get("incoming", []) if q["bb"] == prev]
                if len(inc) != 1:
                    raise Unsupported("phi")
                env[i["id"]] = val(inc[0])
            elif op == "br":
                prev = cur["id"]
                succ = cur.get("succ", [])
                if len(succ) == 1:
                    cur = blocks[succ[0]]
                elif len(succ) == 2 and len(ops) == 3:
                    cur = blocks[succ[0] if val(ops[0])[1] else succ[1]]
                else:
                    raise Unsupported("branch")
                break
            elif op == "ret":
                return val(ops[0])
            else:
                raise Unsupported("instruction %s in a comparison-only function" % op)
        else:
            raise Unsupported("block without terminator")


def check_one(rep, fn, o, W):
    name, kind = o[0], o[1]
    if kind == "static_extremum":
        m, (which, form) = o[2], o[3]
        key = "static_%s:%s:%s" % (which, m.tag(), form)
        pick = max if which == "max" else min
        for ranks in weak_orderings(m.n):
            r = eval_ordering(fn, ranks)
            got = ranks[r[1]] if r[0] == "addr" and 0 <= r[1] < m.n else r[1] if r[0] == "val" else None
            if got != pick(ranks):
                cells = ", ".join("%s=%d" % (m.mem[k], ranks[k]) for k in range(m.n))
                rep.violation("static_extremum", key, W, {"wrapper": name, "problem": "for the channel values %s static_%s returns %s" % (
                    cells, which, ("the %s channel (%d)" % (m.mem[r[1]], got)) if r[0] == "addr" and got is not None else got)})
                return
        rep.ok("static_extremum", key, {"orderings": len(weak_orderings(m.n))})
        return
    if kind in ("assign", "construct"):
        d, s, fname = o[2], o[3], o[4]
        key = "%s:%s<-%s" % (kind, d.tag(), s.tag())
        it = BitsInterp(fn)
        it.run()
        mem = it.final_memory()
        dc, sc = d.cells(0), s.cells(d.nargs())
        exp = {}     # (root, bitpos) -> expected bit
        for c in d.colors:
            (dr, dpos, dn), (sr, spos, sn) = dc[c], sc[c]
            if dn != sn:
                raise Unsupported("spec sizes differ")
            for i in range(dn):
                exp[(dr, dpos + i)] = bitname(sr, spos + i)
        bad = None
        seen = set()
        # the unused high bits of a packed_pixel VALUE's own bit field (7 channel bits in a byte) belong to that pixel and to no colour: what an assignment or
        # construction leaves in them is not constrained (the bits around a bit-aligned REFERENCE belong to its neighbours and must stay)
        padding = set()
        if d.kind == "packed":
            tot = sum(d.csizes)
            width = 8 if tot <= 8 else (16 if tot <= 16 else 32)
            padding = {(dc[d.colors[0]][0], p_) for p_ in range(tot, width)}
        for (root, off), bits in sorted(mem.items()):
            for i, b in enumerate(bits):
                pos = off * 8 + i
                if (root, pos) in padding:
                    continue
                want = exp.get((root, pos), bitname(root, pos))
                if (root, pos) in exp:
                    seen.add((root, pos))
                if b != want:
                    bad = "bit %d of %s: got %r, expected %r" % (pos, root, b, want)
                    break
            if bad:
                break
        if not bad and seen != set(exp):
            bad = "destination bits never written: %s" % sorted(set(exp) - seen)[:6]
        if bad:
            rep.violation(kind, key, W, {"wrapper": name, "problem": bad, "dst": d.tag(), "src": s.tag()})
        else:
            rep.ok(kind, key, {"cells": {c: [list(dc[c]), list(sc[c])] for c in d.colors}})
        return
    if kind in ("equal", "notequal"):
        d, s = o[2], o[3]
        key = "%s:%s,%s" % (kind, d.tag(), s.tag())
        it = PolyInterp(fn)
        r = it.run()
        dc, sc = d.cells(0), s.cells(d.nargs())
        exp = Poly.const(1)
        for c in d.colors:
            (dr, dpos, _), (sr, spos, _) = dc[c], sc[c]
            a = Poly.atom("L1[%r]" % (Poly.atom(dr) + Poly.const(dpos // 8)))
            b = Poly.atom("L1[%r]" % (Poly.atom(sr) + Poly.const(spos // 8)))
            exp = exp * it.cmp("eq", a, b)
        if kind == "notequal":
            exp = Poly.const(1) - exp
        if r == exp:
            rep.ok(kind, key, {"normal_form": repr(r)[:200]})
        else:
            rep.violation(kind, key, W, {"wrapper": name, "got": repr(r)[:800], "expected": repr(exp)[:800]})
        return
    if kind == "address":
        m, (what, colour) = o[2], o[3]
        key = "address:%s:%s:%s" % (what, m.tag(), colour)
        it = PolyInterp(fn)
        r = it.run()
        root, pos, _ = m.cells(0)[colour]
        exp = Poly.atom(root) + Poly.const(pos // 8)
        if r == exp:
            rep.ok(kind, key, repr(r))
        else:
            rep.violation(kind, key, W, {"wrapper": name, "got": repr(r)[:400], "expected": repr(exp)})
        return
    if kind == "get_color_bits":
        m, colour = o[2], o[3]
        key = "get_color_bits:%s:%s:%s" % (name.split("_")[1], m.tag(), colour)
        it = BitsInterp(fn)
        it.run()
        rb = it.ret_bits()
        root, pos, nb = m.cells(0)[colour]
        want = [bitname(root, pos + i) for i in range(nb)] + [0] * (len(rb) - nb)
        if rb == want:
            rep.ok(kind, key, "bits [%d,%d)" % (pos, pos + nb))
        else:
            rep.violation(kind, key, W, {"wrapper": name, "got": repr(rb)[:600], "expected": repr(want)[:600]})
        return
    # static_* : look at the call list and the stores
    it = PolyInterp(fn)
    it.run()
    calls = [(c[0], c[1]) for c in it.calls if c[0] in ("sink1", "sink2", "sink3", "gen0", "op1", "op2")]
    key = "%s:%s" % (kind, name.split("_")[1])

    def cell(m, first, c):
        root, pos, _ = m.cells(first)[c]
        return Poly.atom(root) + Poly.const(pos // 8)
    bad = None
    if kind == "static_for_each":
        ms, consts = o[2], o[3]
        key = "static_for_each:%s:%s" % (",".join(m.tag() for m in ms), consts)
        got = sorted(tuple(repr(x) for x in a) for _, a in calls)
        want = sorted(tuple(repr(cell(m, ix, c)) for ix, m in enumerate(ms)) for c in ms[0].colors)
        if got != want:
            bad = "calls on %s, expected %s" % (got, want)
    else:
        if kind == "static_transform":
            (srcs_m, d), consts = o[2], o[3]
            srcs = [(m, ix) for ix, m in enumerate(srcs_m)]
            dm, dfirst = d, len(srcs_m)
            key = "static_transform:%s->%s:%s" % (",".join(m.tag() for m in srcs_m), d.tag(), consts)
        else:
            srcs, dm, dfirst = [], o[2], 0
            key += ":" + dm.tag()
        st = {}
        for addr, size, v, _ in it.stores:
            if any(a.startswith("ALLOCA") for a in addr.atoms()):
                continue
            st.setdefault(repr(addr), []).append(v)
        for c in dm.colors:
            dcell = repr(cell(dm, dfirst, c))
            vs = st.pop(dcell, [])
            if len(vs) != 1:
                bad = "colour %s cell %s stored %d times" % (c, dcell, len(vs))
                break
            v = vs[0]
            if kind == "static_fill":
                if repr(v) != "a1":
                    bad = "colour %s receives %r, expected the fill value" % (c, v)
                    break
                continue
            at = list(v.atoms()) if isinstance(v, Poly) else []
            if len(at) != 1 or not at[0].startswith("CALL_"):
                bad = "colour %s receives %r, not a functor result" % (c, v)
                break
            idx = int(at[0].split("#")[1].split("(")[0])
            cal = it.calls[idx - 1]
            args = [repr(a) for a in cal[1]]
            want = [repr(cell(m, f, c)) for m, f in srcs]
            if args != want:
                bad = "colour %s computed from %s, expected %s" % (c, args, want)
                break
        if not bad and st:
            bad = "stores to cells outside the destination pixel: %s" % sorted(st)[:4]
        if not bad and len(calls) != dm.n and kind != "static_fill":
            bad = "%d functor calls for %d channels" % (len(calls), dm.n)
    if bad:
        rep.violation(kind, key, W, {"wrapper": name, "problem": bad})
    else:
        rep.ok(kind, key, {"calls": len(calls)})
