"""Generic helpers over astdump JSON for structural rules: expression keys, structured dominance (guards),
call collection, loop facts. GIL's code is structured (no goto), so the guards that dominate a statement are:
enclosing if-conditions (then: positive, else: negated), loop conditions of enclosing loops, and earlier sibling
statements `if (C) continue/break/return/throw;` (negated C for everything after them in the same block)."""


def strip(n):
    while isinstance(n, dict) and n.get("k") in ("ImplicitCast", "ExplicitCast", "DefaultArg"):
        n = n["e"]
    return n


def walk(n, f, path=None):
    """pre-order walk with the path of ancestors (list of (node, field, index))"""
    path = path or []
    if isinstance(n, dict):
        f(n, path)
        for k, v in n.items():
            if isinstance(v, dict):
                walk(v, f, path + [(n, k, None)])
            elif isinstance(v, list):
                for i, x in enumerate(v):
                    if isinstance(x, (dict, list)):
                        walk(x, f, path + [(n, k, i)])
    elif isinstance(n, list):
        for x in n:
            walk(x, f, path)


def find(n, pred):
    out = []
    walk(n, lambda x, p: out.append((x, p)) if pred(x) else None)
    return out


def key(n):
    """canonical string of an expression: casts/parens removed, declarations by name"""
    n = strip(n)
    if n is None:
        return "?"
    k = n.get("k")
    if k == "DeclRef":
        return n["name"]
    if k == "Member":
        b = n.get("base")
        return (key(b) + "." if b is not None and strip(b).get("k") != "This" else "") + n["name"]
    if k in ("Int", "Float", "Bool"):
        return str(n.get("v"))
    if k == "Null":
        return "nullptr"
    if k == "This":
        return "this"
    if k in ("Binary", "Assign", "CompoundAssign"):
        return "(%s %s %s)" % (key(n["l"]), n["op"], key(n["r"]))
    if k == "Unary":
        if n["op"] in ("++", "--") and not n.get("prefix", True):
            return "(%s%s)" % (key(n["e"]), n["op"])
        inner = key(n["e"])
        if n["op"] == "-" and is_lit(inner):
            return "-" + inner
        return "(%s%s)" % (n["op"], inner)
    if k == "Cond":
        return "(%s ? %s : %s)" % (key(n["cond"]), key(n["then"]), key(n["else"]))
    if k == "Subscript":
        return "%s[%s]" % (key(n["base"]), key(n["idx"]))
    if k == "Call":
        nm = n["callee"]["name"].split("::")[-1]
        args = [key(a) for a in n.get("args", [])]
        if n.get("member_call") and n.get("obj") is not None:
            return "%s.%s(%s)" % (key(n["obj"]), nm, ",".join(args))
        if n.get("op"):
            if n["op"] == "()" and args:
                return "%s(%s)" % (args[0], ",".join(args[1:]))
            if n["op"] == "[]" and len(args) == 2:
                return "%s[%s]" % (args[0], args[1])
            if len(args) == 2:
                return "(%s %s %s)" % (args[0], n["op"], args[1])
            if len(args) == 1:
                return "(%s%s)" % (n["op"], args[0])
        return "%s(%s)" % (nm, ",".join(args))
    if k == "Construct":
        args = [key(a) for a in n.get("args", [])]
        cls = n.get("cls", "T").split("<")[0].split("::")[-1].replace("typename ", "")
        pt = (n.get("callee", {}).get("ptypes") or [""])
        ctor = n.get("callee", {}).get("name", "").split("::")[-1]
        if len(args) == 1 and ((cls and cls in pt[0]) or (ctor and ctor in pt[0])):
            return args[0]          # copy / move construction is transparent
        return "%s{%s}" % (cls, ",".join(args))
    if k == "InitList":
        return "%s{%s}" % ((n.get("type") or "T").split("<")[0].split("::")[-1], ",".join(key(a) for a in n.get("c", [])))
    if k == "SizeOf":
        return "sizeof(%s)" % (n.get("of") or key(n.get("e")))
    if "const" in n:
        return str(n["const"])
    return k or "?"


NEG = {"<": ">=", "<=": ">", ">": "<=", ">=": "<", "==": "!=", "!=": "=="}
FLIP = {"<": ">", "<=": ">=", ">": "<", ">=": "<=", "==": "==", "!=": "!="}


def atoms(cond, positive=True):
    """conjunctive normal atoms implied by cond (if positive) or by its negation: list of (op, lhs_key, rhs_key).
    Only conjunctions are split: (a && b) true -> a, b ; (a || b) false -> !a, !b. Other shapes give one opaque atom."""
    c = strip(cond)
    if c is None:
        return []
    k = c.get("k")
    op = c.get("op")
    if k == "Binary" and op == "&&":
        if positive:
            return atoms(c["l"], True) + atoms(c["r"], True)
        return [("opaque", "!" + key(c), "")]
    if k == "Binary" and op == "||":
        if not positive:
            return atoms(c["l"], False) + atoms(c["r"], False)
        return [("opaque", key(c), "")]
    if k == "Unary" and op == "!":
        return atoms(c["e"], not positive)
    if k == "Call" and c.get("op") in NEG and len(c.get("args", [])) == 2:
        o = c["op"] if positive else NEG[c["op"]]
        return [norm_cmp(o, key(c["args"][0]), key(c["args"][1]))]
    if k == "Binary" and op in NEG:
        o = op if positive else NEG[op]
        return [norm_cmp(o, key(c["l"]), key(c["r"]))]
    # truthiness of a value: x  <=>  x != 0
    return [norm_cmp("!=" if positive else "==", key(c), "0")]


def norm_cmp(op, l, r):
    # canonical orientation: literal on the right; otherwise lexicographic for symmetric ops
    if is_lit(l) and not is_lit(r):
        op, l, r = FLIP[op], r, l
    if not is_lit(r) and not is_lit(l) and r < l:
        op, l, r = FLIP[op], r, l
    return (op, l, r)


def is_lit(s):
    try:
        float(s)
        return True
    except ValueError:
        return False


EXITS = ("Return", "Break", "Continue", "Throw")


def is_exit(n):
    n = strip(n)
    if n is None:
        return False
    if n.get("k") in EXITS:
        return True
    if n.get("k") == "Compound" and n.get("c"):
        return is_exit(n["c"][-1])
    if n.get("k") == "Call" and n["callee"]["name"].endswith("io_error"):
        return True
    if n.get("k") == "Call" and n["callee"].get("noreturn"):
        return True
    return False


def guards(path, node=None):
    """atoms known to hold when control reaches the node whose ancestor path is given"""
    out = []
    for anc, field, idx in path:
        k = anc.get("k")
        if k == "If":
            if field == "then":
                out += atoms(anc["cond"], True)
            elif field == "else":
                out += atoms(anc["cond"], False)
        elif k == "Cond":
            if field == "then":
                out += atoms(anc["cond"], True)
            elif field == "else":
                out += atoms(anc["cond"], False)
        elif k in ("For", "While") and field in ("body", "inc"):
            out += atoms(anc.get("cond"), True) if anc.get("cond") is not None else []
            if k == "For":
                out += loop_init_facts(anc)
        elif k == "Binary" and anc.get("op") == "&&" and field == "r":
            out += atoms(anc["l"], True)
        elif k == "Binary" and anc.get("op") == "||" and field == "r":
            out += atoms(anc["l"], False)
        elif k == "Compound" and field == "c" and idx is not None:
            for sib in anc["c"][:idx]:
                s = strip(sib)
                if s is not None and s.get("k") == "If" and s.get("else") is None and is_exit(s.get("then")):
                    out += atoms(s["cond"], False)
                if s is not None and s.get("k") == "If" and s.get("else") is not None and is_exit(s.get("else")) and not is_exit(s.get("then")):
                    out += atoms(s["cond"], True)
                if s is not None and s.get("k") == "Call" and s["callee"]["name"].endswith("io_error_if") and s.get("args"):
                    out += atoms(s["args"][0], False)
    return out


def loop_init_facts(f):
    """for (T i = C; i < N; ++i) gives i >= C when the only modification of i is the increment"""
    init = strip(f.get("init"))
    inc = strip(f.get("inc"))
    if init is None or inc is None:
        return []
    var = None
    val = None
    if init.get("k") == "Decl" and len(init.get("decls", [])) == 1 and init["decls"][0].get("init") is not None:
        var = init["decls"][0]["name"]
        val = key(init["decls"][0]["init"])
    elif init.get("k") == "Assign":
        var = key(init["l"])
        val = key(init["r"])
    if var is None:
        return []
    if inc.get("k") == "Unary" and inc.get("op") == "++" and key(inc["e"]) == var:
        return [(">=", var, val)]
    ik = key(inc)
    if inc.get("k") == "Binary" and inc.get("op") == "," and ("(++%s)" % var in ik or "(%s++)" % var in ik) and ("(--%s)" % var) not in ik and ("(%s = " % var) not in ik and ("(%s -=" % var) not in ik:
        return [(">=", var, val)]
    if inc.get("k") == "CompoundAssign" and inc.get("op") == "+=" and key(inc["l"]) == var:
        return [(">=", var, val)]
    return []


def implies_nonzero(gs, expr_key):
    for op, l, r in gs:
        if l == expr_key and ((op == "!=" and r == "0") or (op == ">" and is_lit(r) and float(r) >= 0) or (op == ">=" and is_lit(r) and float(r) > 0)):
            return True
        if r == expr_key and op == "!=" and l == "0":
            return True
    return False


def has_atom(gs, op, l, r):
    t = norm_cmp(op, l, r)
    if t in gs:
        return True
    # x >= 0 is implied by x >= c, c >= 0 ; x < N by x <= N-1 etc. (small closure)
    o, a, b = t
    for (o2, a2, b2) in gs:
        if a2 == a and o == ">=" and is_lit(b) and o2 in (">=", ">") and is_lit(b2) and float(b2) >= float(b):
            return True
        if a2 == a and o == ">=" and is_lit(b) and o2 == "==" and is_lit(b2) and float(b2) >= float(b):
            return True
    return False


def calls_in(n, name_pred):
    return [(x, p) for x, p in find(n, lambda x: x.get("k") == "Call" and name_pred(x["callee"]["name"]))]


def fn_where(f, node=None):
    import os
    from .. import common as C
    ln = (node or {}).get("line") or f.get("line")
    return "%s:%s" % (C.repo_rel(f.get("file", "")), ln)


# ---------------------------------------------------------------------------------------------
# expressions as polynomials (arithmetic compared up to commutativity/associativity/distribution)
def poly_of(n, rename=None):
    from ..ir.poly import Poly
    n = strip(n)
    if n is None:
        return Poly.atom("?")
    k = n.get("k")
    if "const" in n and k not in ("DeclRef", "Member") and is_lit(str(n["const"])):
        return Poly.const(int(n["const"]))
    if k == "Int":
        return Poly.const(int(n["v"]))
    if k == "Binary" and n["op"] in ("+", "-", "*"):
        a, b = poly_of(n["l"], rename), poly_of(n["r"], rename)
        return a + b if n["op"] == "+" else (a - b if n["op"] == "-" else a * b)
    if k == "Unary" and n["op"] == "-":
        return -poly_of(n["e"], rename)
    if k == "Unary" and n["op"] == "+":
        return poly_of(n["e"], rename)
    if k == "Call" and n.get("op") in ("+", "-") and len(n.get("args", [])) == 2:
        a, b = poly_of(n["args"][0], rename), poly_of(n["args"][1], rename)
        return a + b if n["op"] == "+" else a - b
    s = key(n)
    if rename:
        s = rename(s)
    return Poly.atom(s)


def renamer(f):
    """parameters -> $i, locals -> Li (declaration order)"""
    import re
    names = {}
    for i, p in enumerate(f["params"]):
        if p["name"]:
            names[p["name"]] = "$%d" % i
    cnt = [0]

    def visit(x, p):
        if x.get("k") == "Decl":
            for dd in x["decls"]:
                if dd.get("name") and dd["name"] not in names:
                    names[dd["name"]] = "L%d" % cnt[0]
                    cnt[0] += 1
    walk(f["body"], visit)
    return lambda s: re.sub(r"[A-Za-z_][A-Za-z_0-9]*", lambda m: names.get(m.group(0), m.group(0)), s)


def param_renamer(f):
    """parameters -> $i ; locals keep their names (compared up to a consistent renaming by unify())"""
    import re
    names = {}
    for i, p in enumerate(f["params"]):
        if p["name"]:
            names[p["name"]] = "$%d" % i
    return lambda s: re.sub(r"[A-Za-z_][A-Za-z_0-9]*", lambda m: names.get(m.group(0), m.group(0)), s)


def local_names(f):
    out = set()

    def visit(x, p):
        if x.get("k") == "Decl":
            for dd in x["decls"]:
                if dd.get("name"):
                    out.add(dd["name"])
    walk(f["body"], visit)
    return out


def unify(got, want, locals_got, mapping):
    """got == want up to a consistent injective renaming of local identifiers (mapping: want-name -> got-name, extended in place)"""
    import re
    tok = re.compile(r"[A-Za-z_][A-Za-z_0-9]*|\$\d+|[^A-Za-z_$\s]+|\s+")
    tg, tw = tok.findall(got), tok.findall(want)
    if len(tg) != len(tw):
        return False
    new = dict(mapping)
    for a, b in zip(tg, tw):
        if a == b and a not in locals_got and b not in new:
            continue
        if a in locals_got or b in new:
            if b in new:
                if new[b] != a:
                    return False
            else:
                if a in new.values():
                    return False
                new[b] = a
            continue
        if a != b:
            return False
    mapping.update(new)
    return True


# ---------------------------------------------------------------------------------------------
# linear facts and a difference-bound prover (Bellman-Ford) for bounds obligations
def guard_nodes(path):
    """like guards() but returns (condition node, polarity) pairs"""
    out = []
    for anc, field, idx in path:
        k = anc.get("k")
        if k in ("If", "Cond"):
            if field == "then":
                out.append((anc["cond"], True))
            elif field == "else":
                out.append((anc["cond"], False))
        elif k in ("For", "While") and field in ("body", "inc") and anc.get("cond") is not None:
            out.append((anc["cond"], True))
        elif k == "Binary" and anc.get("op") == "&&" and field == "r":
            out.append((anc["l"], True))
        elif k == "Binary" and anc.get("op") == "||" and field == "r":
            out.append((anc["l"], False))
        elif k == "Compound" and field == "c" and idx is not None:
            for sib in anc["c"][:idx]:
                s = strip(sib)
                if s is not None and s.get("k") == "If" and s.get("else") is None and is_exit(s.get("then")):
                    out.append((s["cond"], False))
    return out


def split_conj(cond, positive):
    """atomic comparison nodes implied by cond==positive: list of (node, polarity); opaque shapes are dropped"""
    c = strip(cond)
    if c is None:
        return []
    if c.get("k") == "Binary" and c.get("op") == "&&":
        return split_conj(c["l"], True) + split_conj(c["r"], True) if positive else []
    if c.get("k") == "Binary" and c.get("op") == "||":
        return split_conj(c["l"], False) + split_conj(c["r"], False) if not positive else []
    if c.get("k") == "Unary" and c.get("op") == "!":
        return split_conj(c["e"], not positive)
    if c.get("k") == "Binary" and c.get("op") in NEG:
        return [(c, positive)]
    return []


def linear_constraints(nodes, rename=None):
    """(node, polarity) comparisons -> list of (Poly p, op) meaning p op 0 with op in <=,==,!= (integers)"""
    from ..ir.poly import Poly
    out = []
    for n, pos in nodes:
        op = n["op"] if pos else NEG[n["op"]]
        d = poly_of(n["l"], rename) - poly_of(n["r"], rename)
        if op == "<":
            out.append((d + Poly.const(1), "<="))
        elif op == "<=":
            out.append((d, "<="))
        elif op == ">":
            out.append((-d + Poly.const(1), "<="))
        elif op == ">=":
            out.append((-d, "<="))
        else:
            out.append((d, op))
    return out


def _diff_form(p):
    """p = x - y + c or x + c or -y + c -> (x, y, c) with None for the zero node; else None"""
    c = p.const_value()
    terms = [(k, v) for k, v in p.t.items() if k != ()]
    if any(len(k) != 1 for k, _ in terms) or len(terms) > 2:
        return None
    pos = [k[0] for k, v in terms if v == 1]
    neg = [k[0] for k, v in terms if v == -1]
    if len(pos) + len(neg) != len(terms) or len(pos) > 1 or len(neg) > 1:
        return None
    return (pos[0] if pos else None, neg[0] if neg else None, c)


def proves(facts, goal):
    """facts: list of (Poly, op); goal: (Poly, '<=') i.e. goal_poly <= 0. Integer difference-bound reasoning only."""
    edges = []     # (u, v, w): v - u <= w

    def add(p):
        f = _diff_form(p)
        if f is None:
            return False
        x, y, c = f          # x - y + c <= 0  ->  x - y <= -c  : edge y -> x weight -c
        edges.append((y, x, -c))
        return True
    ne = []
    for p, op in facts:
        if op == "<=":
            add(p)
        elif op == "==":
            add(p)
            add(-p)
        elif op == "!=":
            ne.append(p)
    # negated goal: goal_poly >= 1  ->  -goal_poly + 1 <= 0
    from ..ir.poly import Poly
    if not add(-goal[0] + Poly.const(1)):
        return False
    for _ in range(3):          # integer tightening with disequalities: x - y != c and x - y <= c  ->  x - y <= c-1
        changed = False
        if infeasible(edges):
            return True
        for p in ne:
            f = _diff_form(p)
            if f is None:
                continue
            x, y, c = f      # x - y + c != 0  ->  x - y != -c
            ub = shortest(edges, y, x)
            lb = shortest(edges, x, y)
            if ub is not None and ub == -c:
                edges.append((y, x, -c - 1))
                changed = True
            if lb is not None and -lb == -c:
                edges.append((x, y, c - 1))
                changed = True
        if not changed:
            break
    return infeasible(edges)


def _nodes(edges):
    s = set()
    for u, v, w in edges:
        s.add(u)
        s.add(v)
    return s


def infeasible(edges):
    nodes = _nodes(edges)
    dist = {n: 0 for n in nodes}
    for _ in range(len(nodes) + 1):
        ch = False
        for u, v, w in edges:
            if dist[u] + w < dist[v]:
                dist[v] = dist[u] + w
                ch = True
        if not ch:
            return False
    return True


def shortest(edges, src, dst):
    nodes = _nodes(edges) | {src, dst}
    INF = float("inf")
    dist = {n: INF for n in nodes}
    dist[src] = 0
    for _ in range(len(nodes)):
        for u, v, w in edges:
            if dist[u] + w < dist[v]:
                dist[v] = dist[u] + w
    return None if dist[dst] == INF else dist[dst]


# ---------------------------------------------------------------------------------------------
# canonical form of a function body: independent of local names and of naming intermediate values
WRITE_OPS = ("=", "+=", "-=", "*=", "/=", "%=", "&=", "|=", "^=", "<<=", ">>=", "++", "--")


def pointer_like(t):
    """types with reference semantics under [] and *: raw pointers, iterators, locators, views"""
    t = t or ""
    return t.rstrip().rstrip("&").rstrip().rstrip("const").rstrip().endswith("*") or any(w in t for w in ("iterator", "locator", "image_view", "_ptr"))


def canonize(f, inline=True):
    """Deep copy of a function record in which parameters are named $i, the variables of for-loops #k (order of appearance),
    range-for variables @k, lambda parameters &k, and the remaining locals %k; with `inline`, a local that is initialised at
    its declaration and never written afterwards (no assignment, ++/--, no binding to a non-const reference parameter, no
    address taken) is replaced by its initialiser wherever it is used.  Keys rendered from the copy therefore do not depend
    on local names, nor on whether an intermediate value was given a name.  Use it for rendering and comparing expressions
    only: an inlined initialiser appears once per use, so calls must be counted on the original record."""
    import copy
    g = copy.deepcopy(f)
    names, inits = {}, {}
    for i, p in enumerate(g.get("params") or []):
        if p.get("id"):
            names[p["id"]] = "$%d" % i
    written, loopvars, rangevars, lamparams, order = set(), [], [], [], []

    def target_id(n):
        """the variable a write to this lvalue modifies: a.x, a[i], (*a-as-aggregate) all modify a"""
        n = strip(n)
        for _ in range(20):
            if not isinstance(n, dict):
                return None
            k = n.get("k")
            if k == "Paren":
                n = strip(n.get("e"))
            elif k == "Member" and not n.get("arrow"):
                n = strip(n.get("base"))
            elif k == "Subscript":
                b = strip(n.get("base"))
                if pointer_like((b or {}).get("type", "")):
                    return None         # p[i] = v writes the pointee, the pointer keeps its value
                n = b
            elif k == "Call" and n.get("op") == "[]" and n.get("args"):
                if pointer_like(n["callee"].get("cls", "")) or pointer_like((strip(n["args"][0]) or {}).get("type", "")):
                    return None
                n = strip(n["args"][0])
            elif k == "Call" and n.get("member_call") and n.get("obj") is not None and n["callee"]["name"].split("::")[-1] in ("operator[]", "at", "front", "back"):
                n = strip(n["obj"])
            else:
                break
        return n.get("id") if isinstance(n, dict) and n.get("k") == "DeclRef" else None

    def mark(t, p):
        # the increment of a for-loop writes that loop's own variable: inside the body the variable is constant
        for anc, fld, _ in p:
            if anc.get("k") == "For" and fld == "inc":
                ini = strip(anc.get("init"))
                if ini is not None and ini.get("k") == "Decl" and any(dd.get("id") == t for dd in ini.get("decls", [])):
                    return
        written.add(t)

    def scan(x, p):
        k = x.get("k")
        if k == "Decl":
            in_for_init = bool(p) and p[-1][0].get("k") == "For" and p[-1][1] == "init"
            for dd in x.get("decls", []):
                if dd.get("id") and dd.get("name"):
                    order.append((x.get("line") or 0, len(order), dd))
                    if in_for_init:
                        loopvars.append((x.get("line") or 0, len(p), len(loopvars), dd["id"]))
        elif k == "ForRange" and x.get("var_id"):
            rangevars.append((x.get("line") or 0, len(p), len(rangevars), x["var_id"]))
        elif k == "Lambda":
            for q in x.get("params") or []:
                if q.get("id"):
                    lamparams.append((x.get("line") or 0, len(p), len(lamparams), q["id"]))
        elif k in ("Assign", "CompoundAssign"):
            t = target_id(x.get("l"))
            if t:
                mark(t, p)
        elif k == "Unary" and x.get("op") in ("++", "--", "&"):
            t = target_id(x.get("e"))
            if t:
                mark(t, p)
        elif k == "Call":
            args = x.get("args") or []
            if args and (x.get("op") in WRITE_OPS or (x.get("op") and x["callee"].get("method") and not x["callee"].get("const", True))):
                t = target_id(args[0])
                if t:
                    mark(t, p)
            if x.get("member_call") and x.get("obj") is not None and not x["callee"].get("const", True):
                t = target_id(x["obj"])
                if t:
                    mark(t, p)
            pts = x["callee"].get("ptypes") or []
            off = 1 if (x.get("op") and x["callee"].get("method")) else 0
            for i, a in enumerate(args):
                j = i - off
                if 0 <= j < len(pts) and pts[j].rstrip().endswith("&") and not pts[j].lstrip().startswith("const ") and "&&" not in pts[j]:
                    t = target_id(a)
                    if t:
                        written.add(t)
    walk(g.get("body"), scan)
    # numbered in source order (line, then nesting depth), not in the order the JSON happens to list the fields
    for i, v in enumerate(sorted(loopvars)):
        names[v[-1]] = "#%d" % i
    for i, v in enumerate(sorted(rangevars)):
        names[v[-1]] = "@%d" % i
    for i, v in enumerate(sorted(lamparams)):
        names[v[-1]] = "&%d" % i
    def stable(init):
        """the value of the initialiser cannot change while the local is alive: it reads only variables that are never written
        (parameters, loop variables inside their body, other inlined locals) and calls no non-const member function"""
        ok = [True]

        def chk(x, p):
            k = x.get("k")
            if k == "DeclRef" and x.get("dk") in ("Var", "ParmVar", "Binding") and x.get("id"):
                if x["id"] in written or (x["id"] not in inits and x["id"] in by_id and x["id"] not in params_ids and x["id"] not in loop_ids):
                    ok[0] = False
            elif k in ("Assign", "CompoundAssign") or (k == "Unary" and x.get("op") in ("++", "--")) or k == "Lambda":
                ok[0] = False
            elif k == "Call":
                if x.get("op") in WRITE_OPS or (x["callee"].get("method") and not x["callee"].get("const", True) and not x["callee"].get("static") and
                                                 x["callee"]["name"].split("::")[-1] != x["callee"].get("cls", "").split("<")[0].split("::")[-1]):
                    ok[0] = False
            elif k == "This" and not g.get("const", False):
                ok[0] = False
        walk(init, chk)
        return ok[0]
    by_id = {dd["id"] for _, _, dd in order}
    params_ids = {p.get("id") for p in g.get("params") or []}
    loop_ids = {v[-1] for v in loopvars} | {v[-1] for v in rangevars} | {v[-1] for v in lamparams}
    cnt = 0
    single = {}
    for _, _, dd in sorted(order, key=lambda t: (t[0], t[1])):
        if dd["id"] in names:
            continue
        ty = dd.get("type") or ""
        is_ref = ty.rstrip().endswith("&") and not ty.lstrip().startswith("const ")
        if inline and dd.get("init") is not None and dd["id"] not in written and not is_ref and stable(dd["init"]):
            inits[dd["id"]] = dd["init"]
            names[dd["id"]] = "=" + dd["name"]
        else:
            names[dd["id"]] = "%%%d" % cnt
            if dd.get("init") is not None and dd["id"] not in written and not is_ref:
                single[names[dd["id"]]] = True      # written only by its declaration, but reads state that changes
            cnt += 1

    def sub(n, depth=0):
        if isinstance(n, list):
            return [sub(x, depth) for x in n]
        if not isinstance(n, dict):
            return n
        if n.get("k") == "DeclRef" and n.get("id") in inits and depth < 12:
            return sub(copy.deepcopy(inits[n["id"]]), depth + 1)
        out = {}
        for k, v in n.items():
            out[k] = sub(v, depth) if isinstance(v, (dict, list)) else v
        if out.get("k") == "DeclRef" and out.get("id") in names:
            out["name"] = names[out["id"]]
        if out.get("k") == "ForRange" and out.get("var_id") in names:
            out["var"] = names[out["var_id"]]
        if "decls" in out and out.get("k") == "Decl":
            for dd in out["decls"]:
                if dd.get("id") in names:
                    dd["name"] = names[dd["id"]]
        if out.get("k") == "Lambda":
            for q in out.get("params") or []:
                if q.get("id") in names:
                    q["name"] = names[q["id"]]
            for q in out.get("captures") or []:
                if q.get("id") in names:
                    q["name"] = names[q["id"]]
        return out
    g["body"] = sub(g.get("body"))
    if g.get("inits"):
        g["inits"] = sub(g["inits"])
    for i, p in enumerate(g.get("params") or []):
        p["orig_name"] = p.get("name")
        p["name"] = "$%d" % i
    g["canon_names"] = names
    g["canon_single"] = single
    return g


# ---------------------------------------------------------------------------------------------
# templates over canonical keys: {A} binds a written local (%k), {a} a lambda parameter (&k), consistently over one rule
import re


def tmpl(t):
    out, i = "", 0
    for m in re.finditer(r"\{([A-Za-z])\}", t):
        out += re.escape(t[i:m.start()])
        out += "(?P<%s_%d>%s\\d+)" % (m.group(1), m.start(), "%" if m.group(1).isupper() else "&")
        i = m.end()
    return re.compile(out + re.escape(t[i:]) + r"\Z")


def bind(keys, templates, env=None):
    """every template matches some key, with one consistent binding of the placeholders; returns the binding or None"""
    env = dict(env or {})

    def rec(i, env):
        if i == len(templates):
            return env
        rx = tmpl(templates[i])
        for k in keys:
            m = rx.match(k)
            if not m:
                continue
            e2, ok = dict(env), True
            for g, v in m.groupdict().items():
                nm = g.split("_")[0]
                if e2.get(nm, v) != v or (nm not in e2 and v in e2.values()):
                    ok = False
                    break
                e2[nm] = v
            if ok:
                r = rec(i + 1, e2)
                if r is not None:
                    return r
        return None
    return rec(0, env)


def fill_in(t, env):
    return re.sub(r"\{([A-Za-z])\}", lambda m: env.get(m.group(1), m.group(0)), t)


def effects(body):
    """keys of all state-changing expressions (assignments, compound assignments, ++/--, operator= / += calls), in source order"""
    out = []
    for x, p in find(body, lambda x: x.get("k") in ("Assign", "CompoundAssign") or (x.get("k") == "Unary" and x.get("op") in ("++", "--")) or
                       (x.get("k") == "Call" and x.get("op") in ("=", "+=", "-=", "*=", "/=", "++", "--"))):
        out.append((x.get("line") or 0, len(out), key(x), x, p))
    out.sort(key=lambda t: (t[0], t[1]))
    return [(k, x, p) for _, _, k, x, p in out]


def decls_of(body):
    return {dd["name"]: dd.get("init") for x, _ in find(body, lambda x: x.get("k") == "Decl") for dd in x["decls"] if dd.get("name")}


def loops_of(body):
    ls = [x for x, _ in find(body, lambda x: x.get("k") in ("For", "ForRange", "While", "Do"))]
    return sorted(ls, key=lambda x: x.get("line") or 0)


def for_shape(lp):
    init = strip(lp.get("init"))
    iv = init["decls"][0]["name"] if init is not None and init.get("k") == "Decl" and init.get("decls") else None
    i0 = key(init["decls"][0].get("init")) if iv else None
    return iv, i0, key(lp.get("cond")), key(lp.get("inc"))


def counts_up(lp, bound):
    """for (#k = 0; #k < bound; ++#k) in any spelling of the increment"""
    iv, i0, cond, inc = for_shape(lp)
    return iv is not None and i0 == "0" and cond == "(%s < %s)" % (iv, bound) and inc in ("(++%s)" % iv, "(%s++)" % iv, "(%s += 1)" % iv)




# ---------------------------------------------------------------------------------------------
# channel pairing of two views processed channel by channel through nth_channel_view
def layout_mapping(t):
    """channel mapping (semantic index -> position in memory) read from a view / pixel type string; None if not recognised"""
    m = re.search(r"layout<boost::mp11::mp_list<([^<>]*)>(?:, boost::mp11::mp_list<((?:std::integral_constant<(?:int|unsigned long), \d+>(?:, )?)+)>)?>", t or "")
    if m:
        n = len([x for x in m.group(1).split(",") if x.strip()])
        if m.group(2):
            return [int(x) for x in re.findall(r"integral_constant<(?:int|unsigned long), (\d+)>", m.group(2))]
        return list(range(n))
    m = re.search(r"planar_pixel_(?:iterator|reference)<[^,]+, boost::mp11::mp_list<([^<>]*)>", t or "")
    if m:
        return list(range(len([x for x in m.group(1).split(",") if x.strip()])))
    return None


def channel_pairing(rep, fns, rule, names, count_key):
    """Every call F(nth_channel_view(A, ea), nth_channel_view(B, eb), ...) in the functions `names`: nth_channel_view counts channels
    in memory order, so for two views whose layouts differ in this instantiation the same run-time index on both sides pairs
    different colours (violation); accepted is detail::physical_channel_index<type of A>(k) / <type of B>(k) with one k, and the
    helper is checked to return element k of the view's channel mapping."""
    helper_ok = {}
    for f in fns:
        if f["name"] == "boost::gil::detail::physical_channel_index" and len(f["params"]) == 2:
            tab = None
            for x, _ in find(f["body"], lambda x: x.get("k") == "Decl"):
                for dd in x["decls"]:
                    if dd.get("init") is not None:
                        vals = [strip(c) for c in (strip(dd["init"]).get("c") or [])]
                        tab = (dd["name"], [int(v.get("const", v.get("v", -1))) if str(v.get("const", v.get("v", ""))).lstrip("-").isdigit() else None for v in vals])
            rets = [key(x["e"]) for x, _ in find(f["body"], lambda x: x.get("k") == "Return")]
            want = [int(x) for x in re.findall(r"integral_constant<(?:int|unsigned long), (\d+)>", f["params"][0]["type"])]
            ok = tab is not None and tab[1] == want and rets == ["%s[%s]" % (tab[0], f["params"][1]["name"])]
            helper_ok[tuple(want)] = ok
    for f in fns:
        if f["name"] not in names:
            continue
        for c, pth in find(f["body"], lambda x: x.get("k") == "Call" and len([a for a in x.get("args", []) if strip(a).get("k") == "Call" and strip(a)["callee"]["name"].endswith("::nth_channel_view")]) == 2):
            sub = [strip(a) for a in c["args"] if strip(a).get("k") == "Call" and strip(a)["callee"]["name"].endswith("::nth_channel_view")]
            (A, ea), (B, eb) = [(strip(s["args"][0]), strip(s["args"][1])) for s in sub]
            ma, mb = layout_mapping(A.get("type")), layout_mapping(B.get("type"))
            rep.count(count_key)
            short = f["name"].split("::")[-1]
            k = "%s:%s:%s -> %s" % (rule.split("-")[0], short, "".join(map(str, ma or "?")), "".join(map(str, mb or "?")))
            where = fn_where(f, c)
            if ma is None or mb is None:
                rep.incon(rule, k, {"unrecognised": "layout of %s / %s" % (A.get("type", "")[:80], B.get("type", "")[:80])})
                continue

            def helper_call(e, mapping):
                e = strip(e)
                while isinstance(e, dict) and e.get("k") in ("ImplicitCast", "ExplicitCast"):
                    e = strip(e.get("e"))
                if e.get("k") == "Call" and e["callee"]["name"] == "boost::gil::detail::physical_channel_index" and len(e.get("args", [])) == 1:
                    # the explicit template argument must be a view type with this mapping
                    tm = layout_mapping(e["callee"].get("full", ""))
                    return key(e["args"][0]) if tm == mapping else False
                return None
            ha, hb = helper_call(ea, ma), helper_call(eb, mb)
            if ha and hb and ha == hb and helper_ok.get(tuple(ma)) and helper_ok.get(tuple(mb)):
                rep.ok(rule, k, "both sides take the channel physical_channel_index<own view>(%s)" % ha)
            elif ha is False or hb is False:
                rep.violation(rule, k, where, {"problem": "physical_channel_index is instantiated with a view type of another layout than the view it indexes", "call": key(c)[:200]})
            elif ha is None and hb is None and key(ea) == key(eb):
                if ma == mb:
                    rep.ok(rule, k, "same layout on both sides in this instantiation")
                else:
                    rep.violation(rule, k, where, {"call": key(c)[:200], "source layout": ma, "destination layout": mb,
                                                   "problem": "nth_channel_view counts channels in memory order: the same index on both views pairs semantic channel %s of the source with semantic channel %s of the destination"
                                                   % ([ma.index(i) for i in range(len(ma))], [mb.index(i) for i in range(len(mb))])})
            else:
                rep.incon(rule, k, {"unrecognised": "index expressions %s / %s" % (key(ea), key(eb))})


def nonempty_guard(rep, fns, rule, names, count_key):
    """nth_channel_view(V, n) forms a reference to pixel (0,0) of V (checked on its implementation when instantiated): every
    call in the functions `names` is dominated by a test that the function's source view ($0) has at least one pixel"""
    derefs = None
    for f in fns:
        if f["name"].endswith("__nth_channel_view_basic::make"):
            g = canonize(f)
            hit = [key(c) for c, _ in find(g["body"], lambda x: x.get("k") == "Call" and x.get("op") == "()" and key(x).startswith("$0(0,0)"))]
            derefs = bool(hit) if derefs is None else (derefs or bool(hit))
    for f in fns:
        if f["name"] not in names:
            continue
        g = canonize(f)
        calls = [(c, p) for c, p in calls_in(g["body"], lambda n: n.endswith("::nth_channel_view"))]
        if not calls:
            continue
        rep.count(count_key)
        k = "%s:%s:%s" % (rule.split("-")[0], f["name"].split("::")[-1], "source view non-empty before nth_channel_view")
        bad = []
        for c, p in calls:
            gs = guards(p)
            w = any((op in ("!=", ">") and l == "$0.width()" and r == "0") or (op == ">=" and l == "$0.width()" and r == "1") for op, l, r in gs)
            h = any((op in ("!=", ">") and l == "$0.height()" and r == "0") or (op == ">=" and l == "$0.height()" and r == "1") for op, l, r in gs)
            sz = any(op in ("!=", ">") and l in ("$0.size()",) and r == "0" for op, l, r in gs) or any(op == "==" and l == "$0.empty()" and r == "0" for op, l, r in gs)
            if not ((w and h) or sz):
                bad.append({"call": key(c)[:100], "line": c.get("line"), "guards": [x for x in gs if "$0" in x[1] + x[2]][:6]})
        if derefs is False:
            rep.ok(rule, k, "nth_channel_view no longer touches pixel (0,0)")
        elif bad:
            rep.violation(rule, k, fn_where(f), {"unguarded": bad, "problem": "on an empty view nth_channel_view dereferences pixel (0,0): a null or one-past pointer"})
        else:
            rep.ok(rule, k, "%d call(s), all after the emptiness test" % len(calls))


# ---------------------------------------------------------------------------------------------------------------------
# products computed in a narrow type and widened afterwards (needs astdump's from_c/to_c on integral casts)
_TYRANGE = {"bool": (0, 1), "char": (-128, 127), "signed char": (-128, 127), "unsigned char": (0, 255), "short": (-32768, 32767), "unsigned short": (0, 65535),
            "int": (-2 ** 31, 2 ** 31 - 1), "unsigned int": (0, 2 ** 32 - 1), "long": (-2 ** 63, 2 ** 63 - 1), "unsigned long": (0, 2 ** 64 - 1),
            "long long": (-2 ** 63, 2 ** 63 - 1), "unsigned long long": (0, 2 ** 64 - 1)}
_NARROW = {"int", "unsigned int", "short", "unsigned short", "char", "signed char", "unsigned char"}
_WIDE = {"long", "unsigned long", "long long", "unsigned long long"}


def _cty(t):
    return (t or "").replace("const ", "").replace("volatile ", "").strip()


def type_range(e):
    """interval of an integral expression from the types of its leaves: promotions and widenings are looked through, so an `unsigned short` field promoted
    to int still ranges over 0..65535; constants are exact; + - * / % >> & are interval arithmetic; anything else is the full range of its canonical type"""
    if not isinstance(e, dict):
        return None
    k = e.get("k")
    if "const" in e:
        try:
            v = int(str(e["const"]), 0)
            return (v, v)
        except ValueError:
            pass
    if k == "Paren":
        return type_range(e["e"])
    if k in ("ImplicitCast", "ExplicitCast") and e.get("from_c") is not None:
        inner = type_range(e["e"]) or _TYRANGE.get(_cty(e["from_c"]))
        outer = _TYRANGE.get(_cty(e["to_c"]))
        if inner and outer and outer[0] <= inner[0] and inner[1] <= outer[1]:
            return inner
        return outer
    if k in ("ImplicitCast", "ExplicitCast") and e.get("cast") in ("LValueToRValue", "NoOp"):
        return type_range(e["e"])
    if k == "Binary" and e.get("op") in ("+", "-", "*", "/", "%", ">>", "&"):
        a, b = type_range(e["l"]), type_range(e["r"])
        op = e["op"]
        if a is None or b is None:
            return None
        if op == "+":
            return (a[0] + b[0], a[1] + b[1])
        if op == "-":
            return (a[0] - b[1], a[1] - b[0])
        if op == "*":
            c = [a[0] * b[0], a[0] * b[1], a[1] * b[0], a[1] * b[1]]
            return (min(c), max(c))
        if op == "/" and b[0] == b[1] and b[0] > 0:
            return (-(-a[0] // b[0]) if a[0] < 0 else a[0] // b[0], a[1] // b[0] if a[1] >= 0 else -(-a[1] // b[0]))
        if op == ">>" and b[0] == b[1] and 0 <= b[0] < 64 and a[0] >= 0:
            return (a[0] >> b[0], a[1] >> b[0])
        if op == "%" and b[0] == b[1] and b[0] > 0:
            return (-(b[0] - 1) if a[0] < 0 else 0, b[0] - 1)
        if op == "&" and b[0] == b[1] and b[0] >= 0:
            return (0, b[0])
        return None
    t = _cty(e.get("ctype") or e.get("type") or "")
    return _TYRANGE.get(t)


def widened_products(f, need_range=True):
    """casts (implicit or explicit) from a <=32-bit integer type to a 64-bit one directly over a multiplication of run-time operands.
    Each hit carries the interval of the product from the types of its leaves; `overflows` says that the interval leaves the type the product is computed in
    (a witness is the pair of extreme operands). With need_range=False hits whose interval is unknown are returned too (overflows=None)."""
    out = []
    for x, _ in find(f["body"], lambda x: x.get("k") in ("ImplicitCast", "ExplicitCast") and x.get("from_c") is not None):
        frm, to = _cty(x["from_c"]), _cty(x["to_c"])
        if frm not in _NARROW or to not in _WIDE:
            continue
        e = x["e"]
        while isinstance(e, dict) and e.get("k") == "Paren":
            e = e["e"]
        if not (isinstance(e, dict) and e.get("k") == "Binary" and e.get("op") == "*"):
            continue
        if "const" in e:
            continue
        r = type_range(e)
        lim = _TYRANGE[frm]
        ov = None if r is None else (r[0] < lim[0] or r[1] > lim[1])
        if ov is None and need_range:
            continue
        out.append({"product": key(e), "computed_in": frm, "widened_to": to, "line": x.get("line"), "range": r, "overflows": ov,
                    "operand_ranges": [type_range(e["l"]), type_range(e["r"])]})
    return out
