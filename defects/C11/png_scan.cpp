// scanline reader on a PNG with corrupted image data: must throw, not terminate
#include <boost/gil.hpp>
#include <boost/gil/extension/io/png.hpp>
#include <fstream>
#include <iostream>
#include <sstream>
using namespace boost::gil;
int main(int argc, char** argv){
  rgb8_image_t img(40, 30); for (int y=0;y<30;++y) for(int x=0;x<40;++x) view(img)(x,y)=rgb8_pixel_t(x*5,y*7,x^y);
  std::stringstream ss(std::ios::in|std::ios::out|std::ios::binary); write_view(ss, const_view(img), png_tag());
  std::string s = ss.str();
  for (size_t i = 60; i < 90 && i < s.size(); ++i) s[i] ^= 0x5A;       // corrupt the deflate stream inside IDAT
  { std::ofstream f("/tmp/c11demo/t2.png", std::ios::binary); f.write(s.data(), s.size()); }
  try {
    using reader_t = scanline_reader<typename get_read_device<std::string, png_tag>::type, png_tag>;
    reader_t reader = make_scanline_reader(std::string("/tmp/c11demo/t2.png"), png_tag());
    std::vector<unsigned char> buf(reader._scanline_length);
    for (int y = 0; y < 30; ++y) reader.read(buf.data(), y);
    std::cout << "returned normally\n"; return 0; }
  catch (std::exception& e) { std::cout << "exception: " << e.what() << "\n"; return 0; }
}
