// C12 replay (known finding): the tiff writer premultiplies the colour channels by alpha, no reader undoes it
// g++ -std=c++14 -I/repo/include tiff_rgba.cpp -ltiff -ltiffxx && ./a.out
#include <boost/gil.hpp>
#include <boost/gil/extension/io/tiff.hpp>
#include <cstdio>
using namespace boost::gil;
int main()
{
    rgba8_image_t src(1, 1, rgba8_pixel_t(200, 100, 50, 128)), dst;
    write_view("/tmp/c12_rgba.tif", const_view(src), tiff_tag());
    read_image("/tmp/c12_rgba.tif", dst, tiff_tag());
    auto p = view(dst)(0, 0);
    std::printf("written (200,100,50,128), read back (%d,%d,%d,%d)\n", int(p[0]), int(p[1]), int(p[2]), int(p[3]));
    return p[0] == 200 ? 0 : 1;
}
