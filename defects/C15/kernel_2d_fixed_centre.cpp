// C15 replay: kernel_2d_fixed cannot be constructed with a centre in any build that keeps assertions
// g++ -std=c++14 -I/repo/include kernel_2d_fixed_centre.cpp && ./a.out
#include <boost/gil.hpp>
#include <boost/gil/image_processing/kernel.hpp>
#include <cstdio>
namespace gil = boost::gil;
int main()
{
    gil::detail::kernel_2d_fixed<float, 3> k(1, 1);          // aborts: center_.y < size() is asserted while square_size is still 0
    std::printf("constructed, centre (%zu,%zu), size %zu\n", k.center_x(), k.center_y(), k.size());
    return 0;
}
