// C13 replay: a tiled tiff read with conversion decodes the tiles into a buffer of the destination pixel type (-ltiff -ltiffxx)
#include <boost/gil.hpp>
#include <boost/gil/extension/io/tiff.hpp>
#include <cstdio>
using namespace boost::gil;
int main()
{
    gray8_image_t src(40, 35);
    for (auto& p : view(src)) p = gray8_pixel_t(10);
    image_write_info<tiff_tag> wi; wi._is_tiled = true; wi._tile_width = 16; wi._tile_length = 16;
    write_view("/tmp/ttile.tif", const_view(src), wi);
    rgb8_image_t b; read_and_convert_image("/tmp/ttile.tif", b, tiff_tag());
    auto p = view(b)(5, 5), q = view(b)(39, 34);
    std::printf("tiled gray8 (10) read_and_convert into rgb8: (%d,%d,%d) and (%d,%d,%d), expected (10,10,10)\n", int(p[0]), int(p[1]), int(p[2]), int(q[0]), int(q[1]), int(q[2]));
    image_read_settings<tiff_tag> st(point_t(3, 2), point_t(20, 20));
    rgb8_image_t c; read_and_convert_image("/tmp/ttile.tif", c, st);
    auto r = view(c)(19, 19);
    std::printf("sub-rectangle: (%d,%d,%d)\n", int(r[0]), int(r[1]), int(r[2]));
    return (p[0] == 10 && p[1] == 10 && p[2] == 10 && q[2] == 10 && r[1] == 10) ? 0 : 1;
}
