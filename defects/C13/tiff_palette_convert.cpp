// C13 / S15: a converting read of a tiff palette file was refused for every destination but rgb16 ("User supplied image type must be
// rgb16_image_t."): the palette path stored into the destination directly and never consulted the conversion policy.
// Build: g++ -std=c++14 -I /repo/include tiff_palette_convert.cpp -ltiff && ./a.out
#include <boost/gil.hpp>
#include <boost/gil/extension/io/tiff.hpp>
#include <cstdio>
#include <unistd.h>
using namespace boost::gil;
int main()
{
    char name[] = "/tmp/verif_pal_XXXXXX";
    int fd = mkstemp(name); close(fd);
    uint16_t r[256], g[256], b[256];
    for (int i = 0; i < 256; ++i) { r[i] = i * 257; g[i] = 65535 - i * 257; b[i] = i * 100; }
    unsigned char px[2] = {3, 200};
    TIFF* t = TIFFOpen(name, "w");
    TIFFSetField(t, TIFFTAG_IMAGEWIDTH, 2); TIFFSetField(t, TIFFTAG_IMAGELENGTH, 1); TIFFSetField(t, TIFFTAG_BITSPERSAMPLE, 8);
    TIFFSetField(t, TIFFTAG_SAMPLESPERPIXEL, 1); TIFFSetField(t, TIFFTAG_PHOTOMETRIC, PHOTOMETRIC_PALETTE);
    TIFFSetField(t, TIFFTAG_PLANARCONFIG, PLANARCONFIG_CONTIG); TIFFSetField(t, TIFFTAG_COLORMAP, r, g, b);
    TIFFSetField(t, TIFFTAG_XRESOLUTION, 72.0); TIFFSetField(t, TIFFTAG_YRESOLUTION, 72.0); TIFFSetField(t, TIFFTAG_RESOLUTIONUNIT, RESUNIT_INCH);
    TIFFWriteScanline(t, px, 0, 0); TIFFClose(t);
    int rc = 1;
    try
    {
        rgb16_image_t n; read_image(std::string(name), n, tiff_tag());
        rgb8_image_t c; read_and_convert_image(std::string(name), c, tiff_tag());
        rgb8_pixel_t w0, w1; color_convert(view(n)(0, 0), w0); color_convert(view(n)(1, 0), w1);
        rc = !(view(c)(0, 0) == w0 && view(c)(1, 0) == w1);
        std::printf("converted (%d,%d,%d) (%d,%d,%d), color_convert of the native read (%d,%d,%d) (%d,%d,%d)\n", view(c)(0,0)[0], view(c)(0,0)[1], view(c)(0,0)[2],
                    view(c)(1,0)[0], view(c)(1,0)[1], view(c)(1,0)[2], w0[0], w0[1], w0[2], w1[0], w1[1], w1[2]);
    }
    catch (std::exception const& e) { std::printf("exception: %s\n", e.what()); }
    unlink(name);
    return rc;
}
