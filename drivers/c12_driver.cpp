// C12: every (lossless, GIL-implemented format) x (pixel type the format can write): write_view then read_image
#include "vf_common.hpp"
#include <boost/gil/extension/io/bmp.hpp>
#include <boost/gil/extension/io/pnm.hpp>
#include <boost/gil/extension/io/targa.hpp>
#include <fstream>
using namespace vf;
template <class Tag, class Img> void rt(Img& img, Tag tag){
  std::string name("f"); std::ofstream out("o", std::ios::binary);
  write_view(name, view(img), tag); write_view(out, view(img), tag);
  read_image(name, img, tag);
  std::ifstream in("f", std::ios::binary); read_image(in, img, tag);
  image_read_settings<Tag> st(point_t(1,1), point_t(2,2));
  read_image(name, img, st);
}
template <class Tag> void scan(Tag tag){
  std::string name("f");
  using reader_t = scanline_reader<typename get_read_device<std::string, Tag>::type, Tag>;
  reader_t reader = make_scanline_reader(name, tag);
  std::vector<unsigned char> buf(reader._scanline_length);
  reader.read(buf.data(), 0); reader.skip(buf.data(), 0);
}
void inst(){
  rgb8_image_t a; rgba8_image_t b; gray8_image_t g; gray1_image_t m;
  rt(a, bmp_tag()); rt(b, bmp_tag());
  rt(g, pnm_tag()); rt(a, pnm_tag()); rt(m, pnm_tag());
  rt(a, targa_tag()); rt(b, targa_tag());
  scan(bmp_tag()); scan(pnm_tag()); scan(targa_tag());
}
