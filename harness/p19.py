"""C19 histograms: the structural clauses (who is counted, once, under which condition; how totals are formed).
Contents of the hash map are not modelled: conservation of mass follows from these clauses given the semantics of
std::unordered_map (trusted), it is not computed."""
import os, re, itertools
from . import common as C
from .ast import rules as R

LEVEL = "other"
EXPLANATION = ("Structural rules over the instantiated AST of histogram.hpp (drivers/c19_driver.cpp: 1-D and 3-D histograms over gray8/rgb8 views): "
               "(H1) histogram::fill visits every (x,y) of the view once, skips a pixel exactly when applymask && !mask[y][x], divides every channel of the "
               "pixel by bin_width, builds the key from the scaled pixel and increments that one bin exactly when !setlimits || (lower <= key && key <= upper) "
               "-- conditions are compared as boolean functions (truth tables), not as text; (H1b) tuple_compare is the conjunction of the component-wise <=; "
               "(H2) fill_histogram clears iff !accumulate, pre-fills iff !sparsefill, then forwards every argument to fill in order; (H3) cumulative_histogram "
               "assigns to every key the running sum over the sorted keys (1-D) resp. the sum over all keys that are component-wise <= (n-D); (H4) "
               "sub_histogram<Dims...>() adds every bin into the bin of its projected key; (H5) normalize divides every bin by the sum of all bins. "
               "Each is a necessary condition of the property; the equalities between bin contents and pixel counts themselves are not computed.")
W = "include/boost/gil/histogram.hpp"


def formula(n, atoms):
    """boolean AST -> python lambda over an assignment dict; atoms collected by canonical key"""
    n = R.strip(n)
    while n is not None and n.get("k") == "Paren":
        n = R.strip(n["e"])
    k = n.get("k")
    if k == "Binary" and n.get("op") in ("&&", "||", "&", "|"):
        a, b = formula(n["l"], atoms), formula(n["r"], atoms)
        return (lambda e: a(e) and b(e)) if n["op"] in ("&&", "&") else (lambda e: a(e) or b(e))
    if k == "Unary" and n.get("op") == "!":
        a = formula(n["e"], atoms)
        return lambda e: not a(e)
    key = R.key(n).replace(".operator bool()", "")
    atoms.add(key)
    return lambda e, key=key: e[key]


def same_function(cond, want, rename):
    """cond (AST) and want (python expression over named atoms) denote the same boolean function"""
    atoms = set()
    f = formula(cond, atoms)
    ren = {a: rename(a) for a in atoms}
    names = sorted(set(re.findall(r"[A-Za-z_]\w*", want)) - {"and", "or", "not"})
    if set(ren.values()) != set(names):
        return False, sorted(ren.values())
    for vals in itertools.product((False, True), repeat=len(names)):
        env = dict(zip(names, vals))
        got = f({a: env[ren[a]] for a in atoms})
        if bool(got) != bool(eval(want, {}, env)):
            return False, sorted(ren.values())
    return True, sorted(ren.values())


def loop_shape(lp):
    init = R.strip(lp.get("init"))
    iv = init["decls"][0]["name"] if init is not None and init.get("k") == "Decl" and init.get("decls") else None
    i0 = R.key(init["decls"][0].get("init")) if iv else None
    return iv, i0, R.key(lp.get("cond")), R.key(lp.get("inc"))


def run(rep):
    C.need_tools(C.ASTDUMP)
    wd = C.workdir("C19")
    d = C.astdump(os.path.join(C.DRIVERS, "c19_driver.cpp"), os.path.join(wd, "h.json"),
                  ['^boost::gil::histogram::(fill|normalize|sum|sub_histogram|key_from_pixel)$', '^boost::gil::(fill_histogram|cumulative_histogram)$',
                   '^boost::gil::detail::(tuple_compare|filler::operator\\(\\))$'])
    if d.get("errors"):
        raise C.AnalysisBroken("drivers/c19_driver.cpp has compile errors")
    fns = d["functions"]
    rep.units.append("drivers/c19_driver.cpp: %d instantiated histogram functions" % len(fns))
    rep.trusted += ["clang front end (instantiated AST)", "semantics of std::unordered_map, std::sort, std::for_each", "harness/ast/rules.py"]
    seen = set()

    def once(tag):
        if tag in seen:
            return False
        seen.add(tag)
        return True
    rep.rule("H1 histogram::fill: full loop nest; skip iff applymask && !mask[y][x]; every channel / bin_width; key from the scaled pixel; one increment of bin[key] iff !setlimits || (lower <= key && key <= upper)")
    rep.rule("H1b tuple_compare(t1,t2) == AND over i of get<i>(t1) <= get<i>(t2)")
    rep.rule("H2 fill_histogram: clear iff !accumulate; dense pre-fill iff !sparsefill; hist.fill(view, bin_width, applymask, mask, lower, upper, setlimits)")
    rep.rule("H3 cumulative_histogram: 1-D running sum over the sorted keys; n-D sum over all keys component-wise <= the key")
    rep.rule("H4 sub_histogram<Dims...>(): every bin is added into the bin of its projected key")
    rep.rule("H5 normalize: every bin divided by the sum of all bins; sum(): sum of all bins")
    for f in fns:
        nm = f["name"]
        short = nm.split("::")[-1]
        rn = R.param_renamer(f)
        where = "%s:%s" % (W, f["line"])
        # ---------------------------------------------------------------- H1
        if nm == "boost::gil::histogram::fill":
            dims = "3d" if "int, int, int" in f.get("cls", "") else "1d"
            if not once("fill" + dims + str(len(f["full"]) % 2)):
                pass
            rep.count("obligations:H1")
            key = "H1:histogram::fill:%s" % re.sub(r"boost::gil::", "", f["full"].split("::fill")[-1])[:60]
            prob = []
            loops = [x for x, _ in R.find(f["body"], lambda x: x.get("k") == "For")]
            pn = [p["name"] for p in f["params"]]
            sv = pn[0]
            if len(loops) != 2:
                prob.append("expected a two-level loop nest, found %d loops" % len(loops))
            else:
                oy, ox = loop_shape(loops[0]), loop_shape(loops[1])
                if oy[1:] != ("0", "(%s < %s.height())" % (oy[0], sv), "(++%s)" % oy[0]):
                    prob.append("row loop %s" % (oy,))
                if ox[1:] != ("0", "(%s < %s.width())" % (ox[0], sv), "(++%s)" % ox[0]):
                    prob.append("column loop %s" % (ox,))
                yv, xv = oy[0], ox[0]
                decl = {dd["name"]: R.key(dd["init"]) for x, _ in R.find(f["body"], lambda x: x.get("k") == "Decl") for dd in x["decls"] if dd.get("init") is not None}
                if decl.get("src_it") != "%s.row_begin(%s)" % (sv, yv) or decl.get("scaled_px") != "src_it[%s]" % xv:
                    prob.append("pixel taken from %s / %s" % (decl.get("src_it"), decl.get("scaled_px")))
                ren = lambda a: {"applymask": "applymask", "%s[%s][%s]" % (pn[3], yv, xv): "m", "setlimits": "setlimits",
                                 "tuple_compare(%s,key)" % pn[4]: "lo", "tuple_compare(key,%s)" % pn[5]: "hi"}.get(a, a)
                conts = [(x, p) for x, p in R.find(loops[1]["body"], lambda x: x.get("k") == "Continue")]
                if len(conts) != 1:
                    prob.append("%d continue statements" % len(conts))
                else:
                    ifn = [a for a, fld, _ in conts[0][1] if a.get("k") == "If"]
                    ok, at = same_function(ifn[-1]["cond"], "applymask and not m", ren) if ifn else (False, [])
                    if not ok:
                        prob.append("skip condition over %s is not `applymask && !mask[y][x]`" % at)
                scal = [R.key(a) for x, _ in R.find(f["body"], lambda x: x.get("k") == "Call" and x["callee"]["name"].endswith("static_for_each")) for a, _ in R.find(x, lambda y: y.get("k") == "Assign")]
                if scal != ["(ch = (ch / %s))" % pn[1]]:
                    prob.append("channel scaling %s" % scal)
                if decl.get("key") not in ("this.key_from_pixel(scaled_px)", "key_from_pixel(scaled_px)"):
                    prob.append("key built from %s" % decl.get("key"))
                incs = [(x, p) for x, p in R.find(loops[1]["body"], lambda x: (x.get("k") == "Unary" and x.get("op") == "++" and "operator[](key)" in R.key(x)) or
                                                  (x.get("k") == "CompoundAssign" and "operator[](key)" in R.key(x.get("l"))))]
                if len(incs) != 1:
                    prob.append("%d increments of the bin" % len(incs))
                else:
                    ifn = [a for a, fld, _ in incs[0][1] if a.get("k") == "If"]
                    ok, at = same_function(ifn[-1]["cond"], "(not setlimits) or (lo and hi)", ren) if ifn else (False, ["<unconditional>"])
                    if not ok:
                        prob.append("count condition over %s is not `!setlimits || (lower <= key && key <= upper)`" % at)
            if prob:
                rep.violation("H1-fill", key, where, {"problems": prob})
            else:
                rep.ok("H1-fill", key, "loop nest, mask, scaling, key, limits, single increment")
        # ---------------------------------------------------------------- H1b
        if nm == "boost::gil::detail::tuple_compare" and len(f["params"]) == 3:
            rep.count("obligations:H1b")
            keys = [R.key(x) for x, _ in R.find(f["body"], lambda x: x.get("k") in ("Assign",) or (x.get("k") == "Call" and x.get("op") == "="))]
            t1, t2 = f["params"][0]["name"], f["params"][1]["name"]
            n_le = sum(k.count("(get(%s) <= get(%s))" % (t1, t2)) for k in keys)
            fold = "(comp = (comp & comp_list[i]))" in keys or "(comp = (comp && comp_list[i]))" in keys
            decl = {dd["name"]: R.key(dd["init"]) for x, _ in R.find(f["body"], lambda x: x.get("k") == "Decl") for dd in x["decls"] if dd.get("init") is not None}
            lp = [loop_shape(x) for x, _ in R.find(f["body"], lambda x: x.get("k") == "For")]
            ok = n_le >= 1 and fold and str(decl.get("comp")).lower() in ("true", "1") and lp and lp[0][1:] == ("0", "(i < comp_list.size())", "(i++)")
            k = "H1b:tuple_compare:%d components" % n_le
            if ok:
                rep.ok("H1b-tuple-compare", k, keys[:2])
            else:
                rep.violation("H1b-tuple-compare", "H1b:tuple_compare", where, {"statements": keys, "initial": decl.get("comp"), "loop": lp})
        # ---------------------------------------------------------------- H2
        if nm == "boost::gil::fill_histogram" and len(f["params"]) == 10:
            rep.count("obligations:H2")
            body = R.strip(f["body"])
            items = [R.strip(x) for x in body.get("c", [])]
            seq = []
            for x in items:
                if x.get("k") == "If":
                    calls = [rn(R.key(c)) for c, _ in R.find(x.get("then"), lambda y: y.get("k") == "Call")]
                    seq.append(("if", rn(R.key(x["cond"])), calls[-1] if calls else None, x.get("else") is not None))
                elif x.get("k") == "Call":
                    seq.append(("call", rn(R.key(x))))
            want = [("if", "(!$3)", "$1.clear()", False), ("if", "(!$4)", "f($1,$7,$8,$2)", False), ("call", "$1.fill($0,$2,$5,$6,$7,$8,$9)")]
            k = "H2:fill_histogram" + ("<3d>" if "int, int, int" in f["full"] else "<1d>")
            if seq == want:
                rep.ok("H2-protocol", k, seq)
            else:
                rep.violation("H2-protocol", "H2:fill_histogram", where, {"statements": seq, "documented": want})
        # ---------------------------------------------------------------- H3
        if nm == "boost::gil::cumulative_histogram":
            rep.count("obligations:H3")
            keys = [R.key(x) for x, _ in R.find(f["body"], lambda x: x.get("k") in ("Assign", "CompoundAssign") or (x.get("k") == "Call" and x.get("op") == "="))]
            sorts = [R.key(c) for c, _ in R.calls_in(f["body"], lambda n: n == "std::sort")]
            lp = [loop_shape(x) for x, _ in R.find(f["body"], lambda x: x.get("k") == "For")]
            one_d = ("(sorted_keys[(counter++)] = make_pair(v.first,v.second))" in keys and sorts == ["sort(sorted_keys.begin(),sorted_keys.end())"] and
                     "(cumulative_counter += sorted_keys[i].second)" in keys and "(cumulative_hist[sorted_keys[i].first] = cumulative_counter)" in keys and
                     lp and lp[0][1:] == ("0", "(i < sorted_keys.size())", "(++i)") and
                     keys.index("(cumulative_counter += sorted_keys[i].second)") < keys.index("(cumulative_hist[sorted_keys[i].first] = cumulative_counter)"))
            comps = [R.key(c) for c, _ in R.calls_in(f["body"], lambda n: n.endswith("tuple_compare"))]
            n_d = ("(cumulative_counter += hist.at(v2.first))" in keys and "(cumulative_hist[v1.first] = cumulative_counter)" in keys and
                   len(comps) == 1 and comps[0].startswith("tuple_compare(v2.first,v1.first,"))
            guard_ok = False
            for x, p in R.find(f["body"], lambda x: x.get("k") == "CompoundAssign" and R.key(x) == "(cumulative_counter += hist.at(v2.first))"):
                gs = R.guards(p)
                guard_ok = any(l == "comp" and op == "!=" and r == "0" for op, l, r in gs)
            k = "H3:cumulative_histogram" + ("<3d>" if "int, int, int" in f["full"] else "<1d>")
            if one_d and n_d and guard_ok:
                rep.ok("H3-cumulative", k, "running sum over sorted keys / dominated-keys sum")
            else:
                rep.violation("H3-cumulative", "H3:cumulative_histogram", where, {"one_dimensional_branch": bool(one_d), "n_dimensional_branch": bool(n_d and guard_ok), "statements": keys})
        # ---------------------------------------------------------------- H4
        if nm == "boost::gil::histogram::sub_histogram" and not f["params"]:
            rep.count("obligations:H4")
            keys = [R.key(x) for x, _ in R.find(f["body"], lambda x: x.get("k") in ("CompoundAssign",) or (x.get("k") == "Call" and x.get("op") == "+="))]
            decl = {dd["name"]: R.key(dd["init"]) for x, _ in R.find(f["body"], lambda x: x.get("k") == "Decl") for dd in x["decls"] if dd.get("init") is not None}
            fe = [R.key(c)[:40] for c, _ in R.calls_in(f["body"], lambda n: n == "std::for_each")]
            ok = keys == ["(sub_h[sub_key] += this.operator[](v.first))"] and str(decl.get("sub_key", "")).startswith("tuple_to_tuple(v.first,") and fe == ["for_each(this.begin(),this.end(),Lambda)"[:40]]
            if ok:
                rep.ok("H4-marginal", "H4:sub_histogram<Dims...>()", keys)
            else:
                rep.violation("H4-marginal", "H4:sub_histogram<Dims...>()", where, {"statements": keys, "projected_key": decl.get("sub_key"), "loops": fe})
        # ---------------------------------------------------------------- H5
        if nm in ("boost::gil::histogram::normalize", "boost::gil::histogram::sum"):
            rep.count("obligations:H5")
            keys = [R.key(x) for x, _ in R.find(f["body"], lambda x: x.get("k") in ("Assign", "CompoundAssign") or (x.get("k") == "Call" and x.get("op") in ("=", "+=")))]
            fe = [R.key(c) for c, _ in R.calls_in(f["body"], lambda n: n == "std::for_each")]
            decl = {dd["name"]: R.key(dd["init"]) for x, _ in R.find(f["body"], lambda x: x.get("k") == "Decl") for dd in x["decls"] if dd.get("init") is not None}
            want = ["(sum += v.second)"] + (["(this.operator[](v.first) = (v.second / sum))"] if short == "normalize" else [])
            ok = keys == want and all(k == "for_each(this.begin(),this.end(),Lambda)" for k in fe) and len(fe) == len(want) and decl.get("sum") in ("0", "0.0")
            k = "H5:histogram::%s%s" % (short, "<3d>" if "int, int, int" in f.get("cls", "") else "<1d>")
            if ok:
                rep.ok("H5-normalize", k, keys)
            else:
                rep.violation("H5-normalize", "H5:histogram::%s" % short, where, {"statements": keys, "loops": fe, "initial_sum": decl.get("sum")})
    rep.floor("obligations:H1", 2)
    rep.floor("obligations:H1b", 1)
    rep.floor("obligations:H2", 2)
    rep.floor("obligations:H3", 2)
    rep.floor("obligations:H4", 1)
    rep.floor("obligations:H5", 3)
