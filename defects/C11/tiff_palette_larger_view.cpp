// C11 / R15: the tiff palette reader looped over the DESTINATION view's rows and columns while stepping through the index image, which has
// the size of the picture in the file. check_image_size() admits a larger destination: a valid 4x2 palette tiff read into a 5x3 rgb16 view
// read past the 8-byte index image (ASan heap-buffer-overflow READ).
// Build: g++ -std=c++14 -fsanitize=address -I /repo/include tiff_palette_larger_view.cpp -ltiff && ./a.out
#include <boost/gil.hpp>
#include <boost/gil/extension/io/tiff.hpp>
#include <cstdio>
#include <vector>
#include <unistd.h>
using namespace boost::gil;
int main()
{
    char name[] = "/tmp/verif_pal_XXXXXX";
    int fd = mkstemp(name); close(fd);
    TIFF* t = TIFFOpen(name, "w");
    TIFFSetField(t, TIFFTAG_IMAGEWIDTH, 4); TIFFSetField(t, TIFFTAG_IMAGELENGTH, 2);
    TIFFSetField(t, TIFFTAG_BITSPERSAMPLE, 8); TIFFSetField(t, TIFFTAG_SAMPLESPERPIXEL, 1);
    TIFFSetField(t, TIFFTAG_PHOTOMETRIC, PHOTOMETRIC_PALETTE); TIFFSetField(t, TIFFTAG_PLANARCONFIG, PLANARCONFIG_CONTIG);
    TIFFSetField(t, TIFFTAG_ROWSPERSTRIP, 2);
    TIFFSetField(t, TIFFTAG_XRESOLUTION, 72.0); TIFFSetField(t, TIFFTAG_YRESOLUTION, 72.0); TIFFSetField(t, TIFFTAG_RESOLUTIONUNIT, RESUNIT_INCH);
    std::vector<uint16_t> r(256), g(256), b(256);
    for (int i = 0; i < 256; ++i) { r[i] = i * 257; g[i] = 65535 - i * 257; b[i] = i; }
    TIFFSetField(t, TIFFTAG_COLORMAP, r.data(), g.data(), b.data());
    unsigned char rows[2][4] = {{0, 1, 2, 3}, {4, 5, 6, 7}};
    TIFFWriteScanline(t, rows[0], 0, 0); TIFFWriteScanline(t, rows[1], 1, 0);
    TIFFClose(t);
    rgb16_image_t img(5, 3, rgb16_pixel_t(9, 9, 9));
    int rc = 0;
    try
    {
        read_view(std::string(name), view(img), tiff_tag());
        std::printf("pixel (3,1) = %d, pixel (4,2) = %d (untouched)\n", (int)view(img)(3, 1)[0], (int)view(img)(4, 2)[0]);
        rc = !(view(img)(3, 1)[0] == 7 * 257 && view(img)(4, 2)[0] == 9);
    }
    catch (std::exception const& e) { std::printf("rejected: %s\n", e.what()); }
    unlink(name);
    return rc;
}
