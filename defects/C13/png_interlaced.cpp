// interlaced (Adam7) PNG: full read must reproduce the image, sub-rectangle reads must equal the crop
#include <boost/gil.hpp>
#include <boost/gil/extension/io/png.hpp>
#include <fstream>
#include <iostream>
using namespace boost::gil;
static void write_interlaced(const char* fn, rgb8_view_t v){
  FILE* f = fopen(fn, "wb"); png_structp p = png_create_write_struct(PNG_LIBPNG_VER_STRING, 0, 0, 0); png_infop i = png_create_info_struct(p);
  png_init_io(p, f); png_set_IHDR(p, i, v.width(), v.height(), 8, PNG_COLOR_TYPE_RGB, PNG_INTERLACE_ADAM7, PNG_COMPRESSION_TYPE_DEFAULT, PNG_FILTER_TYPE_DEFAULT);
  png_write_info(p, i); int passes = png_set_interlace_handling(p);
  for (int k = 0; k < passes; ++k) for (int y = 0; y < v.height(); ++y) png_write_row(p, (png_bytep)&v(0, y));
  png_write_end(p, i); png_destroy_write_struct(&p, &i); fclose(f);
}
int main(){
  rgb8_image_t img(9, 7); for (int y=0;y<7;++y) for(int x=0;x<9;++x) view(img)(x,y)=rgb8_pixel_t(20*y+x, y, x);
  write_interlaced("/tmp/c13demo/i.png", view(img));
  rgb8_image_t full; int bad = 0, thrown = 0;
  try { read_image("/tmp/c13demo/i.png", full, png_tag()); } catch (std::exception& e) { std::cout << "full read threw: " << e.what() << "\n"; return 1; }
  std::cout << "full read equals the written image: " << (equal_pixels(const_view(full), const_view(img)) ? "yes" : "NO") << "\n";
  for (int y0 = 0; y0 < 7; ++y0) for (int dy = 1; y0 + dy <= 7; ++dy) {
    rgb8_image_t part; image_read_settings<png_tag> st(point_t(2, y0), point_t(5, dy));
    try { read_image("/tmp/c13demo/i.png", part, st); } catch (std::exception&) { ++thrown; continue; }
    if (!equal_pixels(const_view(part), subimage_view(const_view(full), 2, y0, 5, dy))) ++bad;
  }
  std::cout << bad << " sub-rectangle reads differ from the crop of the full read, " << thrown << " threw\n";
  return bad || thrown;
}
