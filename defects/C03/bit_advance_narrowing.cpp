// C03 / L11: bit_range::bit_advance narrowed the bit offset to int: (it+n)-it != n once n*bit_size reaches 2^31.
// No memory is touched: only addresses are formed.
// Build: g++ -std=c++14 -I /repo/include bit_advance_narrowing.cpp && ./a.out    (before the fix: -2147483648 and -268435456)
#include <boost/gil.hpp>
#include <cstdio>
using namespace boost::gil;
int main()
{
    using ref_t = bit_aligned_pixel_reference<unsigned char, boost::mp11::mp_list_c<int, 1>, gray_layout_t, true>;
    using it_t = bit_aligned_pixel_iterator<ref_t>;
    static unsigned char origin[1];
    it_t it(origin, 0);
    std::ptrdiff_t n = std::ptrdiff_t(1) << 31;
    it_t jt = it + n;
    std::printf("%td %td\n", jt - it, jt->bit_range().current_byte() - origin);
    return !((jt - it) == n && jt->bit_range().current_byte() - origin == (n >> 3));
}
