#include "vf_common.hpp"
#include <boost/gil/extension/io/bmp.hpp>
#include <boost/gil/extension/io/pnm.hpp>
#include <boost/gil/extension/io/targa.hpp>
#include <boost/gil/extension/io/png.hpp>
#include <boost/gil/extension/io/jpeg.hpp>
#include <boost/gil/extension/io/tiff.hpp>
#include <fstream>
using namespace vf;
template <class Tag, class Img> void all_io(Img& img, Tag tag){
  std::ifstream in("f", std::ios::binary); FILE* fp = nullptr; std::string name("f");
  read_image(name, img, tag); read_image(in, img, tag);
  read_view(name, view(img), tag); read_view(in, view(img), tag);
  read_and_convert_image(name, img, tag); read_and_convert_image(in, img, tag);
  read_and_convert_view(name, view(img), tag); read_and_convert_view(in, view(img), tag);
  image_read_settings<Tag> st(point_t(1,1), point_t(2,2));
  read_image(name, img, st); read_image(in, img, st); read_view(name, view(img), st);
  auto info = read_image_info(name, tag); auto info2 = read_image_info(in, tag); (void)info; (void)info2;
  std::ofstream out("o", std::ios::binary);
  write_view(name, const_view(img), tag); write_view(out, const_view(img), tag); 
}
template <class Tag> void scan(Tag tag){
  std::string name("f");
  using reader_t = scanline_reader<typename get_read_device<std::string, Tag>::type, Tag>;
  reader_t reader = make_scanline_reader(name, tag);
  std::vector<unsigned char> buf(reader._scanline_length);
  reader.read(buf.data(), 0); reader.skip(buf.data(), 0);
  auto it = reader.begin(); auto e = reader.end(); for (; it != e; ++it) { unsigned char* row = *it; (void)row; }
}
void inst(){
  rgb8_image_t a; gray8_image_t g;
  all_io(a, bmp_tag()); all_io(a, pnm_tag()); all_io(a, targa_tag()); all_io(a, png_tag()); all_io(a, jpeg_tag()); all_io(a, tiff_tag());
  all_io(g, pnm_tag()); all_io(g, png_tag());
  rgb16_image_t p16; std::string name("f"); read_image(name, p16, tiff_tag());   // palette tiff files are read into rgb16
  // converting reads into destinations whose channel is not a byte (the row buffers stay in the file's type)
  gray32f_image_t gf; gray16_image_t g16; gray8s_image_t g8s;
  read_and_convert_image(name, gf, pnm_tag()); read_and_convert_image(name, g16, pnm_tag()); read_and_convert_image(name, g8s, pnm_tag());
  read_and_convert_image(name, gf, bmp_tag()); read_and_convert_image(name, g16, targa_tag());
  gray1_image_t g1; read_and_convert_image(name, g1, pnm_tag());
  read_and_convert_image(name, p16, tiff_tag());       // converting read into the palette's own type
  scan(bmp_tag()); scan(pnm_tag()); scan(targa_tag()); scan(png_tag()); scan(jpeg_tag()); scan(tiff_tag());
}
