// a view wider than 65535 pixels cannot be stored in a TARGA header (16-bit dimensions): writing it must fail, not store width mod 65536
#include <boost/gil.hpp>
#include <boost/gil/extension/io/targa.hpp>
#include <sstream>
#include <iostream>
using namespace boost::gil;
int main(){
  rgb8_image_t img(70000, 1); fill_pixels(view(img), rgb8_pixel_t(1,2,3));
  std::stringstream ss(std::ios::in|std::ios::out|std::ios::binary);
  try { write_view(ss, const_view(img), targa_tag()); } catch (std::exception& e) { std::cout << "write_view threw: " << e.what() << "\n"; return 0; }
  rgb8_image_t back; read_image(ss, back, targa_tag());
  std::cout << "wrote 70000x1, read back " << back.width() << "x" << back.height() << "\n"; return back.width() != 70000;
}
