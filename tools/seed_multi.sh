#!/bin/bash
# usage: tools/seed_multi.sh <suffix> <Cxx>...   -- like seed.sh for several worktrees /tmp/wt/<Cxx>: phase 1 (parallel, in the worktrees)
# harvests the diff, runs the demo with/without the change and the existing suite with it; phase 2 (serial, patches /repo) = reseed.sh
set -u
SUF=$1; shift
cd /verif
phase1() {
  P=$1; NAME=$P-$SUF; WT=/tmp/wt/$P; OUT=/verif/seeded/$NAME
  mkdir -p $OUT
  git -C $WT diff -- include > $OUT/patch.diff
  [ -s $OUT/patch.diff ] || { echo "$NAME: no change in $WT"; rmdir $OUT 2>/dev/null; return; }
  cp $WT/demo/demo.cpp $OUT/demo.cpp; cp $WT/demo/NOTES.md $OUT/NOTES.md 2>/dev/null
  LIBS="-lpng -ljpeg -ltiff"
  g++ -std=c++14 -O1 -I$WT/include $OUT/demo.cpp -o /tmp/wt/demo_mut_$P $LIBS 2>/dev/null
  timeout 900 /tmp/wt/demo_mut_$P > /tmp/wt/demo_mut_$P.out 2>&1; RC_MUT=$?
  rm -rf /tmp/wt/base_$P; mkdir -p /tmp/wt/base_$P; git -C $WT archive HEAD include | tar -x -C /tmp/wt/base_$P
  g++ -std=c++14 -O1 -I/tmp/wt/base_$P/include $OUT/demo.cpp -o /tmp/wt/demo_clean_$P $LIBS 2>/dev/null
  timeout 900 /tmp/wt/demo_clean_$P > /tmp/wt/demo_clean_$P.out 2>&1; RC_CLEAN=$?
  rm -rf /tmp/wt/base_$P /tmp/wt/demo_mut_$P /tmp/wt/demo_clean_$P
  cmake -G Ninja -S $WT -B $WT/_build -DCMAKE_BUILD_TYPE=RelWithDebInfo -DCMAKE_CXX_STANDARD=14 -DBOOST_GIL_BUILD_EXAMPLES=OFF -DBOOST_GIL_BUILD_HEADER_TESTS=OFF > /dev/null 2>&1
  cmake --build $WT/_build -j6 > /tmp/wt/build_$P.log 2>&1; BRC=$?
  CT=$(ctest --test-dir $WT/_build -j6 2>&1 | grep "tests passed")
  rm -rf $WT/_build
  python3 - <<PY
import json
json.dump({"property":"$P","name":"$NAME","demo_rc_with_change":$RC_MUT,"demo_rc_without_change":$RC_CLEAN,"suite_with_change":"$CT","suite_build_rc":$BRC,
 "check_cmd":"./check <id> --tier quick for every claimed id","origin":"independent sub-agent given only the property text and a scratch worktree"}, open("$OUT/meta.json","w"), indent=1)
PY
  echo "$NAME: demo with change rc=$RC_MUT, without rc=$RC_CLEAN; suite build rc=$BRC; $CT"
}
for P in "$@"; do phase1 $P & done
wait
NAMES=""; for P in "$@"; do [ -f seeded/$P-$SUF/patch.diff ] && NAMES="$NAMES $P-$SUF"; done
tools/reseed.sh $NAMES
