#!/bin/bash
# usage: tools/seed.sh <Cxx> [name]   -- harvests a sub-agent's change from /tmp/wt/<Cxx>, re-confirms it (demo fails with / passes
# without the change; existing suite passes with it), runs the property's check against it, stores it under seeded/<name>/
set -u
P=$1; NAME=${2:-$1-a}; WT=/tmp/wt/$P; OUT=/verif/seeded/$NAME
mkdir -p $OUT
git -C $WT diff -- include > $OUT/patch.diff
[ -s $OUT/patch.diff ] || { echo "no change in $WT"; exit 2; }
cp $WT/demo/demo.cpp $OUT/demo.cpp; cp $WT/demo/NOTES.md $OUT/NOTES.md 2>/dev/null
LIBS="-lpng -ljpeg -ltiff"
# demo with the change
g++ -std=c++14 -O1 -I$WT/include $OUT/demo.cpp -o /tmp/wt/demo_mut_$P $LIBS 2>/dev/null || g++ -std=c++14 -O1 -I$WT/include $OUT/demo.cpp -o /tmp/wt/demo_mut_$P 2>&1 | tail -3
timeout 600 /tmp/wt/demo_mut_$P > /tmp/wt/demo_mut_$P.out 2>&1; RC_MUT=$?
# demo without the change (the clean library is /repo at HEAD)
g++ -std=c++14 -O1 -I/repo/include $OUT/demo.cpp -o /tmp/wt/demo_clean_$P $LIBS 2>/dev/null || g++ -std=c++14 -O1 -I/repo/include $OUT/demo.cpp -o /tmp/wt/demo_clean_$P 2>&1 | tail -3
timeout 600 /tmp/wt/demo_clean_$P > /tmp/wt/demo_clean_$P.out 2>&1; RC_CLEAN=$?
echo "demo: with change rc=$RC_MUT ; without rc=$RC_CLEAN"
# existing suite with the change
cmake -G Ninja -S $WT -B $WT/_build -DCMAKE_BUILD_TYPE=RelWithDebInfo -DCMAKE_CXX_STANDARD=14 -DBOOST_GIL_BUILD_EXAMPLES=OFF -DBOOST_GIL_BUILD_HEADER_TESTS=OFF > /dev/null 2>&1
cmake --build $WT/_build -j16 > /tmp/wt/build_$P.log 2>&1; BRC=$?
CT=$(ctest --test-dir $WT/_build -j16 2>&1 | grep "tests passed" )
rm -rf $WT/_build
echo "suite: build rc=$BRC ; $CT"
# the check against the change
git -C /repo apply $OUT/patch.diff || { echo "patch does not apply to /repo"; exit 2; }
cd /verif
IDS=$(python3 -c "import json;print(' '.join(c['property_id'] for c in json.load(open('MANIFEST.json'))['checks']))")
FIRED=""; CRC=0
for id in $IDS; do
  ./check $id > /tmp/wt/check_${P}_$id.out 2>&1; r=$?
  if [ $r -ne 0 ]; then FIRED="$FIRED $id:$r"; fi
  if [ $id = $P ]; then CRC=$r; fi
done
git -C /repo checkout -- .
for id in $IDS; do grep -E "^  rule=" /tmp/wt/check_${P}_$id.out | cut -c1-200 | head -2 | sed "s/^/  [$id]/"; done
echo "checks that fired (id:exit):$FIRED ; own check exit=$CRC"
python3 - <<PY
import json
json.dump({"property":"$P","name":"$NAME","demo_rc_with_change":$RC_MUT,"demo_rc_without_change":$RC_CLEAN,"suite_with_change":"$CT","suite_build_rc":$BRC,
 "own_check_exit_code":$CRC,"checks_that_fired":"$FIRED".split(),"check_cmd":"./check <id> --tier quick for every claimed id","origin":"independent sub-agent given only the property text and a scratch worktree"}, open("$OUT/meta.json","w"), indent=1)
PY
rm -f /tmp/wt/demo_mut_$P /tmp/wt/demo_clean_$P
