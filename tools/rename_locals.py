#!/usr/bin/env python3
"""Behaviour-preserving refactor used to test the checkers against false alarms: renames function-local variables
(and lambda parameters) of the headers under <tree>/include that the AST rules look at.  Names come from the astdump JSON
files of a previous run (<scratch>/*/*.json); a name is renamed only if, in the whole include tree, it never occurs as a
member access (.name / ->name), a call, a type/namespace (name::), or after a declaration keyword that suggests another role.
usage: rename_locals.py <tree> <scratch-with-json> [suffix]"""
import sys, os, re, json, glob
tree, scratch = sys.argv[1], sys.argv[2]
suffix = sys.argv[3] if len(sys.argv) > 3 else "_rn"
names = {}          # file -> set(names)


def walk(n, f):
    if isinstance(n, dict):
        f(n)
        for v in n.values():
            walk(v, f)
    elif isinstance(n, list):
        for x in n:
            walk(x, f)


for jf in glob.glob(os.path.join(scratch, "*", "*.json")):
    try:
        d = json.load(open(jf))
    except Exception:
        continue
    for fn in d.get("functions", []):
        fl = fn.get("file", "")
        if "/include/boost/gil" not in fl:
            continue
        rel = "include/" + fl.split("/include/", 1)[1]

        def visit(x, rel=rel):
            if x.get("k") == "Decl":
                for dd in x.get("decls", []):
                    if dd.get("name") and dd.get("id"):
                        names.setdefault(rel, set()).add(dd["name"])
            if x.get("k") == "Lambda":
                for q in x.get("params") or []:
                    if q.get("name"):
                        names.setdefault(rel, set()).add(q["name"])
        walk(fn.get("body"), visit)
alltext = ""
for root, _, files in os.walk(os.path.join(tree, "include")):
    for fn in files:
        if fn.endswith(".hpp"):
            alltext += open(os.path.join(root, fn), errors="replace").read() + "\n"
done = 0
for rel, ns in sorted(names.items()):
    path = os.path.join(tree, rel)
    if not os.path.exists(path):
        continue
    txt = open(path).read()
    for nm in sorted(ns, key=len, reverse=True):
        if len(nm) < 2 or nm in ("it", "this", "type", "value", "first", "second", "size", "begin", "end", "x", "y"):
            continue
        w = re.escape(nm)
        if re.search(r"(\.|->|::)\s*%s\b" % w, alltext) or re.search(r"\b%s\s*(\(|::|<[A-Za-z])" % w, alltext):
            continue
        if re.search(r"\b(struct|class|enum|namespace|typename|using|template)\s+%s\b" % w, alltext):
            continue
        if re.search(r"\b%s\b\s*;" % w, re.sub(r"[^;{}]*\(", "(", "")):
            pass
        new = "\n".join(l if l.lstrip().startswith("#") else re.sub(r"\b%s\b" % w, nm + suffix, l) for l in txt.split("\n"))
        if new != txt:
            txt = new
            done += 1
    open(path, "w").write(txt)
print("renamed %d local names in %d files" % (done, len(names)))
