// dilation with a vertical-line structuring element must spread a point vertically (the element's non-zero entries are at x = 1, y = 0..2)
#include <boost/gil.hpp>
#include <boost/gil/image_processing/morphology.hpp>
#include <iostream>
using namespace boost::gil;
int main(){
  gray8_image_t img(5, 5), out(5, 5); fill_pixels(view(img), gray8_pixel_t(0)); view(img)(2, 2) = gray8_pixel_t(255);
  std::vector<float> se = {0, 1, 0,
                           0, 1, 0,
                           0, 1, 0};                 // row-major: at(x, y) == se[y * 3 + x]
  detail::kernel_2d<float> k(se.begin(), se.size(), 1, 1);
  if (k.at(1, 0) != 1 || k.at(0, 1) != 0) { std::cout << "kernel layout is not what the demo assumes\n"; return 2; }
  dilate(view(img), view(out), k, 1);
  for (int y = 0; y < 5; ++y) { for (int x = 0; x < 5; ++x) std::cout << (view(out)(x, y)[0] ? '#' : '.'); std::cout << "\n"; }
  bool vertical = view(out)(2,1)[0] && view(out)(2,3)[0] && !view(out)(1,2)[0] && !view(out)(3,2)[0];
  std::cout << (vertical ? "vertical line: OK\n" : "NOT the vertical line of the structuring element\n");
  return vertical ? 0 : 1;
}
