// C11 / R1: the libpng read callback discarded the byte count of the device read. A 41-byte file -- a valid 1x1 IHDR followed by the
// 8-byte header of an ancillary chunk and then EOF -- made read_image_info loop for ever: libpng parsed the chunk header from a buffer
// the callback had not filled, found the stale ancillary chunk again, treated its CRC mismatch as a warning, and repeated.
// Build: g++ -std=c++14 -I /repo/include png_short_read.cpp -lpng && ./a.out 2>/dev/null      (before the fix: killed by the 5 s alarm, gigabytes of libpng warnings on stderr)
#include <boost/gil.hpp>
#include <boost/gil/extension/io/png.hpp>
#include <cstdio>
#include <sstream>
#include <unistd.h>
int main()
{
    alarm(5);
    std::string s("\x89PNG\r\n\x1a\n" "\0\0\0\rIHDR" "\0\0\0\1" "\0\0\0\1" "\x08\0\0\0\0" "\x3a\x7e\x9b\x55" "\0\0\0\1tEXt", 41);
    std::istringstream in(s, std::ios::binary);
    try
    {
        auto info = boost::gil::read_image_info(in, boost::gil::png_tag());
        std::printf("returned: %u x %u\n", (unsigned)info._info._width, (unsigned)info._info._height);
    }
    catch (std::exception const& e)
    {
        std::printf("rejected: %s\n", e.what());
    }
    return 0;
}
