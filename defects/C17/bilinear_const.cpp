// C17 replay: bilinear_sampler's result is not a convex combination of the surrounding pixels: the floating-point
// accumulator is truncated to the integral channel, so a constant image is not reproduced
// g++ -std=c++14 -I/repo/include bilinear_const.cpp && ./a.out
#include <boost/gil.hpp>
#include <boost/gil/extension/numeric/sampler.hpp>
#include <boost/gil/extension/numeric/resample.hpp>
#include <cstdio>
using namespace boost::gil;
int main()
{
    gray8_image_t img(2, 1, gray8_pixel_t(255));
    gray8_pixel_t r(7);
    sample(bilinear_sampler(), const_view(img), point<double>(3.0 / 7, 0.0), r);
    std::printf("constant 255 image sampled at (3/7, 0): %d\n", int(r[0]));
    gray8_image_t s(3, 3, gray8_pixel_t(255)), d(8, 8);
    resize_view(const_view(s), view(d), bilinear_sampler());
    int off = 0;
    for (auto p : view(d)) off += p[0] != 255;
    std::printf("resize_view of a constant 3x3 image of 255 to 8x8: %d of 64 pixels differ from 255\n", off);
    return (r[0] != 255 || off) ? 1 : 0;
}
