// C16 / T0: threshold_binary and threshold_truncate did not compile for float32_t channels (gray32f, rgb32f views): the lambdas mix the channel
// (a class type) with the int literal 0 in `?:`; the three-argument overload took the maximum from std::numeric_limits<float32_t>, which is not
// specialised (0 instead of 1).
// Build: g++ -std=c++14 -I /repo/include threshold_float32.cpp && ./a.out
#include <boost/gil.hpp>
#include <boost/gil/image_processing/threshold.hpp>
#include <cstdio>
namespace gil = boost::gil;
int main()
{
    gil::gray32f_image_t a(2, 1), b(2, 1);
    gil::view(a)(0, 0) = gil::gray32f_pixel_t(0.25f); gil::view(a)(1, 0) = gil::gray32f_pixel_t(0.75f);
    gil::threshold_binary(gil::const_view(a), gil::view(b), 0.5f);
    float b0 = gil::view(b)(0, 0)[0], b1 = gil::view(b)(1, 0)[0];
    gil::threshold_truncate(gil::const_view(a), gil::view(b), 0.5f);
    float t0 = gil::view(b)(0, 0)[0], t1 = gil::view(b)(1, 0)[0];
    gil::threshold_truncate(gil::const_view(a), gil::view(b), 0.5f, gil::threshold_truncate_mode::zero);
    float z0 = gil::view(b)(0, 0)[0], z1 = gil::view(b)(1, 0)[0];
    std::printf("binary %g %g (0 1), truncate %g %g (0.25 0.5), zero %g %g (0 0.75)\n", b0, b1, t0, t1, z0, z1);
    return !(b0 == 0 && b1 == 1 && t0 == 0.25f && t1 == 0.5f && z0 == 0 && z1 == 0.75f);
}
