// a PGM text file whose first sample is a run of 200 digits: must be rejected with an exception, not overflow char buf[16]
#include <boost/gil.hpp>
#include <boost/gil/extension/io/pnm.hpp>
#include <sstream>
#include <iostream>
using namespace boost::gil;
int main(){
  std::string s = "P2 2 1 255 " + std::string(200, '1') + " 7 ";
  std::istringstream in(s, std::ios::binary);
  gray8_image_t img;
  try { read_image(in, img, pnm_tag()); std::cout << "returned normally, pixel0=" << (int)view(img)(0,0)[0] << "\n"; return 1; }
  catch (std::exception& e) { std::cout << "exception: " << e.what() << "\n"; return 0; }
}
