// C10 / I9: bit-aligned image(w,h,fill), recreate(...,fill,...) and image(flipped/subsampled view) left the image unwritten:
// std::uninitialized_fill / std::uninitialized_copy placement-new at addressof(*it), and *it of a bit_aligned_pixel_iterator is a
// temporary proxy. The allocator below pre-fills memory with 0xCD to make the missing writes visible.
// C10 / I0: a planar image could not be constructed from a planar view with a step x-iterator (did not compile).
// Build: g++ -std=c++14 -I /repo/include bit_aligned_fill.cpp && ./a.out
#include <boost/gil.hpp>
#include <cstdio>
#include <cstring>
#include <cstdlib>
using namespace boost::gil;
template <class T> struct dirty_alloc
{
    using value_type = T;
    dirty_alloc() {}
    template <class U> dirty_alloc(dirty_alloc<U> const&) {}
    T* allocate(std::size_t n) { void* p = std::malloc(n * sizeof(T)); std::memset(p, 0xCD, n * sizeof(T)); return static_cast<T*>(p); }
    void deallocate(T* p, std::size_t) { std::free(p); }
    friend bool operator==(dirty_alloc const&, dirty_alloc const&) { return true; }
    friend bool operator!=(dirty_alloc const&, dirty_alloc const&) { return false; }
};
int main()
{
    using I = bit_aligned_image3_type<1, 2, 3, rgb_layout_t, dirty_alloc<unsigned char>>::type;
    I::value_type f; semantic_at_c<0>(f) = 1; semantic_at_c<1>(f) = 3; semantic_at_c<2>(f) = 6;
    int bad = 0;
    I g(3, 1, f);
    for (int x = 0; x < 3; ++x) bad += !(view(g)(x, 0) == f);
    I h; h.recreate(3, 1, f);
    for (int x = 0; x < 3; ++x) bad += !(view(h)(x, 0) == f);
    I a(3, 1); fill_pixels(view(a), f); semantic_at_c<2>(view(a)(1, 0)) = 2;
    I e(flipped_left_right_view(view(a)));
    for (int x = 0; x < 3; ++x) bad += !(view(e)(x, 0) == view(a)(2 - x, 0));
    I c(const_view(a));
    bad += !(c == a);
    rgb8_planar_image_t p(3, 2, rgb8_pixel_t(1, 2, 3)); view(p)(0, 0) = rgb8_pixel_t(9, 8, 7);
    rgb8_planar_image_t q(flipped_left_right_view(view(p)));           // did not compile
    bad += !(view(q)(2, 0) == rgb8_pixel_t(9, 8, 7));
    std::printf("%d wrong pixels\n", bad);
    return bad != 0;
}
