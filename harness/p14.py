"""C14 run-time typed images: (D0) the whole dynamic API instantiates over representative type lists and the result
types are the per-alternative static result types (type-level witnesses), (D1) algorithm overloads forward to the
static algorithm through variant2::visit with arguments in order and throw bad_cast on incompatibility before any
write, (D2) every *_view_fn calls the like-named static factory, (D4) any_image forwarding members."""
import os, re
from . import common as C
from .ast import rules as R

LEVEL = "other"
EXPLANATION = ("Static analysis. D0/D3 (front end as the deciding step): a witness translation unit uses every transformation "
               "(flip, rotate, transpose, subimage, subsample, nth_channel, color_converted), every algorithm overload (copy, "
               "copy_and_convert, equal, fill, for_each, resample) and the any_image members (copy, move, assign, ==, recreate, "
               "dimensions, num_channels) on any_image_view / any_image over two type lists, with static_asserts that each "
               "dynamic factory returns any_image_view over the per-alternative static result types in order: it must compile "
               "(uninstantiated template code is unchecked even by the compiler: three such bodies were repaired). D1 (AST): "
               "every algorithm overload visits the variant(s) with the functor of the SAME algorithm, binding the non-variant "
               "argument in its own position; the functor's apply_compatible calls the static algorithm with (src,dst) in order; "
               "the incompatible path is `throw std::bad_cast()` and nothing else. D2: each detail::*_view_fn::operator() calls the "
               "static factory of the same name on its argument (with its stored parameters) and wraps it in result_type. D4: "
               "any_image::recreate visits and never re-assigns the variant; dimensions/num_channels/width/height forward to the "
               "held alternative. Not decided: pixel values of the results (they are the static operations' results by D1/D2).")
W = "include/boost/gil/extension/dynamic_image/"

WITNESS = r'''#include "vf_common.hpp"
#include <boost/gil/extension/dynamic_image/dynamic_image_all.hpp>
#include <boost/gil/extension/numeric/resample.hpp>
#include <boost/gil/extension/numeric/sampler.hpp>
#include <boost/gil/extension/numeric/affine.hpp>
using namespace vf;
struct fn1 { template <class P> void operator()(P&&) const {} };
template <class... V> struct checks {
  using av = any_image_view<V...>;
  template <template <class> class M> using map = any_image_view<typename M<V>::type...>;
  static void run(av const& v, av const& w, rgb8_view_t const& s) {
    static_assert(std::is_same<decltype(flipped_up_down_view(v)), map<dynamic_y_step_type>>::value, "flipped_up_down result type");
    static_assert(std::is_same<decltype(flipped_left_right_view(v)), map<dynamic_x_step_type>>::value, "flipped_left_right result type");
    static_assert(std::is_same<decltype(transposed_view(v)), map<dynamic_xy_step_transposed_type>>::value, "transposed result type");
    static_assert(std::is_same<decltype(rotated90cw_view(v)), map<dynamic_xy_step_transposed_type>>::value, "rotated90cw result type");
    static_assert(std::is_same<decltype(rotated90ccw_view(v)), map<dynamic_xy_step_transposed_type>>::value, "rotated90ccw result type");
    static_assert(std::is_same<decltype(rotated180_view(v)), map<dynamic_xy_step_type>>::value, "rotated180 result type");
    static_assert(std::is_same<decltype(subimage_view(v, 0, 0, 1, 1)), av>::value, "subimage result type");
    static_assert(std::is_same<decltype(subimage_view(v, point_t(0, 0), point_t(1, 1))), av>::value, "subimage(point) result type");
    static_assert(std::is_same<decltype(subsampled_view(v, 2, 2)), map<dynamic_xy_step_type>>::value, "subsampled result type");
    static_assert(std::is_same<decltype(subsampled_view(v, point_t(2, 2))), map<dynamic_xy_step_type>>::value, "subsampled(point) result type");
    static_assert(std::is_same<decltype(nth_channel_view(v, 0)), map<nth_channel_view_type>>::value, "nth_channel result type");
    static_assert(std::is_same<decltype(color_converted_view<gray8_pixel_t>(v)), any_image_view<typename color_converted_view_type<V, gray8_pixel_t>::type...>>::value, "color_converted result type");
    (void)flipped_up_down_view(v).width(); (void)flipped_left_right_view(v).height(); (void)transposed_view(v).dimensions(); (void)rotated90cw_view(v).size();
    (void)rotated90ccw_view(v).num_channels(); (void)rotated180_view(v).width(); (void)subimage_view(v, 0, 0, 1, 1).width(); (void)subsampled_view(v, 2, 2).width();
    (void)nth_channel_view(v, 0).width(); (void)color_converted_view<gray8_pixel_t>(v).width(); (void)color_converted_view<gray8_pixel_t>(v, default_color_converter()).width();
    copy_pixels(v, w); copy_pixels(v, s); copy_pixels(s, w);
    copy_and_convert_pixels(v, w); copy_and_convert_pixels(v, s); copy_and_convert_pixels(s, w);
    copy_and_convert_pixels(v, w, default_color_converter()); copy_and_convert_pixels(v, s, default_color_converter()); copy_and_convert_pixels(s, w, default_color_converter());
    (void)equal_pixels(v, w); (void)equal_pixels(v, s); (void)equal_pixels(s, w);
    fill_pixels(v, rgb8_pixel_t()); for_each_pixel(v, fn1());
    fill_pixels(v, bgr8_pixel_t()); fill_pixels(v, rgb16_pixel_t()); fill_pixels(v, gray8_pixel_t());   // compatible by colour; same colour space, other depth; other colour space
    matrix3x2<double> m;
    resample_pixels(v, w, m, nearest_neighbor_sampler()); resample_pixels(v, s, m, bilinear_sampler()); resample_pixels(s, w, m, nearest_neighbor_sampler());
    (void)(v == w); (void)(v != w); av c(v); c = w; (void)c.dimensions(); (void)c.num_channels(); (void)c.width(); (void)c.height(); (void)c.size();
  }
};
// transformations only (the list holds a view that is not writable and whose transposed type differs from its own type:
// an image_view over a virtual_2d_locator), and the deprecated spellings of the colour-converting factory
template <class... V> struct tchecks {
  using av = any_image_view<V...>;
  template <template <class> class M> using map = any_image_view<typename M<V>::type...>;
  static void run(av const& v) {
    static_assert(std::is_same<decltype(transposed_view(v)), map<dynamic_xy_step_transposed_type>>::value, "transposed result type");
    static_assert(std::is_same<decltype(rotated90cw_view(v)), map<dynamic_xy_step_transposed_type>>::value, "rotated90cw result type");
    static_assert(std::is_same<decltype(rotated90ccw_view(v)), map<dynamic_xy_step_transposed_type>>::value, "rotated90ccw result type");
    static_assert(std::is_same<decltype(rotated180_view(v)), map<dynamic_xy_step_type>>::value, "rotated180 result type");
    static_assert(std::is_same<decltype(flipped_up_down_view(v)), map<dynamic_y_step_type>>::value, "flipped_up_down result type");
    static_assert(std::is_same<decltype(subsampled_view(v, 2, 2)), map<dynamic_xy_step_type>>::value, "subsampled result type");
    (void)transposed_view(v).dimensions(); (void)rotated90cw_view(v).size(); (void)rotated90ccw_view(v).width(); (void)rotated180_view(v).width();
    (void)flipped_up_down_view(v).width(); (void)flipped_left_right_view(v).width(); (void)subsampled_view(v, 2, 2).width(); (void)subimage_view(v, 0, 0, 1, 1).width();
    (void)any_color_converted_view<gray8_pixel_t>(v).width(); (void)any_color_converted_view<gray8_pixel_t>(v, default_color_converter()).width();
  }
};
template <class... I> struct ichecks {
  using ai = any_image<I...>;
  static void run(ai& a, ai const& b) {
    ai c(b); ai d(std::move(c)); d = b; a = std::move(d); (void)(a == b); (void)(a != b);
    a.recreate(3, 4); a.recreate(point_t(3, 4)); (void)a.dimensions(); (void)a.num_channels(); (void)a.width(); (void)a.height();
    auto v = view(a); auto cv = const_view(b); (void)v.width(); (void)cv.width();
    static_assert(std::is_same<decltype(view(a)), any_image_view<typename I::view_t...>>::value, "view(any_image) type");
    static_assert(std::is_same<decltype(const_view(b)), any_image_view<typename I::const_view_t...>>::value, "const_view(any_image) type");
  }
};
void inst(any_image_view<gray8_view_t, rgb8_view_t, rgb8_planar_view_t, cmyk16_view_t> const& v, any_image_view<gray8_view_t, rgb8_view_t, rgb8_planar_view_t, cmyk16_view_t> const& w,
          any_image_view<rgb8_view_t, k_xystep, rgb8_planar_view_t, bgr8_view_t> const& v2, any_image_view<rgb8_view_t, k_xystep, rgb8_planar_view_t, bgr8_view_t> const& w2, rgb8_view_t const& s,
          any_image<gray8_image_t, rgb8_image_t, rgb8_planar_image_t, cmyk16_image_t>& a, any_image<gray8_image_t, rgb8_image_t, rgb8_planar_image_t, cmyk16_image_t> const& b) {
  checks<gray8_view_t, rgb8_view_t, rgb8_planar_view_t, cmyk16_view_t>::run(v, w, s);
  checks<rgb8_view_t, k_xystep, rgb8_planar_view_t, bgr8_view_t>::run(v2, w2, s);
  ichecks<gray8_image_t, rgb8_image_t, rgb8_planar_image_t, cmyk16_image_t>::run(a, b);
}
void inst2(any_image_view<k_virt, rgb8_view_t> const& v) { tchecks<k_virt, rgb8_view_t>::run(v); }
'''

ALGOS = {"copy_pixels": "copy_pixels_fn", "equal_pixels": "equal_pixels_fn", "copy_and_convert_pixels": "copy_and_convert_pixels_fn",
         "fill_pixels": "fill_pixels_fn", "for_each_pixel": "for_each_pixel_fn", "resample_pixels": "resample_pixels_fn"}
FACTORIES = ["flipped_up_down_view", "flipped_left_right_view", "rotated90cw_view", "rotated90ccw_view", "transposed_view", "rotated180_view",
             "subimage_view", "subsampled_view", "nth_channel_view", "color_converted_view"]


def run(rep):
    C.need_tools(C.ASTDUMP)
    wd = C.workdir("C14")
    src = os.path.join(wd, "c14_witness.cpp")
    open(src, "w").write(WITNESS)
    rep.trusted += ["clang 14 (and g++ 12 in the thorough tier) front ends: template instantiation and static_assert over types", "harness/ast/rules.py"]
    rep.rule("D0/D3 the witness TU over two type lists compiles, including the static_asserts on the dynamic factories' result types")
    for comp in [C.CLANGXX] + ([C.GXX] if rep.tier == "thorough" else []):
        rc, err, cmd = C.syntax_only(src, compiler=comp, extra=["-ftemplate-backtrace-limit=0"])
        rep.count("witness_units")
        errs = C.parse_errors(err)
        if rc == 0:
            rep.ok("D0-compiles", "dynamic API witness (%s)" % comp, "%d uses, 28 static_asserts" % WITNESS.count(";"))
        else:
            seen = set()
            for e in errs[:40]:
                loc = "%s:%s" % (C.repo_rel(e["file"]), e["line"])
                key = "D0:%s:%s" % (loc if e["file"].startswith(C.REPO) else "witness", re.sub(r"'[^']{60,}'", "'...'", e["msg"])[:120])
                if key in seen:
                    continue
                seen.add(key)
                rep.violation("D0-compiles", key, loc, {"compiler": comp, "error": e["msg"][:400]})
    if rep.violations:
        return
    d = C.astdump(src, os.path.join(wd, "c14.json"),
                  ["^boost::gil::(%s)$" % "|".join(list(ALGOS) + FACTORIES), "^boost::gil::detail::[A-Za-z0-9_]+_(view_fn|pixels_fn|pixel_fn|pixels_fn1)::", "^boost::gil::binary_operation_obj::",
                   "^boost::gil::any_image::", "^boost::gil::any_image_view::", "^boost::gil::image::recreate$", "^boost::gil::detail::(any_type_get_[A-Za-z0-9_]+|recreate_image_fnobj)::"])
    fns = d["functions"]
    rep.units.append("c14_witness.cpp: %d instantiated functions dumped" % len(fns))
    forwarding(rep, fns)
    factories(rep, fns)
    anyimage(rep, fns)
    stored_parameters(rep, fns)
    forwarded_defaults(rep, fns)
    results_kept(rep, fns)
    rep.floor("obligations:D7", 4)
    rep.floor("obligations:D1", 40)
    rep.floor("obligations:D2", 60)
    rep.floor("rule:D2-factory", 30)
    rep.floor("rule:D1-functor", 6)
    rep.floor("rule:D1-fill-dispatch", 4)
    rep.floor("rule:D1-incompatible", 2)
    rep.floor("compatible_pairs_of_different_types", 1)


def is_any(t):
    return "any_image_view<" in t


def forwarding(rep, fns):
    rep.rule("D1 every algorithm overload on any_image_view visits with the functor of the same algorithm; the non-variant argument is bound in its own position; apply_compatible calls the static algorithm with arguments in order; incompatible -> throw std::bad_cast only")
    for f in fns:
        short = f["name"].split("::")[-1]
        if f["name"] != "boost::gil::" + short or short not in ALGOS:
            continue
        ptypes = [p["type"] for p in f["params"]]
        if not any(is_any(t) for t in ptypes[:2]):
            continue
        rn = R.param_renamer(f)
        visits = R.calls_in(f["body"], lambda n: n in ("boost::variant2::visit",))
        rep.count("obligations:D1")
        shape = "".join("A" if is_any(t) else "V" for t in ptypes[:2]) if short not in ("fill_pixels", "for_each_pixel") else "A"
        key = "D1:%s(%s)" % (short, shape)
        if len(visits) != 1:
            rep.violation("D1-forward", key, R.fn_where(f), {"problem": "%d visit calls" % len(visits)})
            continue
        v = visits[0][0]
        args = [rn(R.key(a)) for a in v["args"]]
        fn_txt = args[0]
        ctypes = " ".join(x.get("ccls", "") for x, _p in R.find(v["args"][0], lambda y: y.get("k") in ("Construct", "InitList")))
        ok = ALGOS[short] in fn_txt or ALGOS[short] in ctypes
        det = {"visit": [a[:160] for a in args]}
        if shape == "AA":
            ok = ok and args[1:] == ["$0", "$1"]
        elif shape == "AV":
            ok = ok and "bind(" in fn_txt and re.search(r"_1,\$1\)$", fn_txt.replace(" ", "")) is not None and args[1:] == ["$0"]
        elif shape == "VA":
            ok = ok and "bind(" in fn_txt and re.search(r",\$0,(std::placeholders::)?_1\)$", fn_txt.replace(" ", "")) is not None and args[1:] == ["$1"]
        else:
            ok = ok and args[1:] == ["$0"]
        # every further parameter (colour converter, sampler, matrix, fill value, function object) reaches the functor
        first_extra = 1 if shape == "A" else 2
        missing = ["$%d (%s)" % (i, f["params"][i]["name"]) for i in range(first_extra, len(ptypes)) if ("$%d" % i) not in fn_txt]
        if missing:
            ok = False
            det["parameters_not_forwarded"] = missing
        if ok:
            rep.ok("D1-forward", key + ":" + str(len(ptypes)), det)
        else:
            rep.violation("D1-forward", key, R.fn_where(f), det)
    # functors
    for f in fns:
        nm = f["name"]
        if nm.endswith("::apply_compatible") and any(a in nm for a in ALGOS.values()):
            algo = [k for k, v in ALGOS.items() if v in nm][0]
            rn = R.param_renamer(f)
            cs = [rn(R.key(c)) for c, p in R.calls_in(f["body"], lambda n: n == "boost::gil::" + algo)]
            rep.count("obligations:D1")
            want = {"copy_pixels": "copy_pixels($0,$1)", "equal_pixels": "equal_pixels($0,$1)", "copy_and_convert_pixels": "copy_pixels($0,$1)",
                    "resample_pixels": "resample_pixels($0,$1,_dst_to_src,_sampler)"}[algo]
            if algo == "copy_and_convert_pixels":
                cs = [rn(R.key(c)) for c, p in R.calls_in(f["body"], lambda n: n == "boost::gil::copy_pixels")]
            if cs == [want]:
                rep.ok("D1-functor", "%s::apply_compatible" % ALGOS[algo], cs)
            else:
                rep.violation("D1-functor", "D1:%s::apply_compatible" % ALGOS[algo], R.fn_where(f), {"calls": cs, "documented": want})
        if nm == "boost::gil::binary_operation_obj::apply_incompatible" or (nm.endswith("fill_pixels_fn1::apply") and "false" in f.get("cls", "")):
            body = R.strip(f["body"])
            stmts = [R.strip(s) for s in body.get("c", [])]
            rep.count("obligations:D1")
            ok = len(stmts) == 1 and stmts[0].get("k") == "Throw" and "bad_cast" in R.key(stmts[0]["e"])
            key = "D1:incompatible:%s" % nm.split("::")[-2]
            if ok:
                rep.ok("D1-incompatible", key + ":" + f["full"][-25:], "throw std::bad_cast()")
            else:
                rep.violation("D1-incompatible", key, R.fn_where(f), {"body": [R.key(s)[:80] for s in stmts]})
        if nm == "boost::gil::binary_operation_obj::operator()" and len(f["params"]) == 2:
            # the compile-time tag that selects apply_compatible / apply_incompatible is `the two views are compatible`:
            # same channel type and same colour space, whatever the layout order or planarity
            def sig(t):
                m = re.search(r"pixel<([^,]+), boost::gil::layout<boost::mp11::mp_list<([^>]*)>", t) or re.search(r"planar_pixel_iterator<([^,*]+?) ?\*, boost::mp11::mp_list<([^>]*)>", t)
                return (m.group(1).replace("const ", "").strip(), m.group(2)) if m else None
            full = f["full"]
            i = full.rfind("operator()<")
            targs, depth, cur = [], 0, ""
            for ch in full[i + len("operator()<"):-1]:
                if ch == "<":
                    depth += 1
                elif ch == ">":
                    depth -= 1
                if ch == "," and depth == 0:
                    targs.append(cur.strip()); cur = ""
                else:
                    cur += ch
            targs.append(cur.strip())
            tags = []
            for c, _ in R.find(f["body"], lambda x: x.get("k") == "Call" and x["callee"]["name"].endswith("::apply")):
                for x, _p in R.find(c["args"][2], lambda y: y.get("k") in ("Construct", "InitList") and "integral_constant<bool" in (y.get("ccls") or "")):
                    tags.append("true" in x["ccls"])
            if len(targs) == 2 and sig(targs[0]) and sig(targs[1]) and tags:
                rep.count("obligations:D1")
                want = sig(targs[0]) == sig(targs[1])
                different = targs[0] != targs[1]
                key = "D1:binary_operation_obj::operator():tag(%s,%s)" % ("compatible" if want else "incompatible", "different types" if different else "same type")
                if all(t == want for t in tags):
                    rep.ok("D1-dispatch", key + full[-12:], {"channel/colour space": [sig(targs[0]), sig(targs[1])], "tag": tags})
                else:
                    rep.violation("D1-dispatch", key, R.fn_where(f), {"views": [sig(targs[0]), sig(targs[1])], "tag_passed": tags, "views_are_compatible": want,
                                                                       "problem": "views of the same colour space and channel type (e.g. interleaved and planar, rgb and bgr) must take the compatible path; otherwise the dynamic algorithm throws bad_cast where the static one copies"})
                if want and different:
                    rep.count("compatible_pairs_of_different_types")
        if nm == "boost::gil::binary_operation_obj::apply":
            rn = R.param_renamer(f)
            cs = [c["callee"]["name"].split("::")[-1] + "(" + ",".join(rn(R.key(a)) for a in c["args"]) + ")" for c, p in R.find(f["body"], lambda x: x.get("k") == "Call" and x["callee"]["name"].split("::")[-1].startswith("apply_"))]
            rep.count("obligations:D1")
            compat = "true" in f["params"][2]["type"] or "integral_constant<bool, true>" in f["params"][2]["type"]
            want = ["apply_compatible($0,$1)"] if compat else ["apply_incompatible($0,$1)"]
            if cs == want:
                rep.ok("D1-dispatch", "binary_operation_obj::apply(%s)" % ("compatible" if compat else "incompatible") + f["full"][-10:], cs)
            else:
                rep.violation("D1-dispatch", "D1:binary_operation_obj::apply(%s)" % ("compatible" if compat else "incompatible"), R.fn_where(f), {"calls": cs, "documented": want, "tag": f["params"][2]["type"]})
        if nm.endswith("fill_pixels_fn1::apply") and "true" in f.get("cls", ""):
            rn = R.param_renamer(f)
            cs = [rn(R.key(c)) for c, p in R.calls_in(f["body"], lambda n: n == "boost::gil::fill_pixels")]
            rep.count("obligations:D1")
            (rep.ok("D1-functor", "fill_pixels_fn1<true>::apply" + f["full"][-10:], cs) if cs == ["fill_pixels($0,$1)"] else
             rep.violation("D1-functor", "D1:fill_pixels_fn1<true>::apply", R.fn_where(f), {"calls": cs}))
        if nm.endswith("fill_pixels_fn::operator()"):
            # the held view is filled iff the value is a compatible pixel (same colour space AND same channel type); otherwise bad_cast, destination untouched
            def psig(t):
                m = re.search(r"pixel<([^,]+), boost::gil::layout<boost::mp11::mp_list<([^>]*)>", t) or re.search(r"planar_pixel_(?:iterator|reference)<([^,*&]+?) ?[*&], boost::mp11::mp_list<([^>]*)>", t)
                return (m.group(1).replace("const ", "").strip(), m.group(2)) if m else None
            vs, ps = psig(f["full"].split("operator()<", 1)[-1]), psig(f.get("cls", ""))
            tags = [("true" in (c["callee"].get("cls") or "")) for c, _ in R.find(f["body"], lambda x: x.get("k") == "Call" and "fill_pixels_fn1<" in ((x.get("callee") or {}).get("cls") or ""))]
            if vs and ps and tags:
                rep.count("obligations:D1")
                rep.count("rule:D1-fill-dispatch")
                want = vs == ps
                key = "D1:fill_pixels_fn::operator():%s value into %s view" % ("/".join(ps)[:60], "/".join(vs)[:60])
                if all(t == want for t in tags):
                    rep.ok("D1-dispatch", key, {"compatible": want})
                else:
                    rep.violation("D1-dispatch", key, R.fn_where(f), {"view": vs, "value": ps, "pixels are compatible": want, "path taken": "fill" if tags[0] else "throw",
                                  "example": "fill_pixels(any_image_view holding rgb8, rgb16_pixel_t(0x1234,..)): no bad_cast, the view is overwritten with the truncated value 0x34"})
        if nm.endswith("for_each_pixel_fn::operator()"):
            rn = R.param_renamer(f)
            cs = [rn(R.key(c)) for c, p in R.calls_in(f["body"], lambda n: n == "boost::gil::for_each_pixel")]
            rep.count("obligations:D1")
            (rep.ok("D1-functor", "for_each_pixel_fn::operator()" + f["full"][-10:], cs) if cs == ["for_each_pixel($0,fun_)"] else
             rep.violation("D1-functor", "D1:for_each_pixel_fn::operator()", R.fn_where(f), {"calls": cs}))


def results_kept(rep, fns):
    rep.rule("D7 in the dynamic_image extension no value returned by the concrete algorithm (or by the visit that runs it) is discarded by a function that itself returns a value: "
             "`for_each_pixel(view, fun_); return fun_;` hands back the functor that was never applied (the concrete algorithm takes it by value and returns the copy it used)")
    TRANSPARENT = ("Paren", "ImplicitCast", "ExprWithCleanups", "Cleanups", "MaterializeTemporary", "BindTemporary")
    for f in fns:
        if "extension/dynamic_image" not in f.get("file", "") or f.get("body") is None or (f.get("ret") or "void").strip() == "void":
            continue
        nm = f["name"].replace("boost::gil::", "")
        for c, pth in R.find(f["body"], lambda x: x.get("k") == "Call" and isinstance(x.get("callee"), dict)):
            cn = c["callee"].get("name", "")
            short = cn.split("::")[-1]
            if not (cn.startswith("boost::gil::") and short in ALGOS) and cn not in ("boost::variant2::visit", "boost::gil::apply_operation"):
                continue
            if (c["callee"].get("ret") or c.get("type") or "void").strip() == "void" or (c.get("type") or "").strip() == "void":
                continue
            anc = [a for a, _, _ in pth if a.get("k") not in TRANSPARENT]
            parent = anc[-1] if anc else None
            rep.count("obligations:D7")
            key = "D7:%s:result of %s" % (nm, short)
            if parent is not None and parent.get("k") in ("Compound", "If", "For", "While", "Do", "ForRange"):
                rets = [R.key(x.get("e")) for x, _ in R.find(f["body"], lambda x: x.get("k") == "Return")]
                rep.violation("D7-result-kept", key, R.fn_where(f), {"discarded": R.key(c)[:120], "returned instead": rets[:3],
                                                                    "example": "a counting functor returned by for_each_pixel(any_image_view, f) is in its initial state, the one returned for the concrete view has counted every pixel"})
            else:
                rep.ok("D7-result-kept", key + f["full"][-8:], (parent or {}).get("k"))


def factories(rep, fns):
    rep.rule("D2 detail::X_view_fn::operator()(src) returns result_type{X_view(src, stored parameters...)}; the public overload visits with X_view_fn")
    want_args = {"flipped_up_down_view": "($0)", "flipped_left_right_view": "($0)", "rotated90cw_view": "($0)", "rotated90ccw_view": "($0)", "transposed_view": "($0)",
                 "rotated180_view": "($0)", "subimage_view": "($0,_topleft,_size2)", "subsampled_view": "($0,_step)", "nth_channel_view": "($0,_n)",
                 "color_converted_view": "($0,_cc)"}
    done = set()
    for f in fns:
        m = re.fullmatch(r"boost::gil::detail::(\w+_view)_fn::operator\(\)", f["name"])
        if not m:
            continue
        fac = m.group(1)
        target = "tranposed_view" if fac == "tranposed_view" else fac
        fac = "transposed_view" if fac == "tranposed_view" else fac
        rn = R.param_renamer(f)
        cs = [(c["callee"]["name"].split("::")[-1], rn("(" + ",".join(R.key(a) for a in c["args"]) + ")")) for c, p in R.find(f["body"], lambda x: x.get("k") == "Call" and x["callee"]["name"].startswith("boost::gil::") and x["callee"]["name"].split("::")[-1].endswith("_view"))]
        rep.count("obligations:D2")
        rets = [R.strip(x["e"]) for x, _ in R.find(f["body"], lambda x: x.get("k") == "Return")]
        ok = len(cs) == 1 and cs[0][0] == fac and len(rets) == 1
        if ok and fac in want_args:
            got = cs[0][1]
            w = want_args[fac]
            ok = got == w or same_arity_members(got, w)
            if ok and got != "($0)":
                ok = ctor_order(fns, f, got)
        key = "D2:%s_fn" % fac
        if ok:
            rep.ok("D2-factory", key + ":" + f["full"][-14:], cs)
        else:
            rep.violation("D2-factory", key, R.fn_where(f), {"calls": cs, "expected": fac + want_args.get(fac, "($0)")})
    for f in fns:
        short = f["name"].split("::")[-1]
        if f["name"] == "boost::gil::" + short and short in FACTORIES and f["params"] and is_any(f["params"][0]["type"]):
            visits = R.calls_in(f["body"], lambda n: n == "boost::variant2::visit")
            rep.count("obligations:D2")
            rn = R.param_renamer(f)
            key = "D2:%s(any_image_view%s)" % (short, ",...".ljust(0) if len(f["params"]) == 1 else ",%d args" % (len(f["params"]) - 1))
            ok = len(visits) == 1
            if ok:
                a = [rn(R.key(x)) for x in visits[0][0]["args"]]
                fnname = short + "_fn"
                ok = (fnname in a[0] or (short == "transposed_view" and "tranposed_view_fn" in a[0])) and a[1:] == ["$0"]
                # the functor receives the overload's parameters in declaration order, each once (the static overloads'
                # meaning of (x_min, y_min, width, height), (x_step, y_step), ... is positional)
                ok = ok and params_in_order(a[0], len(f["params"]) - 1)
                det = a
            else:
                deleg = [rn(R.key(c)) for c, p in R.calls_in(f["body"], lambda n: n == "boost::gil::" + short)]
                ok = len(deleg) == 1 and deleg[0].startswith(short + "($0,") and params_in_order(deleg[0], len(f["params"]) - 1)
                det = deleg
            if ok:
                rep.ok("D2-visit", key + ":" + str(len(f["params"])), [str(x)[:120] for x in det])
            else:
                rep.violation("D2-visit", key, R.fn_where(f), {"calls": [str(x)[:160] for x in det]})


def ctor_order(fns, opf, got):
    """the k-th stored parameter passed by operator() is the member the constructor initialises from its k-th parameter"""
    members = got.strip("()").split(",")[1:]
    ctors = [c for c in fns if c.get("cls") == opf.get("cls") and c["name"].split("::")[-1] == c["name"].split("::")[-2] and len(c["params"]) == len(members)]
    if not ctors:
        return False
    c = ctors[0]
    rn = R.param_renamer(c)
    inits = {i.get("member"): rn(R.key(i["init"])) for i in c.get("inits", []) if i.get("member")}
    return all(inits.get(m) == "$%d" % k for k, m in enumerate(members))


def params_in_order(expr, n):
    """the placeholders $1..$n occur in expr exactly once each, in increasing order"""
    return re.findall(r"\$(\d+)", expr) == [str(i) for i in range(1, n + 1)]


def same_arity_members(got, want):
    """($0,<member>,<member>) with the expected number of stored parameters, all of them data members (names start with _)"""
    g = got.strip("()").split(",")
    w = want.strip("()").split(",")
    return len(g) == len(w) and g[0] == "$0" and all(re.fullmatch(r"_\w+|\w+_", x) for x in g[1:])


def anyimage(rep, fns):
    rep.rule("D4 any_image::recreate visits recreate_image_fnobj and does not assign the variant; dimensions/num_channels/width/height forward through visit")
    seen = set()
    for f in fns:
        if not f["name"].startswith("boost::gil::any_image::") and not f["name"].startswith("boost::gil::any_image_view::"):
            continue
        short = f["name"].split("::")[-1]
        cls = f["name"].split("::")[-2]
        if short in ("recreate",) and (cls, short, len(f["params"])) not in seen:
            seen.add((cls, short, len(f["params"])))
            rep.count("obligations:D4")
            visits = R.calls_in(f["body"], lambda n: n == "boost::variant2::visit")
            assigns = R.find(f["body"], lambda x: x.get("k") in ("Assign",) or (x.get("k") == "Call" and x.get("op") == "=" and R.key(x["args"][0]) in ("(*this)", "this")))
            deleg = R.calls_in(f["body"], lambda n: n.endswith("any_image::recreate"))
            ok = (len(visits) == 1 and "recreate_image_fnobj" in R.key(visits[0][0]["args"][0]) and R.key(visits[0][0]["args"][1]) in ("(*this)", "this")) or len(deleg) == 1
            if ok and not assigns:
                rep.ok("D4-recreate", "%s::recreate/%d" % (cls, len(f["params"])), "visits recreate_image_fnobj")
            else:
                rep.violation("D4-recreate", "D4:%s::recreate/%d" % (cls, len(f["params"])), R.fn_where(f), {"visits": [R.key(v[0])[:120] for v in visits], "assignments": len(assigns)})
        if short in ("dimensions", "num_channels", "size") and (cls, short) not in seen:
            seen.add((cls, short))
            rep.count("obligations:D4")
            visits = R.calls_in(f["body"], lambda n: n == "boost::variant2::visit")
            fn = R.key(visits[0][0]["args"][0]) if visits else ""
            want = {"dimensions": "any_type_get_dimensions", "num_channels": "any_type_get_num_channels", "size": "any_type_get_size"}[short]
            ok = len(visits) == 1 and want in fn and R.key(visits[0][0]["args"][1]) in ("(*this)", "this")
            if ok:
                rep.ok("D4-forward", "%s::%s" % (cls, short), fn[:80])
            else:
                rep.violation("D4-forward", "D4:%s::%s" % (cls, short), R.fn_where(f), {"visit": fn[:160]})
    rep.floor("obligations:D4", 4)


def stored_parameters(rep, fns):
    """D5: the dynamic operations carry their extra arguments (dimensions, alignment, coordinates, steps, converters, values) to the held alternative inside a function
    object. A member that the constructor stores and operator() never reads is an argument the static operation does not get."""
    rep.rule("D5 every data member that a constructor of a detail:: function object of the dynamic_image extension initialises from its parameters is read by the object's "
             "operator() (any instantiation): any_image::recreate(dims, alignment) must reach image::recreate(dims, alignment), X_view(any_view, args...) must reach X_view(view, args...)")
    classes = {}
    for f in fns:
        parts = f["name"].split("::")
        if len(parts) < 4 or parts[2] != "detail":
            continue
        cls = "::".join(parts[:-1])
        c = classes.setdefault(cls, {"stored": {}, "read": set(), "ops": 0, "where": None})
        if parts[-1] == parts[-2]:            # constructor
            for i in f.get("inits", []):
                if i.get("member") and i.get("init") is not None and R.find(i["init"], lambda x: x.get("k") == "DeclRef" and x.get("dk") == "ParmVar"):
                    c["stored"][i["member"]] = f
        elif parts[-1] == "operator()" and f.get("body") is not None:
            c["ops"] += 1
            c["where"] = c["where"] or f
            for m, _ in R.find(f["body"], lambda x: x.get("k") == "Member" and x.get("dk") == "Field"):
                c["read"].add(m.get("name"))
    for cls, c in sorted(classes.items()):
        if not c["stored"] or not c["ops"]:
            continue
        rep.count("obligations:D5")
        short = cls.replace("boost::gil::", "")
        unused = sorted(m for m in c["stored"] if m not in c["read"])
        if unused:
            rep.violation("D5-stored-parameter", "D5:%s" % short, R.fn_where(c["where"]), {"stored but never read by operator()": unused,
                          "example": "any_image::recreate(dims, 8) on an rgb8 image of width 5: row pitch 15 instead of 16 when detail::recreate_image_fnobj drops _alignment"})
        else:
            rep.ok("D5-stored-parameter", "D5:%s" % short, sorted(c["stored"]))
    rep.floor("obligations:D5", 6)


def forwarded_defaults(rep, fns):
    """D6: any_image::recreate(dims[, alignment]) forwards to image::recreate(dims, alignment) of the held alternative. The argument the caller leaves out is filled in by the
    forwarding function's own default: it must be the default of the function it forwards to, or the same call means something else on the dynamic image."""
    rep.rule("D6 every overload of any_image::recreate has, for the parameters it shares with the overload of image::recreate of the same leading parameter types, the same default "
             "argument values (image::recreate(3,2) on an image that already is 3x2 with alignment 0 is a no-op; with any_image's default of 1 the pixels were cleared)")
    def sig(f):
        out = []
        for p_ in f["params"]:
            if p_.get("default") is not None:
                break
            out.append("point" if "point" in p_["type"] else "coord")
        return tuple(out)

    def defaults(f):
        d = {}
        for p_ in f["params"]:
            if p_.get("default") is not None:
                n = p_["default"]
                v = None
                while isinstance(n, dict):
                    if "const" in n:
                        v = str(n["const"])
                        break
                    n = n.get("e") if n.get("k") in ("ImplicitCast", "ExplicitCast", "Paren", "DefaultArg") else None
                d[p_["name"]] = v if v is not None else R.key(p_["default"])[:40]
        return d
    stat = {}
    for f in fns:
        if f["name"] == "boost::gil::image::recreate" and defaults(f):
            stat.setdefault(sig(f), defaults(f))
    seen = set()
    for f in fns:
        if f["name"] != "boost::gil::any_image::recreate" or sig(f) in seen:
            continue
        seen.add(sig(f))
        rep.count("obligations:D6")
        dd = defaults(f)
        key = "D6:any_image::recreate(%s)" % ",".join(sig(f))
        want = stat.get(sig(f))
        if want is None and stat:
            # the (width, height) overload forwards to image::recreate(point, alignment) as well: parameters are matched by name across the static overloads
            want = {}
            for w_ in stat.values():
                for n_, v_ in w_.items():
                    want.setdefault(n_, v_)
        if want is None:
            rep.incon("D6-forwarded-default", key, {"why": "no image::recreate overload with the same leading parameters and a default argument in the dump", "found": sorted(stat)})
            continue
        diff = {n: (dd[n], want[n]) for n in dd if n in want and dd[n] != want[n]}
        if diff:
            rep.violation("D6-forwarded-default", key, R.fn_where(f), {"default here / in image::recreate": diff,
                          "example": "any_image a(rgb8_image_t(3,2) filled with (1,2,3)); a.recreate(3,2): the pixels are 0 0 0, the same call on the image itself leaves them alone"})
        else:
            rep.ok("D6-forwarded-default", key, dd)
    rep.floor("obligations:D6", 2)
