// run-length data that runs past the end of the decode buffer must be reported as an error, not written
#include <boost/gil.hpp>
#include <boost/gil/extension/io/targa.hpp>
#include <boost/gil/extension/io/bmp.hpp>
#include <sstream>
#include <iostream>
using namespace boost::gil;
static void u16(std::string& s, unsigned v){ s += (char)(v & 255); s += (char)(v >> 8); }
static void u32(std::string& s, unsigned v){ u16(s, v & 0xFFFF); u16(s, v >> 16); }
int main(int argc, char** argv){
  int mode = atoi(argv[1]);
  std::string s;
  if (mode == 0) {           // TARGA, 2x2 rgb, RLE: one run packet of 128 pixels
    s.assign(18, '\0'); s[2] = 10; s[12] = 2; s[14] = 2; s[16] = 24; s += (char)0xFF; s += "abc";
  } else {                   // BMP, 3x1, RLE4: absolute run of 4 indices into a row of 3
    u16(s, 0x4D42); u32(s, 0); u32(s, 0); u32(s, 54 + 16*4);
    u32(s, 40); u32(s, 3); u32(s, 1); u16(s, 1); u16(s, 4); u32(s, 2 /*rle4*/); u32(s, 0); u32(s, 0); u32(s, 0); u32(s, 16); u32(s, 0);
    for (int i = 0; i < 16; ++i) u32(s, 0x00102030 + i);
    s += (char)0; s += (char)4; s += (char)0x12; s += (char)0x34;      // absolute mode, 4 indices
    s += (char)0; s += (char)1;                                          // end of bitmap
  }
  std::istringstream in(s, std::ios::binary);
  try { rgb8_image_t img; if (mode == 0) read_image(in, img, targa_tag()); else read_and_convert_image(in, img, bmp_tag());
        std::cout << "returned normally\n"; return 0; }
  catch (std::exception& e) { std::cout << "exception: " << e.what() << "\n"; return 0; }
}
