// C13 replay: a tiled tiff read with a region into a destination view that has the image's size writes the whole image (the routine is chosen by the view's size)
// g++ -std=c++14 -I/repo/include tiff_tiled_region_full_size_view.cpp -ltiff && ./a.out
#include <boost/gil.hpp>
#include <boost/gil/extension/io/tiff.hpp>
#include <cstdio>
using namespace boost::gil;
int main()
{
    gray8_image_t src(5, 4);
    for (int y = 0; y < 4; ++y) for (int x = 0; x < 5; ++x) view(src)(x, y) = gray8_pixel_t(10 + 10 * y + x);
    image_write_info<tiff_tag> wi; wi._is_tiled = true; wi._tile_width = 16; wi._tile_length = 16;
    write_view("/tmp/c13_tiled_region.tif", const_view(src), wi);
    gray8_image_t big(5, 4); fill_pixels(view(big), gray8_pixel_t(90));
    read_view("/tmp/c13_tiled_region.tif", view(big), image_read_settings<tiff_tag>(point_t(0, 0), point_t(4, 1)));
    int outside = 0;
    for (int y = 0; y < 4; ++y) for (int x = 0; x < 5; ++x) if (!(y == 0 && x < 4) && view(big)(x, y)[0] != 90) ++outside;
    std::printf("region 4x1 of a 5x4 tiled file into a 5x4 view: %d pixels outside the region were written (expected 0)\n", outside);
    std::remove("/tmp/c13_tiled_region.tif");
    return outside ? 1 : 0;
}
