// C19 replay: sub_histogram<D...>(low, high) over two or more axes compares the keys lexicographically
// g++ -std=c++14 -I/repo/include sub_histogram_range.cpp && ./a.out
#include <boost/gil.hpp>
#include <boost/gil/histogram.hpp>
#include <cstdio>
namespace gil = boost::gil;
int main()
{
    gil::histogram<int, int, int> h;
    h(2, 9, 1) = 1;
    auto s = h.sub_histogram<0, 1>(std::make_tuple(1, 1, 0), std::make_tuple(3, 3, 0));
    std::printf("bin (2,9,1), range [1,3]x[1,3] on axes 0,1: %zu bin(s) kept (expected 0: 9 is not in [1,3])\n", s.size());
    return s.size() == 0 ? 0 : 1;
}
