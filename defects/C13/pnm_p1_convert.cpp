// C13 / S4c: the P1 (ascii bitmap) reader filled its 8-bit source row with the maximum of the DESTINATION's channel type: a converting read into
// gray32f stored the byte 1 for white (converted: 0.0039 instead of 1.0), into gray8s the byte 127 ... read_image into gray8 gives 255 0 255.
// Build: g++ -std=c++14 -I /repo/include pnm_p1_convert.cpp && ./a.out
#include <boost/gil.hpp>
#include <boost/gil/extension/io/pnm.hpp>
#include <cstdio>
#include <sstream>
using namespace boost::gil;
int main()
{
    std::string file("P1\n3 1\n0 1 0\n");
    std::istringstream a(file), b(file);
    gray8_image_t n; read_image(a, n, pnm_tag());
    gray32f_image_t f; read_and_convert_image(b, f, pnm_tag());
    gray32f_pixel_t want; color_convert(view(n)(0, 0), want);
    std::printf("native %d %d %d; converted to gray32f: %g (expected %g)\n", (int)view(n)(0, 0)[0], (int)view(n)(1, 0)[0], (int)view(n)(2, 0)[0], (double)view(f)(0, 0)[0], (double)want[0]);
    return !(view(f)(0, 0)[0] == want[0]);
}
