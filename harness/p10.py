"""C10 image is a leak-free deep-value container: ownership/lifetime typestate over every member of image<>."""
import os, re
from . import common as C
from .ast import imgstate

LEVEL = "other"
EXPLANATION = ("Static analysis: a structured abstract interpreter (harness/ast/imgstate.py) runs every public member of "
               "image<> (all constructors, destructor, copy/move/converting assignment, swap, every recreate overload) on the "
               "instantiated AST, from every generic entry state (this and image-typed parameters empty or owning), through "
               "every branch and with an exceptional successor at every call that may throw (allocate, *_construct/fill/"
               "copy_pixels, copy_pixels, constructors of temporaries), descending into image's own helpers and running "
               "~image for temporaries. Configurations: interleaved/planar x {std::allocator, stateful propagating, stateful "
               "non-propagating possibly unequal} and a non-trivially-destructible element type. Obligations I1-I6 (leak, "
               "double free/dangling, recorded size, allocator identity, element lifetime, moved-from state) are checked at "
               "every deallocate, every overwrite of _memory and every normal and exceptional exit. Genuine defects that are "
               "not repaired are listed as known findings. Not decided: pixel values after copy; the roll-back loops inside "
               "algorithm.hpp are axioms (construct: raw->constructed or throw leaving raw).")

ROOTS = ("image", "~image", "operator=", "swap", "recreate")


def run(rep):
    C.need_tools(C.ASTDUMP)
    wd = C.workdir("C10")
    src = os.path.join(C.DRIVERS, "c10_driver.cpp")
    # the members are analysed as instantiated under both language levels: image::swap exchanges the allocators unconditionally before C++17
    # and only for propagate_on_container_swap allocators from C++17 on (`if constexpr`), which changes what every copy-and-swap member does
    stds = [os.environ["VERIF_C10_STD"]] if os.environ.get("VERIF_C10_STD") else ["c++14", "c++17"]
    per_std = []
    for sd in stds:
        d = C.astdump(src, os.path.join(wd, "c10_%s.json" % sd.replace("+", "p")), ["^boost::gil::image::"], std=sd)
        if d.get("errors"):
            raise C.AnalysisBroken("c10 driver has compile errors (-std=%s)" % sd)
        rep.rule("I0 every public member of image<> instantiates (a) for a non-pixel Regular element type with std::allocator and with a stateful non-propagating allocator "
                 "(the class comment allows such elements), (b) for construction from flipped / subsampled / transposed views of both organisations and for a bit-aligned image; "
                 "uninstantiated member templates are not even compiled by the test suite")
        extra = []
        for part, macro, defs, example in (
                ("element configurations", "VERIF_C10_ELEM", [x for x in C.BASE_DEFS if x != "-DBOOST_GIL_USE_CONCEPT_CHECK"],
                 "image<E, false, A> a, b; a = std::move(b);  with a non-pixel element E and a stateful allocator A"),
                ("view constructions", "VERIF_C10_VIEWS", list(C.BASE_DEFS), "rgb8_planar_image_t b(flipped_left_right_view(view(a)));")):
            rep.obligations += 1
            try:
                de = C.astdump(src, os.path.join(wd, "c10_%s_%s.json" % (macro[-4:].lower(), sd.replace("+", "p"))), ["^boost::gil::image::"], std=sd, defs=defs + ["-D" + macro])
                rep.discharged += 1
                extra += [f for f in de["functions"] if "verif_elem" in (f.get("cls") or "") or "bit_aligned" in (f.get("cls") or "")]
                rep.count("part:" + part)
            except C.AnalysisBroken as e:
                m = re.search(r"'file': '[^']*?(include/boost/gil/[^']*)', 'line': (\d+), 'msg': (.*)\}$", str(e), re.S)
                if not m:
                    raise
                if not any(v["key"] == "I0:%s:%s" % (part, m.group(1)) for v in rep.violations):
                    rep.violations.append({"rule": "I0-instantiates", "key": "I0:%s:%s" % (part, m.group(1)), "where": "%s:%s" % (m.group(1), m.group(2)),
                                           "detail": {"std": sd, "error": m.group(3)[:600], "example": example}})
        fns = d["functions"] + extra
        per_std.append((sd, fns))
        rep.units.append("drivers/c10_driver.cpp -std=%s (%d instantiated image members)" % (sd, len(fns)))
    rep.trusted += ["clang 14 front end (template instantiation, overload resolution)", "axioms: allocate -> owned or throws; deallocate frees; "
                    "default_construct/uninitialized_fill/uninitialized_copy_pixels: raw -> constructed or throw leaving raw; destruct_pixels: constructed -> raw; "
                    "view assignment, boost::exchange and std::swap of scalars do not throw"]
    rep.rule("I1 no leak / I2 no double free or dangling view / I3 recorded size / I4 allocator identity / I5 element lifetime / I6 moved-from empty, "
             "at every deallocate, overwrite of _memory and every normal or exceptional exit of every public member")
    seen = set()
    viols = {}

    def report(rule, root, construct, detail):
        cfgname = cfg
        key = pixel_param("%s:%s" % (root, construct_key(construct)))     # the element type as the member's signature spells it
        v = viols.setdefault((rule, key), {"where": root, "detail": construct, "path": detail, "count": 0, "configs": set()})
        v["count"] += 1
        v["configs"].add(cfgname)
    total_paths = 0
    for sd, fns, cls, members in [(sd, fns, cls, members) for sd, fns in per_std for cls, members in sorted(group_by_cls(fns).items(), key=lambda kv: str(kv[0]))]:
        if cls is None:
            continue
        cfg = config_name(cls) + ("" if sd == "c++14" else "/" + sd)
        always_equal = "std::allocator" in cls or "salloc" not in cls
        it = imgstate.Interp(fns, always_equal, report)
        for f in members:
            short = f["name"].split("::")[-1]
            if short not in ROOTS:
                continue
            rep.count("members")
            rep.count("config:" + cfg)
            try:
                n = it.run_member(f, cls)
            except imgstate.Broken as e:
                rep.fail_analysis("%s [%s]: %s" % (imgstate.fkey(f), cfg, e))
                continue
            total_paths += n
            rep.obligations += 1
            had = [k for k, v in viols.items() if k[1].startswith(pixel_param(imgstate.fkey(f)) + ":") and cfg in v["configs"]]
            if not had:
                rep.discharged += 1
                if len(rep.samples) < 12:
                    rep.samples.append({"member": imgstate.fkey(f), "config": cfg, "paths": n, "result": "I1-I6 hold on all paths"})
        if it.unknown_calls:
            rep.notes.append("calls treated as neutral in %s: %s" % (cfg, sorted(it.unknown_calls)[:12]))
    rep.analysed["paths"] = total_paths
    for (rule, key), v in sorted(viols.items()):
        rep.obligations += 0
        rep.violations.append({"rule": rule, "key": key, "where": "include/boost/gil/image.hpp " + v["where"], "detail": {"problem": v["detail"], "example_path": v["path"][-600:], "paths": v["count"], "configurations": sorted(v["configs"])}})
    rollback_rules(rep)
    view_established(rep, per_std[0][1])
    recreate_commit_order(rep, per_std[0][1])
    raw_construction(rep, wd, src)
    rep.floor("members", 100 * len(stds))
    rep.floor("config:interleaved/sticky", 20)
    if not any(v["rule"] == "I0-instantiates" for v in rep.violations):
        rep.floor("config:interleaved/sticky/elem", 20)
    if "c++17" in stds:
        rep.floor("config:interleaved/sticky/c++17", 20)


def pixel_param(k):
    """spell the element type of a member signature as the template does (`const Pixel &`), whatever the configuration instantiates it with"""
    k = k.replace("const verif_elem &", "const Pixel &")
    while True:
        i = k.find("const bit_aligned_pixel_reference<")
        if i < 0:
            return k
        j = k.index("<", i)
        depth = 0
        for n in range(j, len(k)):
            depth += k[n] == "<"
            depth -= k[n] == ">"
            if depth == 0:
                break
        rest = k[n + 1:]
        k = k[:i] + "const Pixel" + rest


def group_by_cls(fns):
    by_cls = {}
    for f in fns:
        by_cls.setdefault(f.get("cls"), []).append(f)
    return by_cls


def config_name(cls):
    if "bit_aligned_pixel_reference" in cls:
        return "bit-aligned/std"
    planar = "planar" if re.search(r", true(,|>)", cls) else "interleaved"
    if "salloc<unsigned char, true" in cls:
        a = "propagating"
    elif "salloc<unsigned char, false, false, true>" in cls:
        a = "sticky+pocca"
    elif "salloc<unsigned char, false" in cls:
        a = "sticky"
    else:
        a = "std"
    if "verif_elem" in cls:
        a += "/elem"
    return planar + "/" + a


def construct_key(c):
    c = re.sub(r"\bk\d+\b", "k", c)
    c = re.sub(r"@\d+", "", c)
    c = re.sub(r"line \d+", "line", c)
    c = re.sub(r"#\d+", "", c)
    return c


def rollback_rules(rep):
    """I7: the roll-back loops of the uninitialized_* / default_construct algorithms (instantiated with trivial elements: the
    catch blocks are part of the instantiated AST all the same)"""
    import re
    from .ast import rules as R
    rep.rule("I7 every try/catch of uninitialized_fill_pixels, uninitialized_copy_pixels, default_construct_pixels(_impl) and their planar helpers: "
             "the try block constructs unit k for k = 0,1,.. with a counter declared before the try; the handler destroys exactly the units "
             "0 <= k0 < k (loop from 0, condition `< counter`, increment) of the same destination and rethrows")
    wd = C.workdir("C10rb")
    d = C.astdump(os.path.join(C.DRIVERS, "c10_driver.cpp"), os.path.join(wd, "rb.json"),
                  ['^boost::gil::(uninitialized_fill_pixels|uninitialized_copy_pixels|default_construct_pixels)$',
                   '^boost::gil::detail::(uninitialized_fill_aux|uninitialized_copy_aux|default_construct_aux|default_construct_pixels_impl)$'])
    if d.get("errors"):
        raise C.AnalysisBroken("drivers/c10_driver.cpp has compile errors")
    seen = {}
    for f in d["functions"]:
        for t, _ in R.find(f["body"], lambda x: x.get("k") == "Try"):
            fname = f["name"].split("::")[-1]
            key = "I7:%s" % fname
            where = "%s:%s" % (C.repo_rel(f["file"]), t.get("line"))
            # counter: the variable of the try block's loop (for: cond `v < N`; while: cond `v < N`)
            loops = [x for x, _ in R.find(t["block"], lambda x: x.get("k") in ("For", "While"))]
            hs = t.get("handlers", [])
            prob = None
            if len(loops) != 1 or len(hs) != 1 or not hs[0].get("all"):
                prob = "unrecognised try shape (%d loops, %d handlers)" % (len(loops), len(hs))
            else:
                c = R.strip(loops[0]["cond"])
                counter = R.key(c["l"]) if c.get("k") == "Binary" and c.get("op") == "<" else None
                hb = R.strip(hs[0]["body"])
                items = [R.strip(x) for x in hb.get("c", [])] if hb.get("k") == "Compound" else [hb]
                rl = [x for x in items if x.get("k") == "For"]
                rethrow = bool(items) and items[-1].get("k") == "Throw" and items[-1].get("e") is None
                if counter is None:
                    prob = "loop condition of the try block is not `counter < bound`"
                elif len(rl) != 1:
                    prob = "handler has %d roll-back loops" % len(rl)
                elif not rethrow:
                    prob = "handler does not end in a rethrow"
                else:
                    r = rl[0]
                    init = R.strip(r.get("init"))
                    iv, i0 = None, None
                    if init is not None and init.get("k") == "Decl" and len(init["decls"]) == 1:
                        iv, i0 = init["decls"][0]["name"], R.key(init["decls"][0].get("init"))
                    rc = R.strip(r.get("cond"))
                    rk = (rc.get("op"), R.key(rc["l"]), R.key(rc["r"])) if rc is not None and rc.get("k") == "Binary" else None
                    inc = R.key(r.get("inc")) if r.get("inc") is not None else None
                    # the index set destroyed by the loop, as [lo, hi): ascending `for (iv = a; iv < b; ++iv)` or descending
                    # `for (iv = a; iv > b; --iv)`, with the unit index `iv` or `iv - 1`
                    body_keys = " ".join(R.key(x) for x, _ in R.find(r.get("body"), lambda x: x.get("k") == "Call"))
                    off = -1 if iv and re.search(r"\(%s - 1\)" % re.escape(iv), body_keys) else 0
                    rng = None
                    if iv is not None and rk is not None and rk[1] == iv:
                        if rk[0] == "<" and inc in ("(++%s)" % iv, "(%s++)" % iv):
                            rng = (i0 if off == 0 else "%s-1" % i0, rk[2] if off == 0 else "%s-1" % rk[2])
                        elif rk[0] == ">" and inc in ("(--%s)" % iv, "(%s--)" % iv):
                            lo = {"0": 1, "-1": 0}.get(rk[2])
                            if lo is not None:
                                rng = (str(lo + off), i0 if off == -1 else "%s+1" % i0)
                    ok_loop = rng == ("0", counter)
                    loop_unrecognised = rng is None
                    # destroyed unit = constructed unit with counter -> iv (destination arguments only)
                    ccall = [R.key(x) for x, _ in R.find(loops[0].get("body") if loops[0].get("k") == "For" else loops[0].get("body"), lambda x: x.get("k") == "Call")]
                    dcall = [R.key(x) for x, _ in R.find(r.get("body"), lambda x: x.get("k") == "Call" and "destruct" in x["callee"]["name"])]
                    units_c = set(re.findall(r"(\w+)\.row_(?:begin|end)\(%s\)" % re.escape(counter), " ".join(ccall))) | set(re.findall(r"dynamic_at_c\((\w+),%s\)" % re.escape(counter), " ".join(ccall)))
                    units_d = set(re.findall(r"(\w+)\.row_(?:begin|end)\(%s\)" % re.escape(iv or "?"), " ".join(dcall))) | set(re.findall(r"dynamic_at_c\((\w+),%s\)" % re.escape(iv or "?"), " ".join(dcall)))
                    # the destination is the last view / iterator pair named in the constructing call
                    first_d = re.search(r"(?:dynamic_at_c\((\w+),%s\)|(\w+)\.row_begin\(%s\))" % (re.escape(iv or "?"), re.escape(iv or "?")), " ".join(dcall))
                    begin_d = (first_d.group(1) or first_d.group(2)) if first_d else None
                    # the destroyed range starts at a destination the try block constructs into (its end may be recomputed in the handler)
                    ok_unit = begin_d is not None and begin_d in units_c
                    if loop_unrecognised:
                        prob = "unrecognised roll-back loop `for (%s = %s; %s; %s)`" % (iv, i0, " ".join(rk) if rk else "?", inc)
                    elif not ok_loop:
                        prob = "roll-back loop `for (%s = %s; %s; %s)` destroys the units [%s, %s), the try block constructed [0, %s)" % (iv, i0, " ".join(rk) if rk else "?", inc, rng[0], rng[1], counter)
                    elif not ok_unit:
                        prob = "roll-back destroys %s, the try block constructs %s" % (sorted(units_d), sorted(units_c))
            if key not in seen or (seen[key][0] is None and prob is not None):
                seen[key] = (prob, where)
    for key, (prob, where) in sorted(seen.items()):
        rep.count("obligations:I7")
        if prob is None:
            rep.ok("I7-rollback", key, "destroys units [0, counter)")
        elif prob.startswith("unrecognised"):
            rep.fail_analysis("%s: %s" % (key, prob))
        else:
            rep.violation("I7-rollback", key, where, {"problem": prob + ": after a throwing construction some constructed elements are not destroyed and some unconstructed ones are"})
    rep.floor("obligations:I7", 6)


def recreate_commit_order(rep, fns):
    """I10: the reallocating branch of recreate builds a temporary image and adopts it. The construction can throw (allocation, element constructors); the strong
    guarantee the other members give requires that nothing of *this was changed on the way there -- or that it is put back before the construction."""
    from .ast import rules as R
    rep.rule("I10 image::recreate (the four overloads with a body): on the path to the construction of the temporary image every data member of *this that was assigned "
             "before holds its entry value again (the last assignment before the construction restores a local that saved the member), so that a throwing construction leaves "
             "the image unchanged -- with the new alignment left behind, the same call repeated sees `same dimensions, same alignment` and returns without doing anything")
    seen = set()
    for f in fns:
        if f["name"] != "boost::gil::image::recreate" or f.get("body") is None:
            continue
        tmps = [(x, p) for x, p in R.find(f["body"], lambda x: x.get("k") == "Decl" and any(re.match(r"(boost::gil::)?image\b", (dd.get("type") or "")) for dd in x.get("decls", [])))]
        if not tmps:
            continue          # the forwarding overloads
        key = "I10:image::recreate(%s)" % ", ".join(pp.get("name") or "?" for pp in f["params"])
        if key in seen:
            continue
        seen.add(key)
        rep.count("obligations:I10")
        saved = {}
        for dn, _ in R.find(f["body"], lambda x: x.get("k") == "Decl"):
            for dd in dn.get("decls", []):
                ini = R.strip(dd.get("init"))
                while isinstance(ini, dict) and ini.get("k") in ("ImplicitCast", "Paren"):
                    ini = R.strip(ini.get("e"))
                if dd.get("id") and isinstance(ini, dict) and ini.get("k") == "Member" and R.key(ini).replace("this.", "").startswith("_"):
                    saved[dd["id"]] = R.key(ini).replace("this.", "")
        bad = []
        for t, tp in tmps:
            tline = t.get("line") or 0
            anc = [id(a) for a, _, _ in tp]
            last = {}
            for x, xp in R.find(f["body"], lambda x: x.get("k") == "Assign" and x.get("op") == "="):
                lhs = R.key(x["l"]).replace("this.", "")
                if not re.fullmatch(r"_\w+", lhs) or (x.get("line") or 0) >= tline:
                    continue
                # on the path: every conditional / loop ancestor of the assignment is an ancestor of the temporary as well, in the same branch
                onpath = True
                for a, fld, _ in xp:
                    if a.get("k") in ("If", "For", "While", "Do", "Switch") and id(a) not in anc:
                        onpath = False
                    if a.get("k") == "If" and id(a) in anc:
                        fld_t = [ff for aa, ff, _ in tp if aa is a]
                        if fld_t and fld_t[0] != fld:
                            onpath = False
                if onpath:
                    rhs = R.strip(x["r"])
                    while isinstance(rhs, dict) and rhs.get("k") in ("ImplicitCast", "Paren"):
                        rhs = R.strip(rhs.get("e"))
                    restored = isinstance(rhs, dict) and rhs.get("k") == "DeclRef" and saved.get(rhs.get("id")) == lhs
                    last[lhs] = (restored, R.key(x), x.get("line"))
            for m, (restored, k, ln) in sorted(last.items()):
                if not restored:
                    bad.append({"member": m, "last assignment before the construction": k, "line": ln})
        if bad:
            rep.violation("I10-recreate-commit", key, R.fn_where(f), {"changed before the throwing construction": bad,
                          "example": "image(3,3) with an allocator whose next allocate() throws: recreate(3,3,16) throws and leaves _align_in_bytes == 16; the retry recreate(3,3,16) returns at once, rows are still unaligned"})
        else:
            rep.ok("I10-recreate-commit", key, "no member differs from its entry value when the temporary image is constructed")
    rep.floor("obligations:I10", 4)


def view_established(rep, fns):
    """I8: the dimensions of an image are those of _view. allocate_ (both organisations) is what every constructor and every reallocating recreate goes through:
    it must give _view the requested dimensions on every path that returns normally -- also when no byte has to be allocated (0 x h, w x 0), otherwise
    image(0,3) is 0x0 while recreate(0,3) is 0x3, and copying the latter runs uninitialized_copy_pixels on views of different dimensions."""
    from .ast import rules as R
    rep.rule("I8 image::allocate_(dims, organisation): every normal exit is preceded by the assignment _view = view_t(dims, ...) "
             "(no return before it, not nested under a condition); an image without bytes still has the dimensions it was given")
    seen = set()
    for f in fns:
        if not f["name"].endswith("image::allocate_"):
            continue
        org = "planar" if re.search(r", true(,|>)", f.get("cls") or "") else "interleaved"
        if org in seen:
            continue
        seen.add(org)
        rep.count("obligations:I8")
        rep.obligations += 1
        g = R.canonize(f)
        top = g["body"].get("c") or g["body"].get("stmts") or []
        idx = None
        for i, st in enumerate(top):
            if R.find(st, lambda x: (x.get("k") == "Assign" or (x.get("k") == "Call" and x.get("op") == "=")) and R.key(x.get("l") or x["args"][0]) in ("_view", "this._view")):
                if st.get("k") in ("If", "For", "While", "Switch"):
                    continue            # conditional: does not establish the view on every path
                idx = i
                break
        early = [] if idx is None else [r for st in top[:idx] for r, _ in R.find(st, lambda x: x.get("k") == "Return")]
        dims_ok = idx is not None and "$0" in R.key(top[idx])
        key = "I8:image::allocate_:%s" % org
        if idx is not None and not early and dims_ok:
            rep.discharged += 1
            rep.samples.append({"member": "allocate_ (%s)" % org, "result": "_view assigned from the dimensions parameter on every normal path"}) if len(rep.samples) < 16 else None
        else:
            rep.violations.append({"rule": "I8-view-established", "key": key, "where": R.fn_where(f),
                                   "detail": {"unconditional _view assignment": idx is not None, "returns before it": ["line %s" % r.get("line") for r in early],
                                              "example": "rgb8_image_t a(0, 3): a.height() == 0; b.recreate(0, 3); rgb8_image_t c(b) asserts view1.dimensions() == view2.dimensions()"}})
    rep.floor("obligations:I8", 2)


def innermost_iterator(t):
    """strip GIL's iterator adaptors: what the adaptor's operator* finally dereferences"""
    t = t.strip()
    for _ in range(6):
        m = re.match(r"(?:const )?boost::gil::(memory_based_step_iterator|dereference_iterator_adaptor|iterator_from_2d|detail::step_iterator_adaptor)<(.*)>$", t)
        if not m:
            break
        inner = m.group(2)
        depth = 0
        for n, ch in enumerate(inner):          # first template argument
            depth += ch == "<"
            depth -= ch == ">"
            if ch == "," and depth == 0:
                inner = inner[:n]
                break
        t = inner.strip()
    return t


def raw_construction(rep, wd, src):
    """I9: the standard uninitialized algorithms construct with placement new at std::addressof(*it). That stores a pixel only if *it is an lvalue of the
    pixel: for an iterator that hands out a proxy object (bit_aligned_pixel_iterator, planar_pixel_iterator) the placement new builds a copy of the proxy on top of
    the temporary and nothing reaches the image -- bit-aligned image(w,h,fill) stayed unwritten."""
    from .ast import rules as R
    rep.rule("I9 every call GIL makes to libstdc++'s std::uninitialized_fill / std::uninitialized_copy (callee defined outside boost/gil, i.e. the placement-new one) has a destination "
             "iterator that is a pointer after stripping GIL's iterator adaptors; proxy iterators must be routed to an overload GIL provides (std::copy / std::fill through the proxy)")
    d = C.astdump(src, os.path.join(wd, "c10_raw.json"), ["^boost::gil::detail::uninitialized_(fill|copy)_aux$"], defs=list(C.BASE_DEFS) + ["-DVERIF_C10_VIEWS"])
    seen = {}
    for f in d["functions"]:
        for x, _ in R.find(f["body"], lambda x: x.get("k") == "Call" and re.fullmatch(r"std::uninitialized_(fill|copy)(_n)?", (x.get("callee") or {}).get("name") or "")):
            cal = x["callee"]
            dst = cal["ptypes"][0] if "fill" in cal["name"] else cal["ptypes"][2]
            own = "include/boost/gil/" in (cal.get("file") or "")
            inner = innermost_iterator(dst)
            kind = "pointer" if inner.endswith("*") else ("proxy" if re.match(r"(const )?boost::gil::(bit_aligned_pixel_iterator|planar_pixel_iterator)<", inner) else "unknown")
            k = (cal["name"], own, kind, re.sub(r"<.*", "", inner))
            if k in seen:
                continue
            seen[k] = (f, dst)
    for (name, own, kind, head), (f, dst) in sorted(seen.items(), key=lambda kv: str(kv[0])):
        rep.count("obligations:I9")
        rep.obligations += 1
        key = "I9:%s:%s" % (name, head if kind != "pointer" else "pointer")
        if own or kind == "pointer":
            rep.discharged += 1
        elif kind == "proxy":
            rep.violations.append({"rule": "I9-raw-construction", "key": key, "where": R.fn_where(f),
                                   "detail": {"callee": name + " (libstdc++, placement new at addressof(*it))", "destination iterator": dst[:300],
                                              "example": "bit_aligned_image3_type<1,2,3,rgb_layout_t>::type g(3, 1, fill): every pixel of g is whatever the allocator returned, not fill"}})
        else:
            rep.incon("I9-raw-construction", key, {"where": R.fn_where(f), "destination iterator": dst[:300], "why": "not a pointer and not a known proxy iterator"})
    rep.floor("obligations:I9", 3)
