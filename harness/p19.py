"""C19 histograms: the structural clauses (who is counted, once, under which condition; how totals are formed).
Contents of the hash map are not modelled: conservation of mass follows from these clauses given the semantics of
std::unordered_map (trusted), it is not computed."""
import os, re, itertools
from . import common as C
from .ast import rules as R

LEVEL = "other"
EXPLANATION = ("Structural rules over the instantiated AST of histogram.hpp (drivers/c19_driver.cpp: 1-D and 3-D histograms over gray8/rgb8 views): "
               "(H1) histogram::fill visits every (x,y) of the view once, skips a pixel exactly when applymask && !mask[y][x], divides every channel of the "
               "pixel by bin_width, builds the key from the scaled pixel and increments that one bin exactly when !setlimits || (lower <= key && key <= upper) "
               "-- conditions are compared as boolean functions (truth tables), not as text; (H1b) tuple_compare is the conjunction of the component-wise <=; "
               "(H2) fill_histogram clears iff !accumulate, pre-fills iff !sparsefill, then forwards every argument to fill in order; (H3) cumulative_histogram "
               "assigns to every key the running sum over the sorted keys (1-D) resp. the sum over all keys that are component-wise <= (n-D); (H4) "
               "sub_histogram<Dims...>() adds every bin into the bin of its projected key; (H5) normalize divides every bin by the sum of all bins. "
               "Each is a necessary condition of the property; the equalities between bin contents and pixel counts themselves are not computed.")
W = "include/boost/gil/histogram.hpp"


def split_args(t):
    """top-level template arguments of a comma separated list (stops at the closing bracket of the list)"""
    out, depth, cur = [], 0, ""
    for ch in t:
        if ch in "<(":
            depth += 1
        elif ch in ">)":
            if depth == 0:
                break
            depth -= 1
        if ch == "," and depth == 0:
            out.append(cur.strip()); cur = ""
        else:
            cur += ch
    if cur.strip():
        out.append(cur.strip())
    return out


def formula(n, atoms):
    """boolean AST -> python lambda over an assignment dict; atoms collected by canonical key"""
    n = R.strip(n)
    while n is not None and n.get("k") == "Paren":
        n = R.strip(n["e"])
    k = n.get("k")
    if k == "Binary" and n.get("op") in ("&&", "||", "&", "|"):
        a, b = formula(n["l"], atoms), formula(n["r"], atoms)
        return (lambda e: a(e) and b(e)) if n["op"] in ("&&", "&") else (lambda e: a(e) or b(e))
    if k == "Unary" and n.get("op") == "!":
        a = formula(n["e"], atoms)
        return lambda e: not a(e)
    key = R.key(n).replace(".operator bool()", "")
    atoms.add(key)
    return lambda e, key=key: e[key]


def same_function(cond, want, rename):
    """cond (AST) and want (python expression over named atoms) denote the same boolean function"""
    atoms = set()
    f = formula(cond, atoms)
    ren = {a: rename(a) for a in atoms}
    names = sorted(set(re.findall(r"[A-Za-z_]\w*", want)) - {"and", "or", "not"})
    if set(ren.values()) != set(names):
        return False, sorted(ren.values())
    for vals in itertools.product((False, True), repeat=len(names)):
        env = dict(zip(names, vals))
        got = f({a: env[ren[a]] for a in atoms})
        if bool(got) != bool(eval(want, {}, env)):
            return False, sorted(ren.values())
    return True, sorted(ren.values())


def loop_shape(lp):
    init = R.strip(lp.get("init"))
    iv = init["decls"][0]["name"] if init is not None and init.get("k") == "Decl" and init.get("decls") else None
    i0 = R.key(init["decls"][0].get("init")) if iv else None
    return iv, i0, R.key(lp.get("cond")), R.key(lp.get("inc"))


def is_std(t):
    return re.match(r"(const )?std::(vector|array|map)<", t or "") is not None


# ------------------------------------------------------------------------------------------------------------------
# All rules below work on R.canonize(f): parameters are $i, for-loop variables #k, range-for variables @k, lambda parameters
# &k, written locals %k, and every local that only names a value is replaced by that value.  Templates name the written
# locals {A}, {B}, ...: a template matches a key when the placeholders can be bound to %k names, consistently over all
# templates of one rule -- so renaming a local, or giving an intermediate value a name, changes nothing.
tmpl, bind, fill_in, effects, decls_of, loops_of, for_shape, counts_up = R.tmpl, R.bind, R.fill_in, R.effects, R.decls_of, R.loops_of, R.for_shape, R.counts_up


def enclosing_if(path):
    ifs = [a for a, fld, _ in path if a.get("k") == "If"]
    return ifs[-1] if ifs else None


_FLOAT_T = {"float", "double", "long double"}


def cast_chain(n):
    """the arithmetic types a value passes through between an integral leaf and the expression n: [type of the leaf, ..., type of n]; None when n is not a pure
    chain of conversions"""
    chain = []
    while isinstance(n, dict):
        k = n.get("k")
        if k == "Paren" or (k in ("ImplicitCast", "ExplicitCast") and n.get("cast") in ("NoOp", "LValueToRValue", "ConstructorConversion", "UserDefinedConversion")):
            n = n.get("e")
        elif k in ("ImplicitCast", "ExplicitCast") and n.get("cast") in ("IntegralCast", "IntegralToFloating", "FloatingToIntegral", "FloatingCast"):
            chain.append((R._cty(n.get("from_c")), R._cty(n.get("to_c"))))
            n = n.get("e")
        else:
            break
    if not chain:
        return None
    chain.reverse()
    if any(chain[i][1] != chain[i + 1][0] for i in range(len(chain) - 1)) or chain[0][0] not in R._TYRANGE:
        return None
    return [chain[0][0]] + [b for _, b in chain]


def _conv(v, t):
    if t in _FLOAT_T:
        return float(v)
    lo, hi = R._TYRANGE[t]
    if isinstance(v, float):
        v = int(v)
    return (v - lo) % (hi - lo + 1) + lo


def chain_witness(ch):
    """a value of the first type that the chain of conversions changes (compared with the direct conversion to the last type), or None"""
    if any(t not in R._TYRANGE and t not in _FLOAT_T for t in ch):
        return None
    lo, hi = R._TYRANGE[ch[0]]
    for v in (lo, -1, hi):
        if not lo <= v <= hi:
            continue
        w = v
        for t in ch[1:]:
            w = _conv(w, t)
        d = _conv(v, ch[-1])
        if w != d:
            return (v, w, d)
    return None


def std_filler(g, f, rep, where, calls_of):
    """H6: the three std-container overloads of fill_histogram (canonical form: $0 view, $1 container, $2 accumulate)"""
    cont = re.match(r"std::(\w+)<", f["params"][1]["type"]).group(1)
    key = "H6:fill_histogram(std::%s)%s" % (cont, re.sub(r"^std::\w+", "", f["params"][1]["type"]).replace(" &", ""))
    prob, unknown = [], []
    body = R.strip(g["body"])
    items = [R.strip(x) for x in body.get("c", [])]
    all_ifs = [x for x in items if x.get("k") == "If"]
    grow_ifs = [x for x in all_ifs if "$1.size()" in R.key(x["cond"]) and "$2" not in R.key(x["cond"])] if cont == "vector" else []
    ifs = [x for x in all_ifs if not any(x is y for y in grow_ifs)]
    nested = [x for x, _ in R.find(g["body"], lambda x: x.get("k") in ("If", "Cond", "Switch", "For", "While", "Do", "ForRange"))]
    if len(ifs) != 1 or len(nested) != 1 + len(grow_ifs) or len(grow_ifs) > 1:
        unknown.append("expected exactly one conditional (the reset)%s, found %d top-level / %d in all" % (" and at most one that grows the vector" if cont == "vector" else "", len(all_ifs), len(nested)))
    else:
        ok, at = same_function(ifs[0]["cond"], "not acc", lambda a: {"$2": "acc"}.get(a, a))
        if not ok or ifs[0].get("else") is not None:
            prob.append("reset condition over %s is not `!accumulate`" % at)
        resets = [R.key(c) for c, _ in R.find(ifs[0].get("then"), lambda y: y.get("k") == "Call") if not R.key(c).startswith(("begin(", "end(", "$1.begin(", "$1.end("))]
        want = (["fill(begin($1),end($1),0)"], ["fill($1.begin(),$1.end(),0)"], ["$1.fill(0)"]) if cont == "array" else (["$1.clear()"],)
        if resets not in want:
            prob.append("reset statement %s, expected %s" % (resets, want[0]))
    top_calls = [x for x in items if x.get("k") == "Call"]
    loops = [x for x in top_calls if x["callee"]["name"] == "boost::gil::for_each_pixel"]
    all_loops = [x for x, _ in R.calls_in(f["body"], lambda n: n.endswith("for_each_pixel"))]
    lam, chan = None, None
    if len(loops) != 1 or len(all_loops) != 1:
        unknown.append("expected one unconditional for_each_pixel, found %d" % len(all_loops))
    else:
        lk = R.key(loops[0])
        if lk != "for_each_pixel(color_converted_view($0),Lambda)":
            prob.append("pixel loop is %s" % lk)
        ccv = [c for c, _ in R.calls_in(loops[0], lambda n: n.endswith("color_converted_view"))]
        m = re.match(r"boost::gil::color_converted_view<boost::gil::pixel<([^,]+), boost::gil::layout<boost::mp11::mp_list<boost::gil::gray_color_t>", ccv[0]["callee"]["full"]) if ccv else None
        if not m:
            prob.append("the source is not converted to a gray pixel")
        chan = m.group(1) if m else None
        lam = [x for x, _ in R.find(loops[0], lambda x: x.get("k") == "Lambda")]
        lam = lam[0] if lam else None
    lims = {c["callee"]["cls"] for c, _ in R.calls_in(g["body"], lambda n: n == "std::numeric_limits::max")}
    if cont == "vector":
        # the vector has max+1 bins before the loop, and no bin that exists is dropped on the accumulate path: `resize(max+1)` alone shrinks a longer vector
        NB = ("(max() + 1)", "(1 + max())")
        rs = [x for x in top_calls if x["callee"]["name"] == "std::vector::resize"]
        grs = [c for gi in grow_ifs for c, _ in R.calls_in(gi.get("then"), lambda n: n == "std::vector::resize")]
        if len(rs) == 1 and not grs and R.key(rs[0]) in ["$1.resize(%s)" % b for b in NB]:
            if loops and items.index(rs[0]) > items.index(loops[0]):
                prob.append("the vector is sized after the pixel loop")
            else:
                prob.append("`histogram.resize(max+1)` is executed on the accumulate path as well and shrinks a vector that is longer: fill_histogram(gray16 view, v); "
                            "fill_histogram(gray8 view, v, true) drops the bins 256..65535 of the first image (the counts no longer add up)")
        elif len(grs) == 1 and not rs and len(grow_ifs) == 1 and grow_ifs[0].get("else") is None:
            gk, ck = R.key(grs[0]), R.key(grow_ifs[0]["cond"])
            mb = re.fullmatch(r"\$1\.resize\((.+)\)", gk)
            if not mb or mb.group(1) not in NB or ck not in ("($1.size() < %s)" % mb.group(1), "(%s > $1.size())" % mb.group(1)):
                prob.append("sizing statement `if %s %s`, expected `if (size() < max+1) resize(max+1)`" % (ck, gk))
            elif loops and items.index(grow_ifs[0]) > items.index(loops[0]):
                prob.append("the vector is sized after the pixel loop")
        else:
            prob.append("sizing statement %s, expected the vector to be grown to max()+1 bins before the loop" % [R.key(x) for x in rs + grs])
        if loops and lims != {"std::numeric_limits<%s>" % chan}:
            prob.append("the vector is sized from %s but indexed by %s" % (sorted(lims), chan))
    if lam is not None:
        eff = effects(lam["body"])
        conv = r"(?:&0\.operator [\w ]+\(\)|get_color\(&0,gray_color_t\{\}\)|at_c\(&0\)|semantic_at_c\(&0\)|&0\[0\])"
        if cont == "array":
            # the scale is either written in place or a local that is assigned once (the size of a std::array never changes)
            SC = r"\(\(\$1\.size\(\) - 1\) / max\(\)\)"
            pat = r"\(\+\+\$1\[\(%s \* (%s|%%\d+)\)\]\)" % (conv, SC)
            mm = re.fullmatch(pat, eff[0][0]) if len(eff) == 1 else None
            if mm and mm.group(1).startswith("%"):
                dv = decls_of(g["body"]).get(mm.group(1))
                if not g["canon_single"].get(mm.group(1)) or dv is None or not re.fullmatch(SC, R.key(dv)):
                    prob.append("scale %s = %s, expected (size-1)/max assigned once" % (mm.group(1), R.key(dv) if dv is not None else None))
            if loops and lims != {"std::numeric_limits<%s>" % chan}:
                prob.append("scale uses %s but the converted channel is %s" % (sorted(lims), chan))
        else:
            pat = r"\(\+\+\$1\[%s\]\)" % conv
        ks = [k for k, _, _ in eff]
        if len(ks) != 1 or not re.fullmatch(pat, ks[0]):
            prob.append("bin updates %s, expected a single ++bin[%s]" % (ks, "gray * (size-1)/max" if cont == "array" else "gray"))
        if [x for x, _ in R.find(lam["body"], lambda x: x.get("k") in ("If", "Cond", "Switch", "For", "While", "Do", "Return", "Continue"))]:
            prob.append("the increment is conditional")
        # H6b: the conversions between the gray channel and the container's key keep the value of every channel (a signed channel that goes through an
        # unsigned type and then into a wider or floating key does not come back)
        for c, _ in R.find(lam["body"], lambda x: x.get("k") == "Call" and x.get("op") == "[]"):
            idx = (c.get("args") or [None, None])[-1] if c.get("args") else None
            kids = [v for kk, v in c.items() if isinstance(v, dict) and kk not in ("callee",)] + [x for kk, v in c.items() if isinstance(v, list) for x in v if isinstance(x, dict)]
            for idx in kids:
                ch = cast_chain(idx)
                if ch is None or len(ch) < 3:
                    continue
                bad = chain_witness(ch)
                if bad:
                    prob.append("the bin index of a %s channel is converted %s: the value %d arrives as %s, converted directly it is %s" % (ch[0], " -> ".join(ch), bad[0], bad[1], bad[2]))
    if prob:
        rep.violation("H6-std-fill", key, where, {"problems": prob + unknown})
    elif unknown:
        rep.incon("H6-std-fill", key, {"unrecognised": unknown})
    else:
        rep.ok("H6-std-fill", key, "reset iff !accumulate; sized max+1 / scaled (size-1)/max; one ++bin[gray] per pixel of the whole view")


def std_cumulative(g, f, rep, where):
    """H7: running sums in index / key order"""
    cont = re.match(r"(?:const )?std::(\w+)<", f["params"][0]["type"]).group(1)
    key = "H7:cumulative_histogram(std::%s)%s" % (cont, re.sub(r"^(const )?std::\w+", "", f["params"][0]["type"]).replace(" &", ""))
    prob, unknown = [], []
    loops = loops_of(g["body"])
    ret = [R.key(x.get("e")) for x, _ in R.find(g["body"], lambda x: x.get("k") == "Return")]
    decl = {k: (R.key(v) if v is not None else None) for k, v in decls_of(g["body"]).items()}
    env = None
    if len(loops) != 1:
        unknown.append("%d loops" % len(loops))
    else:
        lp = loops[0]
        if cont == "map":
            if lp.get("k") != "ForRange" or R.key(lp.get("range")) != "$0":
                prob.append("the loop does not range over the histogram")
            src, dst = "@0.second", "{R}[@0.first]"
        else:
            n = re.search(r"std::array<[^,]+, (\d+)(UL)?>", f["params"][0]["type"])
            if lp.get("k") != "For" or not (counts_up(lp, "$0.size()") or (n and counts_up(lp, n.group(1)))):
                prob.append("index loop %s" % (for_shape(lp) if lp.get("k") == "For" else lp.get("k"),))
            src, dst = "$0[#0]", "{R}[#0]"
        eff = [k for k, x, p in effects(lp["body"])]
        env = bind(eff, ["({C} += %s)" % src, "(%s = {C})" % dst])
        if env is None or len(eff) != 2 or eff.index(fill_in("({C} += %s)" % src, env)) != 0:
            prob.append("loop body %s, expected running sum then store" % eff)
        if [x for x, _ in R.find(lp["body"], lambda x: x.get("k") in ("If", "Cond", "Switch", "Continue", "Break", "Return"))]:
            prob.append("conditional statement inside the running sum")
    if env:
        if decl.get(env["C"]) not in ("0", "0.0"):
            prob.append("counter starts at %s" % decl.get(env["C"]))
        if ret != [env["R"]]:
            prob.append("returns %s, the sums are stored in %s" % (ret, env["R"]))
    if prob:
        rep.violation("H7-std-cumulative", key, where, {"problems": prob + unknown})
    elif unknown:
        rep.incon("H7-std-cumulative", key, {"unrecognised": unknown})
    else:
        rep.ok("H7-std-cumulative", key, "counter from 0; every index/key in ascending order; add then store")


def run(rep):
    C.need_tools(C.ASTDUMP)
    wd = C.workdir("C19")
    d = C.astdump(os.path.join(C.DRIVERS, "c19_driver.cpp"), os.path.join(wd, "h.json"),
                  ['^boost::gil::histogram::(fill|normalize|sum|sub_histogram|key_from_pixel)$', '^boost::gil::(fill_histogram|cumulative_histogram)$',
                   '^boost::gil::detail::(tuple_compare|tuple_component_max|pixel_to_tuple|filler::operator\\(\\))$'])
    if d.get("errors"):
        raise C.AnalysisBroken("drivers/c19_driver.cpp has compile errors")
    fns = d["functions"]
    rep.units.append("drivers/c19_driver.cpp: %d instantiated histogram functions" % len(fns))
    rep.trusted += ["clang front end (instantiated AST)", "semantics of std::unordered_map, std::sort, std::for_each", "harness/ast/rules.py (canonical form: R.canonize)"]
    rep.rule("H1 histogram::fill: full loop nest; skip iff applymask && !mask[y][x]; every channel / bin_width; key from the scaled pixel; one increment of bin[key] iff !setlimits || (lower <= key && key <= upper)")
    rep.rule("H1b tuple_compare(t1,t2) == AND over i of get<i>(t1) <= get<i>(t2)")
    rep.rule("H2 fill_histogram: clear iff !accumulate; dense pre-fill iff !sparsefill; hist.fill(view, bin_width, applymask, mask, lower, upper, setlimits)")
    rep.rule("H2b dense pre-fill (detail::filler), which H2 shows to run on the accumulate path as well: creates bins, never overwrites or erases one")
    rep.rule("H3 cumulative_histogram: 1-D running sum over the sorted keys; n-D sum over all keys component-wise <= the key")
    rep.rule("H4 sub_histogram<Dims...>(): every bin is added into the bin of its projected key")
    rep.rule("H4b sub_histogram<Dims...>(low, high): the range test is component-wise (detail::tuple_compare), not std::tuple's lexicographic <= (which differs from it as soon as two axes are selected)")
    rep.rule("H5 normalize: every bin divided by the sum of all bins; sum(): sum of all bins")
    rep.rule("H8 histogram::fill on signed channels: the channel is not converted to an unsigned type before it is divided by bin_width")
    rep.rule("H9 histogram::fill: the pixel that is divided by bin_width is a value copy (the view's value_type), not a reference proxy (planar views): the source image is not modified")
    rep.rule("H6 std-container fill_histogram: container reset iff !accumulate; vector sized numeric_limits<gray channel>::max()+1 before the loop, array index scaled by (size-1)/max; exactly one unconditional ++bin[gray value] per pixel of the whole view")
    rep.rule("H7 std-container cumulative_histogram: counter from 0, one loop over every index (map: every key in order), add then store, result returned")
    rep.rule("all rules compare canonical forms (R.canonize): parameters by position, locals by role, named intermediate values inlined")
    rep.rule("H10 no accumulator of a histogram function truncates: in every instantiated fill / cumulative / normalize / sum / sub_histogram function a compound assignment "
             "x op= y that is computed in a floating-point type has a floating-point x (the bins are double: `auto counter = 0; counter += bin` drops the fraction of every "
             "normalised bin, the cumulative histogram of a normalised n-D histogram is 0 everywhere)")
    FLOATS = {"float", "double", "long double"}
    seen10 = set()
    for f in fns:
        k10 = "H10:%s%s" % (f["name"].replace("boost::gil::", ""), "<n-D>" if re.search(r"histogram<[^<>]*,[^<>]*>", f.get("full", "")) else "")
        if f.get("body") is None:
            continue
        bad = []
        nca = 0
        for x, _ in R.find(f["body"], lambda x: x.get("k") == "CompoundAssign" and x.get("comp_c") is not None):
            nca += 1
            if x["comp_c"].replace("const ", "") in FLOATS and x["lhs_c"].replace("const ", "") not in FLOATS and x.get("op") in ("+=", "-=", "*=", "/="):
                bad.append({"assignment": R.key(x)[:100], "computed in": x["comp_c"], "stored into": x["lhs_c"], "line": x.get("line")})
        if not nca or (k10 in seen10 and not bad):
            continue
        seen10.add(k10)
        rep.count("obligations:H10")
        if bad:
            rep.violation("H10-truncating-accumulator", k10, R.fn_where(f), {"truncating": bad, "example": "h.fill(rgb view); h.normalize(); cumulative_histogram(h): every bin 0 instead of a running total that ends at 1"})
        else:
            rep.ok("H10-truncating-accumulator", k10, "%d compound assignments, none truncates" % nca)
    rep.floor("obligations:H10", 3)
    helper_max = {}
    for f in fns:
        if f["name"] == "boost::gil::detail::tuple_component_max" and f.get("body") is not None:
            ks = [k for k, _, _ in effects(R.canonize(f)["body"])]
            A, B = "get($0)", "get($1)"
            forms = {"(%s = ((%s < %s) ? %s : %s))" % (A, A, B, B, A), "(%s = ((%s > %s) ? %s : %s))" % (A, B, A, B, A), "(%s = ((%s > %s) ? %s : %s))" % (A, A, B, A, B),
                     "(%s = ((%s < %s) ? %s : %s))" % (A, B, A, A, B), "(%s = max(%s,%s))" % (A, A, B), "(%s = max(%s,%s))" % (A, B, A)}
            okh = bool(ks) and all(k in forms for k in ks)
            helper_max = {"ok": okh and helper_max.get("ok", True), "eff": ks}
    for f in fns:
        nm = f["name"]
        short = nm.split("::")[-1]
        g = R.canonize(f)
        where = "%s:%s" % (("include/" + f["file"].split("/include/", 1)[1]) if "/include/" in f.get("file", "") else W, f["line"])
        # ---------------------------------------------------------------- H1
        if nm == "boost::gil::histogram::fill":
            rep.count("obligations:H1")
            key = "H1:histogram::fill:%s" % re.sub(r"boost::gil::", "", f["full"].split("::fill")[-1])[:60]
            prob, unknown = [], []
            loops = loops_of(g["body"])
            # an optional third loop inside the column loop may be the scaling step written channel by channel (decided below)
            scal_loop = None
            if len(loops) == 3 and all(l.get("k") == "For" for l in loops) and any(x is loops[2] for x, _ in R.find(loops[1]["body"], lambda x: x.get("k") == "For")):
                scal_loop = loops[2]
                loops = loops[:2]
            if len(loops) != 2 or any(l.get("k") != "For" for l in loops):
                unknown.append("expected a two-level for nest, found %d loops" % len(loops))
            else:
                if not counts_up(loops[0], "$0.height()"):
                    prob.append("row loop %s" % (for_shape(loops[0]),))
                if not counts_up(loops[1], "$0.width()"):
                    prob.append("column loop %s" % (for_shape(loops[1]),))
                yv, xv = for_shape(loops[0])[0], for_shape(loops[1])[0]
                eff = effects(loops[1]["body"])
                incs = [(k, x, p) for k, x, p in eff if "operator[](" in k and (k.endswith("++)") or k.startswith("(++") or " += 1)" in k)]
                env = None
                decl = {k: (R.key(v) if v is not None else None) for k, v in decls_of(g["body"]).items()}
                decl_line = {dd["name"]: (x.get("line") or 0) for x, _ in R.find(g["body"], lambda x: x.get("k") == "Decl") for dd in x["decls"] if dd.get("name")}
                keyexpr = None
                for k, x, p in incs:
                    m = re.fullmatch(r"\((?:\+\+)?(?:this\.)?operator\[\]\((.*?)\)(?:\+\+| \+= 1)?\)", k)
                    if not m:
                        continue
                    keyexpr = m.group(1)
                    kdef = decl.get(keyexpr) if re.fullmatch(r"%\d+", keyexpr) and g["canon_single"].get(keyexpr) else keyexpr
                    m2 = re.fullmatch(r"(?:this\.)?key_from_pixel\((%\d+)\)", kdef or "")
                    if m2:
                        env = {"P": m2.group(1)}
                if len(incs) != 1 or env is None:
                    prob.append("bin updates %s, expected one increment of bin[key_from_pixel(scaled pixel)]" % [k for k, _, _ in incs])
                else:
                    # (a conversion of the reference to the view's value_type may wrap it: pixel{ref, nullptr})
                    if not re.fullmatch(r"(?:\w+\{)?%s(?:,nullptr\})?" % re.escape("$0.row_begin(%s)[%s]" % (yv, xv)), decl.get(env["P"]) or ""):
                        prob.append("the counted pixel is %s, expected $0.row_begin(y)[x]" % decl.get(env["P"]))
                    KEY = re.escape(keyexpr)
                    ren = lambda a: "applymask" if a == "$2" else "m" if a == "$3[%s][%s]" % (yv, xv) else "setlimits" if a == "$6" else \
                        "lo" if re.fullmatch(r"tuple_compare\(\$4,%s\)" % KEY, a) else "hi" if re.fullmatch(r"tuple_compare\(%s,\$5\)" % KEY, a) else a
                    conts = [(x, p) for x, p in R.find(loops[1]["body"], lambda x: x.get("k") == "Continue")]
                    if len(conts) != 1:
                        unknown.append("%d continue statements" % len(conts))
                    else:
                        ifn = enclosing_if(conts[0][1])
                        ok, at = same_function(ifn["cond"], "applymask and not m", ren) if ifn else (False, [])
                        if not ok:
                            prob.append("skip condition over %s is not `applymask && !mask[y][x]`" % at)
                    scal = [k for k, x, p in eff if any(a.get("k") == "Lambda" for a, _, _ in p)]
                    sfe = [(R.key(c), c.get("line") or 0) for c, _ in R.calls_in(loops[1]["body"], lambda n: n.endswith("static_for_each"))]
                    # channels the key is built from: the Dimensions... of fill<>, all axes of the histogram when none are given
                    mh = re.match(r"boost::gil::histogram<(.*?)>::fill<", f["full"])
                    naxes = len(split_args(mh.group(1))) if mh else None
                    sel = []
                    for a in split_args(f["full"].split("::fill<", 1)[1]) if "::fill<" in f["full"] else []:
                        ma = re.fullmatch(r"(\d+)(?:UL|U|L)?", a.strip())
                        if not ma:
                            break
                        sel.append(int(ma.group(1)))
                    if not sel and naxes is not None:
                        sel = list(range(naxes))
                    if scal_loop is not None and not sfe:
                        # for (c = 0; c < B; ++c) P[c] = P[c] / bin_width: divides the first B channels in memory
                        cv, c0, ccond, cinc = for_shape(scal_loop)
                        mb = re.fullmatch(r"\(%s < (.*)\)" % re.escape(cv or "?"), ccond or "")
                        bexp = mb.group(1) if mb and c0 == "0" and cinc in ("(++%s)" % cv, "(%s++)" % cv, "(%s += 1)" % cv) else None
                        bound = naxes if bexp in ("dimension()", "this.dimension()") else int(bexp) if bexp and re.fullmatch(r"\d+", bexp) else None
                        if bound is None and bexp is not None:
                            # a compile-time constant spelled otherwise (num_channels<...>::value): the value clang's constant evaluator gives the right operand
                            cn = R.strip(scal_loop.get("cond"))
                            rn = cn.get("r") if isinstance(cn, dict) and cn.get("k") == "Binary" else None
                            while isinstance(rn, dict) and "const" not in rn and rn.get("k") in ("Paren", "ImplicitCast", "ExplicitCast"):
                                rn = rn.get("e")
                            if isinstance(rn, dict) and re.fullmatch(r"\d+", str(rn.get("const", ""))):
                                bound = int(rn["const"])
                        leff = [k for k, _, _ in effects(scal_loop["body"])]
                        Pc = "%s[%s]" % (env["P"], cv)
                        if leff not in (["(%s = (%s / $1))" % (Pc, Pc)], ["(%s /= $1)" % Pc]):
                            unknown.append("scaling loop body %s" % leff)
                        elif bound is None or naxes is None:
                            unknown.append("scaling loop bound %s" % ccond)
                        else:
                            missed = [c for c in sel if c >= bound]
                            if missed:
                                prob.append("the scaling loop divides channels 0..%d of the pixel by bin_width, the key is built from channels %s: channel(s) %s reach the key undivided "
                                            "(bin width 2, channel value 7: counted in bin 7 instead of bin 3)" % (bound - 1, sel, missed))
                        sfe = [(None, scal_loop.get("line") or 0)]
                    elif scal != ["(&0 = (&0 / $1))"] and scal != ["(&0 /= $1)"]:
                        prob.append("channel scaling %s" % scal)
                    if sfe and sfe[0][0] is None:
                        if keyexpr in decl_line and decl_line[keyexpr] <= sfe[0][1]:
                            prob.append("the key is built before the channels are divided by bin_width")
                    elif [k for k, _ in sfe] != ["static_for_each(%s,Lambda)" % env["P"]]:
                        prob.append("scaling applied to %s" % [k for k, _ in sfe])
                    elif keyexpr in decl_line and decl_line[keyexpr] <= sfe[0][1]:
                        prob.append("the key is built before the channels are divided by bin_width")
                    elif keyexpr not in decl_line and incs[0][1].get("line", 0) <= sfe[0][1]:
                        prob.append("the bin is incremented before the channels are divided by bin_width")
                    ifn = enclosing_if([q for q in incs[0][2] if True])
                    inner = [a for a, fld, _ in incs[0][2] if a.get("k") == "If"]
                    ifn = inner[-1] if inner else None
                    ok, at = same_function(ifn["cond"], "(not setlimits) or (lo and hi)", ren) if ifn is not None else (False, ["<unconditional>"])
                    if not ok:
                        prob.append("count condition over %s is not `!setlimits || (lower <= key && key <= upper)`" % at)
            if prob:
                rep.violation("H1-fill", key, where, {"problems": prob + unknown})
            elif unknown:
                rep.incon("H1-fill", key, {"unrecognised": unknown})
            else:
                rep.ok("H1-fill", key, "loop nest, mask, scaling, key, limits, single increment")
            # ------------------------------------------------------------ H8: the division keeps the sign of the channel
            m = re.search(r"(?:pixel<|planar_pixel_iterator<)((?:un)?signed char|char|(?:unsigned )?short|(?:unsigned )?int|(?:unsigned )?long|float|double)\b", f["full"])
            chan = m.group(1) if m else None
            view_kind = "planar" if "planar_pixel_iterator" in f["full"] else "interleaved"
            if chan is not None:
                rep.count("obligations:H8")
                k8 = "H8:histogram::fill:scaling of %s channels" % chan
                signed = chan in ("signed char", "char", "short", "int", "long")
                convs = []
                for x, pth in R.find(f["body"], lambda x: x.get("k") == "Binary" and x.get("op") in ("/", "%")):
                    if not any(a.get("k") == "Lambda" for a, _, _ in pth):
                        continue
                    for side in ("l", "r"):
                        n = x[side]
                        while isinstance(n, dict) and n.get("k") in ("ImplicitCast", "ExplicitCast", "Paren"):
                            if n.get("k") == "ImplicitCast" and n.get("cast") == "IntegralCast" and n.get("to_c", "").startswith("unsigned") and \
                                    re.fullmatch(r"(const )?(signed char|char|short|int|long|long long)", n.get("from_c", "")):
                                inner = R.strip(n["e"])
                                if inner.get("k") == "DeclRef" and any(inner.get("id") == q.get("id") for a, _, _ in pth if a.get("k") == "Lambda" for q in a.get("params") or []):
                                    convs.append("%s converted to %s before %s" % (inner["name"], n.get("type"), x["op"]))
                            n = n.get("e")
                if convs:
                    rep.violation("H8-signed-scaling", k8, where, {"conversions": convs, "example": "channel -4, bin width 3: -4 becomes 2^64-4 before the division, the key is 84 instead of -1"})
                else:
                    rep.ok("H8-signed-scaling", k8, {"signed": signed, "implicit unsigned conversions of the channel": convs})
            # ------------------------------------------------------------ H9: the scaled pixel is a copy, not a reference proxy into the image
            if not prob and not unknown and env is not None:
                rep.count("obligations:H9")
                k9 = "H9:histogram::fill:scaled pixel of a %s view" % view_kind
                ty = [dd.get("type") or "" for x, _ in R.find(g["body"], lambda x: x.get("k") == "Decl") for dd in x["decls"] if dd.get("name") == env["P"]]
                proxy = bool(ty) and (re.search(r"(planar_pixel_reference|bit_aligned_pixel_reference|packed_channel_reference)<", ty[0]) is not None or ty[0].rstrip().endswith("&"))
                if proxy:
                    rep.violation("H9-scaled-copy", k9, where, {"type of the scaled pixel": ty[0][:120], "problem": "the division by bin_width is written through the reference into the source image"})
                else:
                    rep.ok("H9-scaled-copy", k9, ty[0][:80] if ty else None)
        # ---------------------------------------------------------------- H11: the axes of the key are colours
        if nm == "boost::gil::detail::pixel_to_tuple" and len(f["params"]) == 2:
            mp = R.layout_mapping(f["params"][0]["type"]) or R.layout_mapping(f["full"])
            msel = re.search(r"(?:index_sequence<|integer_sequence<unsigned long, )((?:\d+(?:UL)?(?:, )?)*)>", f["params"][1]["type"])
            sel = [int(x) for x in re.findall(r"\d+", msel.group(1))] if msel else []
            if mp is not None and sel and mp != list(range(len(mp))):
                rep.count("obligations:H11")
                k11 = "H11:pixel_to_tuple:axes <%s> of a pixel stored as %s" % (",".join(map(str, sel)), mp)
                mk = [c for c, _ in R.calls_in(f["body"], lambda n: n == "std::make_tuple")]
                got, unk = [], []
                for a in (mk[0].get("args") or []) if len(mk) == 1 else []:
                    n = R.strip(a)
                    cal = n.get("callee", {}) if n.get("k") == "Call" else {}
                    cn = cal.get("name", "")
                    ms = re.match(r"boost::gil::semantic_at_c<(\d+)", cal.get("full", ""))
                    ma = re.match(r"boost::gil::at_c<(\d+)", cal.get("full", ""))
                    if ms:
                        got.append(int(ms.group(1)))
                    elif ma or cn.endswith("::operator[]") or cn.endswith("dynamic_at_c"):
                        # position in memory -> the colour stored there
                        pos = int(ma.group(1)) if ma else R.type_range((n.get("args") or [None])[-1])
                        pos = pos[0] if isinstance(pos, tuple) and pos[0] == pos[1] else pos
                        if isinstance(pos, int) and pos in mp:
                            got.append(mp.index(pos))
                        else:
                            unk.append(R.key(n))
                    else:
                        unk.append(R.key(n))
                if len(mk) != 1 or unk or len(got) != len(sel):
                    rep.incon("H11-axes-by-colour", k11, {"unrecognised": unk or "no single make_tuple of the selected channels"})
                elif got != sel:
                    rep.violation("H11-axes-by-colour", k11, where, {"selected axes (colour space order: 0 - red, 1 - green, 2 - blue, doc/histogram/fill.rst)": sel, "colours the key is built from": got,
                                                                     "example": "the same picture stored as rgb8 and as bgr8 gives different histograms: fill_histogram<0> counts red for one, blue for the other"})
                else:
                    rep.ok("H11-axes-by-colour", k11, got)
        # ---------------------------------------------------------------- H1b
        if nm == "boost::gil::detail::tuple_compare" and len(f["params"]) == 3:
            rep.count("obligations:H1b")
            eff = [k for k, _, _ in effects(g["body"])]
            n_le = sum(k.count("(get($0) <= get($1))") for k in eff)
            decl = {k: (R.key(v) if v is not None else None) for k, v in decls_of(g["body"]).items()}
            loops = loops_of(g["body"])
            ret = [R.key(x.get("e")) for x, _ in R.find(g["body"], lambda x: x.get("k") == "Return")]
            env = bind(eff, ["({R} = ({R} & {L}[#0]))"]) or bind(eff, ["({R} = ({R} && {L}[#0]))"]) or bind(eff, ["({R} &= {L}[#0])"])
            ok = n_le >= 1 and env is not None and str(decl.get(env["R"])).lower() in ("true", "1") and len(loops) == 1 and loops[0].get("k") == "For" and \
                counts_up(loops[0], "%s.size()" % env["L"]) and ret == [env["R"]]
            k = "H1b:tuple_compare:%d components" % n_le
            if ok:
                rep.ok("H1b-tuple-compare", k, eff[:2])
            else:
                rep.violation("H1b-tuple-compare", "H1b:tuple_compare", where, {"statements": eff, "initial": decl, "returns": ret})
        # ---------------------------------------------------------------- H2
        if nm == "boost::gil::fill_histogram" and len(f["params"]) == 10:
            rep.count("obligations:H2")
            body = R.strip(g["body"])
            items = [R.strip(x) for x in body.get("c", [])]
            seq = []
            for x in items:
                if x.get("k") == "If":
                    calls = [R.key(c) for c, _ in R.find(x.get("then"), lambda y: y.get("k") == "Call")]
                    seq.append(("if", R.key(x["cond"]), calls[-1] if calls else None, x.get("else") is not None))
                elif x.get("k") == "Call":
                    seq.append(("call", R.key(x)))
            want = [("if", "(!$3)", "$1.clear()", False), ("if", "(!$4)", "filler{}($1,$7,$8,$2)", False), ("call", "$1.fill($0,$2,$5,$6,$7,$8,$9)")]
            got = [(t[0], t[1], re.sub(r"^(%\d+|filler\{\})\(", "filler{}(", t[2] or ""), t[3]) if t[0] == "if" else t for t in seq]
            k = "H2:fill_histogram" + ("<3d>" if "int, int, int" in f["full"] else "<1d>")
            if got == want:
                rep.ok("H2-protocol", k, seq)
            else:
                rep.violation("H2-protocol", "H2:fill_histogram", where, {"statements": seq, "documented": want})
        # ---------------------------------------------------------------- H2b
        if nm == "boost::gil::detail::filler::operator()" and f["params"]:
            writes = []
            for k, x, p in effects(g["body"]):
                if not re.match(r"\(?(\+\+|--)?\$0(\(|\[|\.)", k):
                    continue
                op = x.get("op") or "="
                rhs = R.key(x.get("r") or (x.get("args") or [None, None])[1]) if x.get("k") != "Unary" and (x.get("r") is not None or len(x.get("args") or []) > 1) else None
                keeps = (op in ("+=", "-=") and rhs in ("0", "0.0")) or (op in ("*=", "/=") and rhs in ("1", "1.0"))
                writes.append((k, keeps))
            erasers = [R.key(c) for c, _ in R.calls_in(g["body"], lambda n: n.split("::")[-1] in ("clear", "erase", "swap", "assign"))]
            rep.count("obligations:H2b")
            k = "H2b:detail::filler<%s>::operator()" % ("1" if re.search(r"filler<1", f.get("cls", "") + f["full"]) else "N")
            badw = [w for w, keeps in writes if not keeps] + erasers
            sites, exposed = 0, 0
            for h in fns:
                if h["name"] != "boost::gil::fill_histogram" or len(h["params"]) != 10:
                    continue
                acc = h["params"][3]["name"]
                for c, pth in R.find(h["body"], lambda x: x.get("k") == "Call" and x["callee"].get("id") == f.get("id")):
                    sites += 1
                    if not any(op == "==" and l == acc and r == "0" for op, l, r in R.guards(pth)):
                        exposed += 1
            # H8 for the pre-fill: its keys may be negative (signed key types), they are not converted to unsigned before the division
            rep.count("obligations:H8")
            convs = []
            for x, pth in R.find(f["body"], lambda x: x.get("k") == "Binary" and x.get("op") in ("/", "%")):
                n = x["l"]
                while isinstance(n, dict) and n.get("k") in ("ImplicitCast", "ExplicitCast", "Paren"):
                    inner = R.strip(n.get("e"))
                    if n.get("k") == "ImplicitCast" and n.get("cast") == "IntegralCast" and n.get("to_c", "").startswith("unsigned") and isinstance(inner, dict) and \
                            re.fullmatch(r"(const )?(signed char|char|short|int|long|long long)", n.get("from_c", "")) and inner.get("k") not in ("Int",):
                        convs.append("%s (%s) converted to %s before %s" % (R.key(inner), n.get("from_c"), n.get("to_c"), x["op"]))
                    n = n.get("e")
            k8 = "H8:detail::filler<%s>::operator():keys of the dense pre-fill" % ("1" if re.search(r"filler<1", f.get("cls", "") + f["full"]) else "N")
            if convs:
                rep.violation("H8-signed-scaling", k8, where, {"conversions": convs, "example": "lower limit -30, bin width 3: the first bin created is (2^64-30)/3 truncated to the key type, not -10"})
            else:
                rep.ok("H8-signed-scaling", k8, "no signed key is converted to an unsigned type before the division")
            # H2c: the dense pre-fill of an empty limit box terminates and creates nothing: its loop condition compares an *unsigned* difference with bin_width,
            # which a lower bound above the upper bound never lets fall (255 bins for an 8-bit key, no return for an int key)
            if re.search(r"filler<1", f.get("cls", "") + f["full"]):
                rep.count("obligations:H2c")
                k2c = "H2c:detail::filler<1>::operator():empty limit box"
                guarded = False
                for x, _ in R.find(g["body"], lambda x: x.get("k") == "If"):
                    ck = R.key(x["cond"])
                    rets = [r for r, _ in R.find(x.get("then"), lambda y: y.get("k") == "Return")]
                    if rets and ck in ("(get($2) < get($1))", "(get($1) > get($2))"):
                        guarded = True
                loops_ = loops_of(g["body"])
                uns = any("unsigned" in (c_.get("to_c") or "") or "size_t" in (c_.get("type") or "") for l_ in loops_ for c_, _ in R.find(l_.get("cond"), lambda y: y.get("k") in ("ExplicitCast", "ImplicitCast")))
                if guarded or not uns:
                    rep.ok("H2c-empty-box", k2c, "returns before the loop when upper < lower" if guarded else "the loop condition is a signed comparison")
                else:
                    rep.violation("H2c-empty-box", k2c, where, {"loop conditions": [R.key(l_.get("cond"))[:100] for l_ in loops_],
                                  "example": "fill_histogram(view, histogram<unsigned char>, 1, false, false, false, {}, make_tuple(5), make_tuple(3), true): 255 bins (5..255, 0..3); with histogram<int> the call does not return"})
            if badw and exposed:
                rep.violation("H2b-prefill-keeps", k, where, {"overwrites": badw, "reached_with": "fill_histogram(..., accumulate = true, ...): %d of %d call(s) of the pre-fill are not guarded by !accumulate" % (exposed, sites)})
            else:
                rep.ok("H2b-prefill-keeps", k, {"writes": [w for w, _ in writes], "call_sites": sites, "reachable_with_accumulate": exposed})
        # ---------------------------------------------------------------- H6 / H7
        if nm == "boost::gil::fill_histogram" and len(f["params"]) == 3 and is_std(f["params"][1]["type"]):
            rep.count("obligations:H6")
            std_filler(g, f, rep, where, None)
        if nm == "boost::gil::cumulative_histogram" and is_std(f["params"][0]["type"]):
            rep.count("obligations:H7")
            std_cumulative(g, f, rep, where)
        # ---------------------------------------------------------------- H3
        if nm == "boost::gil::cumulative_histogram" and not is_std(f["params"][0]["type"]):
            rep.count("obligations:H3")
            eff = effects(g["body"])
            keys = [k for k, _, _ in eff]
            sorts = [R.key(c) for c, _ in R.calls_in(g["body"], lambda n: n == "std::sort")]
            loops = [l for l in loops_of(g["body"]) if l.get("k") == "For"]
            env1 = bind(keys, ["({S}[({N}++)] = make_pair({v}.first,{v}.second))", "({C} += {S}[#0].second)", "({H}[{S}[#0].first] = {C})"])
            one_d = env1 is not None and sorts == [fill_in("sort({S}.begin(),{S}.end())", env1)] and len(loops) == 1 and counts_up(loops[0], "%s.size()" % env1["S"]) and \
                keys.index(fill_in("({C} += {S}[#0].second)", env1)) < keys.index(fill_in("({H}[{S}[#0].first] = {C})", env1))
            envn = bind(keys, ["({D} += $0.at({q}.first))", "({H}[{p}.first] = {D})"], {"H": env1["H"]} if env1 else None)
            comps = [R.key(c) for c, _ in R.calls_in(g["body"], lambda n: n.endswith("tuple_compare"))]
            comps = sorted(set(comps))
            cmp_pat = fill_in("tuple_compare({q}.first,{p}.first,", envn) if envn else "?"
            n_d = envn is not None and len(comps) == 1 and comps[0].startswith(cmp_pat)
            guard_ok = False
            if envn:
                for k, x, p in eff:
                    if k == fill_in("({D} += $0.at({q}.first))", envn):
                        ifn = [a for a, fld, _ in p if a.get("k") == "If"]
                        guard_ok = bool(ifn) and R.key(ifn[-1]["cond"]).startswith(cmp_pat) and ifn[-1].get("else") is None
            ret = [R.key(x.get("e")) for x, _ in R.find(g["body"], lambda x: x.get("k") == "Return")]
            ret_ok = env1 is not None and ret == [env1["H"]]
            # H3c: "its last bin equals the total" for two or more axes: the histogram is sparse, the bin of the greatest key of every axis exists only if a pixel fell
            # there -- it has to be created with the total (key: fold of a component-wise maximum over all keys; value: sum over all bins)
            if envn is not None and env1 is not None:
                rep.count("obligations:H3c")
                k3c = "H3c:cumulative_histogram:last bin of an n-D histogram"
                envc = bind(keys, ["({T} += {u}.second)", "({H}[{K}] = {T})"], {"H": env1["H"]})
                folds = [R.key(c) for c, _ in R.calls_in(g["body"], lambda n: n.endswith("tuple_component_max"))]
                if envc is None:
                    rep.violation("H3c-last-bin", k3c, where, {"problem": "no bin is created for the component-wise greatest key: the sums are stored under keys of the source only",
                                                               "example": "bins (2,1)=1 (2,4)=1 (5,3)=1: cumulative (2,1)=1 (2,4)=2 (5,3)=2, no bin holds the total 3 (the last bin (5,4) does not exist)"})
                elif not any(fk.startswith(fill_in("tuple_component_max({K},{u}.first,", envc)) for fk in folds):
                    lex = [kk for kk in keys if re.fullmatch(r"\(%s = \S+\.first\)" % re.escape(envc["K"]), kk)]
                    if lex and not folds:
                        # the key of the total is the greatest key in std::tuple's (lexicographic) order: not the greatest of every axis
                        rep.violation("H3c-last-bin", k3c, where, {"problem": "the total is stored under the lexicographically greatest key (%s), not under the greatest key of every axis" % lex[0],
                                                                   "example": "bins (1,9)=2 (5,2)=2: the total 4 overwrites the bin (5,2), whose cumulative value is 2; the last bin (5,9) does not exist"})
                    else:
                        rep.incon("H3c-last-bin", k3c, {"unrecognised": "the key %s of the total is not a component-wise maximum over all keys: %s" % (envc["K"], folds)})
                elif helper_max.get("ok") is not True:
                    rep.violation("H3c-last-bin", k3c, where, {"problem": "detail::tuple_component_max does not raise every component to the greater one", "statements": helper_max.get("eff")})
                else:
                    rep.ok("H3c-last-bin", k3c, "bin[max over every axis] = sum of all bins")
            k = "H3:cumulative_histogram" + ("<3d>" if "int, int, int" in f["full"] else "<1d>")
            if one_d and n_d and guard_ok and ret_ok:
                rep.ok("H3-cumulative", k, "running sum over sorted keys / dominated-keys sum")
            else:
                rep.violation("H3-cumulative", "H3:cumulative_histogram", where, {"one_dimensional_branch": bool(one_d), "n_dimensional_branch": bool(n_d and guard_ok), "returns_the_sums": bool(ret_ok), "statements": keys})
        # ---------------------------------------------------------------- H4
        if nm == "boost::gil::histogram::sub_histogram" and not f["params"]:
            rep.count("obligations:H4")
            keys = [k for k, _, _ in effects(g["body"])]
            fe = [R.key(c)[:40] for c, _ in R.calls_in(g["body"], lambda n: n == "std::for_each")]
            ret = [R.key(x.get("e")) for x, _ in R.find(g["body"], lambda x: x.get("k") == "Return")]
            env = bind(keys, ["({S}[tuple_to_tuple({v}.first,index_sequence{})] += this.operator[]({v}.first))"])
            ok = env is not None and len(keys) == 1 and fe == ["for_each(this.begin(),this.end(),Lambda)"[:40]] and ret == [env["S"]]
            if ok:
                rep.ok("H4-marginal", "H4:sub_histogram<Dims...>()", keys)
            else:
                rep.violation("H4-marginal", "H4:sub_histogram<Dims...>()", where, {"statements": keys, "loops": fe, "returns": ret})
        # ---------------------------------------------------------------- H4b key range
        if nm == "boost::gil::histogram::sub_histogram" and len(f["params"]) == 2:
            dims = re.search(r"sub_histogram<((?:\d+UL, )+)", f["full"])
            ndim = len(re.findall(r"\d+UL", dims.group(1))) if dims else 0
            rep.count("obligations:H4b")
            k4 = "H4b:sub_histogram<%d axes>(low, high)" % ndim
            ifs = [x for x, _ in R.find(g["body"], lambda x: x.get("k") == "If")]
            keys = [k for k, _, _ in effects(g["body"])]
            if len(ifs) != 1:
                rep.incon("H4b-range", k4, {"unrecognised": "%d conditionals" % len(ifs)})
            else:
                cmps = [(c["callee"]["name"], [R.key(a) for a in c["args"][:2]]) for c, _ in R.calls_in(ifs[0]["cond"], lambda n: n in ("std::operator<=", "std::operator<", "std::operator>=", "std::operator>") or n.endswith("tuple_compare"))]
                lex = [c for c in cmps if c[0].startswith("std::operator")]
                comp = [c for c in cmps if c[0].endswith("tuple_compare")]
                if lex and ndim >= 2:
                    rep.violation("H4b-range", k4, where, {"comparisons": cmps, "problem": "std::tuple's relational operators compare lexicographically: with two or more selected axes a key whose first component is strictly inside the range passes whatever its other components are",
                                                             "example": "bin (2,9,1), range [1,3]x[1,3] on axes 0,1 is kept although 9 is not in [1,3]"})
                elif (len(comp) == 2 and not lex) or (lex and ndim == 1 and len(lex) == 2):
                    rep.ok("H4b-range", k4, cmps)
                else:
                    rep.incon("H4b-range", k4, {"unrecognised": cmps})
        # ---------------------------------------------------------------- H5
        if nm in ("boost::gil::histogram::normalize", "boost::gil::histogram::sum"):
            rep.count("obligations:H5")
            keys = [k for k, _, _ in effects(g["body"])]
            fe = [R.key(c) for c, _ in R.calls_in(g["body"], lambda n: n == "std::for_each")]
            decl = {k: (R.key(v) if v is not None else None) for k, v in decls_of(g["body"]).items()}
            want = ["({S} += {v}.second)"] + (["(this.operator[]({w}.first) = ({w}.second / {S}))"] if short == "normalize" else [])
            env = bind(keys, want)
            ok = env is not None and keys == [fill_in(w, env) for w in want] and all(k == "for_each(this.begin(),this.end(),Lambda)" for k in fe) and len(fe) == len(want) and \
                decl.get(env["S"]) in ("0", "0.0")
            if ok and short == "sum":
                ret = [R.key(x.get("e")) for x, _ in R.find(g["body"], lambda x: x.get("k") == "Return")]
                ok = ret == [env["S"]]
            k = "H5:histogram::%s%s" % (short, "<3d>" if "int, int, int" in f.get("cls", "") else "<1d>")
            if ok and short == "normalize":
                # H5b: a histogram without mass (no bins, or only empty bins of a dense fill) is not divided by its total
                rep.count("obligations:H5b")
                S = env["S"]
                guarded = False
                for x, pth in R.find(g["body"], lambda x: x.get("k") == "If"):
                    ck = R.key(x["cond"])
                    rets = [r for r, _ in R.find(x.get("then"), lambda y: y.get("k") == "Return")]
                    if ck in ("(%s == 0)" % S, "(%s == 0.0)" % S, "(0 == %s)" % S, "(!%s)" % S, "(%s <= 0)" % S, "(%s <= 0.0)" % S) and rets:
                        guarded = True
                    divs = [kk for kk, _, _ in effects(x.get("then")) if "/ %s" % S in kk] if x.get("then") else []
                    if ck in ("(%s != 0)" % S, "(%s != 0.0)" % S, "(%s > 0)" % S, "(%s > 0.0)" % S, S) and divs:
                        guarded = True
                if guarded:
                    rep.ok("H5b-zero-mass", "H5b:histogram::normalize:zero total", "the division is skipped when the total is 0")
                else:
                    rep.violation("H5b-zero-mass", "H5b:histogram::normalize:zero total", where, {"problem": "every bin is divided by the total without a test for 0",
                                  "example": "dense fill (sparsefill = false, limits 0..2) of an empty or fully masked view, then normalize(): the bins 0,1,2 become NaN"})
            if ok:
                rep.ok("H5-normalize", k, keys)
            else:
                rep.violation("H5-normalize", "H5:histogram::%s" % short, where, {"statements": keys, "loops": fe, "initial_sum": decl})
    rep.floor("obligations:H1", 2)
    rep.floor("obligations:H1b", 1)
    rep.floor("obligations:H2", 2)
    rep.floor("obligations:H2b", 2)
    rep.floor("obligations:H3", 2)
    rep.floor("obligations:H4", 1)
    rep.floor("obligations:H4b", 2)
    rep.floor("obligations:H5", 3)
    rep.floor("obligations:H8", 5)
    rep.floor("obligations:H9", 3)
    rep.floor("obligations:H6", 6)
    rep.floor("obligations:H11", 2)
    rep.floor("obligations:H2c", 1)
    rep.floor("obligations:H3c", 1)
    rep.floor("obligations:H5b", 2)
    rep.floor("obligations:H7", 6)
