// C19 replay: dense fill (sparsefill = false) with an empty limit box (lower > upper) creates 255 bins for an 8-bit key type -- and does not return for an int key
// g++ -std=c++14 -I/repo/include dense_empty_box.cpp && ./a.out
#include <boost/gil.hpp>
#include <boost/gil/histogram.hpp>
#include <cstdio>
namespace gil = boost::gil;
int main()
{
    gil::gray8_image_t img(2, 2, gil::gray8_pixel_t(7));
    gil::histogram<unsigned char> h;
    gil::fill_histogram(gil::view(img), h, 1, false, false, false, {}, std::make_tuple((unsigned char)5), std::make_tuple((unsigned char)3), true);
    std::printf("bins created for the empty box [5,3]: %zu (expected 0; the sparse fill creates none)\n", h.size());
    return h.size() == 0 ? 0 : 1;
}
