// C12 replay: a tiff file read into a bgr view has red and blue exchanged (the file itself is right)
// g++ -std=c++14 -I/repo/include tiff_bgr.cpp -ltiff -ltiffxx && ./a.out
#include <boost/gil.hpp>
#include <boost/gil/extension/io/tiff.hpp>
#include <cstdio>
using namespace boost::gil;
int main()
{
    bgr8_image_t src(3, 2), dst; rgb8_image_t ref;
    for (auto& p : view(src)) p = bgr8_pixel_t(30, 20, 10);          // blue 30, green 20, red 10
    write_view("/tmp/c12_bgr.tif", const_view(src), tiff_tag());
    read_image("/tmp/c12_bgr.tif", dst, tiff_tag());
    read_image("/tmp/c12_bgr.tif", ref, tiff_tag());
    auto p = view(dst)(0, 0); auto q = view(ref)(0, 0);
    std::printf("written red=10 green=20 blue=30; read into bgr8: red=%d green=%d blue=%d; read into rgb8: red=%d green=%d blue=%d\n",
                int(get_color(p, red_t())), int(get_color(p, green_t())), int(get_color(p, blue_t())), int(get_color(q, red_t())), int(get_color(q, green_t())), int(get_color(q, blue_t())));
    return get_color(p, red_t()) == 10 ? 0 : 1;
}
