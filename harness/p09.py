"""C09 default colour conversion: range / end points / luminance law / composition, decided on the inlined IR
(interval+affine+monotonicity domain, polynomial value numbering) plus AST who-may-call rules."""
import os, json, itertools
from fractions import Fraction as Fr
from . import common as C
from .ir.num import NumInterp, Unsupported
from .pairs import Pair, run_pairs
from .p06 import inner_fn, accept_inconclusive

LEVEL = "other"
EXPLANATION = ("Static analysis of color_convert between gray, rgb, rgba and cmyk (8/16-bit and float channels, several "
               "layouts): (A) every output channel stays in range and no narrowing/float->int conversion inside the inlined "
               "converter loses bits (interval domain with attained bounds); (B) rgb->gray is monotone in each channel and "
               "within one unit of 0.30r+0.59g+0.11b (affine domain), and (v,v,v)->v exactly for 8-bit (coefficient sum 1, "
               "|err|<1, integrality); (C) gray->rgb copies channel_convert(gray) to every channel; (D) black and white end "
               "points between gray, rgb, opaque rgba and cmyk by constant propagation; (E) to-rgba alpha = max or the source "
               "alpha, from-rgba == conversion of the alpha-premultiplied rgb, same-colour-space conversion == per-channel "
               "channel_convert, and results do not depend on the layout of either side (equal value-numbering normal forms); "
               "(F) AST: converters reach channels by colour name only, and color_converted_view / copy_and_convert_pixels "
               "reach default_color_converter. Not decided: rgb->cmyk->rgb within one level and cmyk interior accuracy "
               "(division by a run-time max-k).")

SP = {"gray": ["gray_color_t"], "rgb": ["red_t", "green_t", "blue_t"], "rgba": ["red_t", "green_t", "blue_t", "alpha_t"],
      "cmyk": ["cyan_t", "magenta_t", "yellow_t", "black_t"]}
LAYOUT = {"gray": ["gray_layout_t"], "rgb": ["rgb_layout_t", "bgr_layout_t"], "rgba": ["rgba_layout_t", "argb_layout_t", "bgra_layout_t", "abgr_layout_t"], "cmyk": ["cmyk_layout_t"]}
CH = {"u8": ("std::uint8_t", "std::uint8_t", "int", 8, 0, 255), "u16": ("std::uint16_t", "std::uint16_t", "int", 16, 0, 65535),
      "f32": ("float32_t", "float", "float", 32, 0.0, 1.0),
      "s8": ("std::int8_t", "std::int8_t", "sint", 8, -128, 127)}


def conv_wrapper(name, ssp, sch, slay, dsp, dch, dlay, out_colour, same_arg=False):
    cxx, raw, kind, bits, lo, hi = CH[sch]
    dcxx, draw = CH[dch][0], CH[dch][1]
    n = len(SP[ssp])
    args = ", ".join("%s c%d" % (raw, 0 if same_arg else i) for i in range(1 if same_arg else n))
    body = "pixel<%s, %s> s; " % (cxx, slay)
    for i, col in enumerate(SP[ssp]):
        body += "get_color(s, %s()) = %s(c%d); " % (col, cxx, 0 if same_arg else i)
    body += "pixel<%s, %s> d; color_convert(s, d); return (%s)get_color(d, %s());" % (dcxx, dlay, draw, out_colour)
    return "%s %s(%s){ %s }" % (draw, name, args, body)


def run(rep):
    C.need_tools(C.IRDUMP, C.ASTDUMP)
    wd = C.workdir("C09num")
    chans = ["u8", "u16", "f32"] if rep.tier == "thorough" else ["u8", "u16", "f32"]
    L = ['#include "vf_common.hpp"', 'using namespace vf;', 'extern "C" {']
    obl = []
    n = 0
    for ssp, dsp in itertools.product(SP, SP):
        for sch, dch in itertools.product(chans, chans):
            if rep.tier != "thorough" and sch != dch and not (sch == "u8" and dch in ("u16", "f32")) and not (sch in ("u16", "f32") and dch == "u8"):
                continue
            for col in SP[dsp]:
                n += 1
                nm = "w_cc_%d" % n
                L.append(conv_wrapper(nm, ssp, sch, LAYOUT[ssp][0], dsp, dch, LAYOUT[dsp][0], col))
                obl.append((nm, "range", ssp, sch, dsp, dch, col))
    # signed channel depth (cmyk8s, rgb8s, ... are core typedefs too): same depth and into unsigned 8-bit
    for ssp, dsp in itertools.product(SP, SP):
        for sch, dch in (("s8", "s8"), ("s8", "u8")):
            if ssp == dsp and rep.tier != "thorough":
                continue
            for col in SP[dsp]:
                n += 1
                nm = "w_cc_%d" % n
                L.append(conv_wrapper(nm, ssp, sch, LAYOUT[ssp][0], dsp, dch, LAYOUT[dsp][0], col))
                obl.append((nm, "range", ssp, sch, dsp, dch, col))
    for sch in chans:
        for dch in chans:
            n += 1
            nm = "w_vvv_%d" % n
            L.append(conv_wrapper(nm, "rgb", sch, "rgb_layout_t", "gray", dch, "gray_layout_t", "gray_color_t", same_arg=True))
            obl.append((nm, "neutral", "rgb", sch, "gray", dch, "gray_color_t"))
    L.append("}")
    src = os.path.join(wd, "c09_num.cpp")
    open(src, "w").write("\n".join(L) + "\n")
    bc = C.emit_ir(src, src[:-4] + ".bc")
    dump = C.irdump(bc, src[:-4] + ".json")
    fns = {f["name"]: f for f in dump["functions"]}
    rep.units.append("c09_num.cpp: %d conversion wrappers" % len(obl))
    rep.trusted += ["clang front end, LLVM inliner/SROA/mem2reg", "harness/ir/num.py, harness/ir/poly.py", "documented luminance weights 0.30/0.59/0.11"]
    rep.assumptions += ["source channels lie in their documented range"]
    rep.rule("A range: every output channel inside its range; narrowing/float->int/arithmetics inside the converter lossless")
    rep.rule("B luminance: rgb->gray monotone per channel and within one destination unit of 0.30r+0.59g+0.11b")
    rep.rule("B' neutral: (v,v,v) -> v exactly for 8-bit (affine coefficient 1, |err|<1, integrality)")
    rep.rule("D end points: black->black and white->white between gray, rgb, opaque rgba and cmyk (constant propagation)")
    W = "include/boost/gil/color_convert.hpp"
    WEIGHT = {"red_t": Fr(30, 100), "green_t": Fr(59, 100), "blue_t": Fr(11, 100)}
    for nm, kind, ssp, sch, dsp, dch, col in obl:
        fn = fns[nm]
        s_kind, s_bits, s_lo, s_hi = CH[sch][2:]
        d_lo, d_hi = CH[dch][4], CH[dch][5]
        nin = 1 if kind == "neutral" else len(SP[ssp])
        s_kind = "int" if s_kind == "sint" else s_kind
        inputs = {"a%d" % i: (s_kind, s_bits, s_lo, s_hi) for i in range(nin)}
        what = "color_convert<%s %s -> %s %s>[%s]" % (ssp, sch, dsp, dch, col)
        rep.count("conversions")
        try:
            it = NumInterp(fn, inputs)
            ret = it.run()
            if CH[dch][2] == "int" and ret is not None:
                ret = it.as_unsigned(ret, {})
            if CH[dch][2] == "sint" and ret is not None:
                ret = it.as_signed(ret, {})
        except Unsupported as e:
            rep.fail_analysis("%s: %s" % (what, e))
            continue
        if kind == "range":
            seen = set()
            for ev in it.final_events():
                fnname, where = inner_fn(ev)
                key = "%s:%s:%s" % (what, ev.kind, fnname)
                if (key, ev.status) in seen:
                    continue
                seen.add((key, ev.status))
                if ev.status == "proved":
                    rep.ok("A-" + ev.kind, key, ev.detail)
                elif ev.status == "refuted":
                    rep.violation("A-" + ev.kind, key, where, {"detail": ev.detail, "witness": ev.witness})
                else:
                    rep.incon("A-" + ev.kind, key, ev.detail + " at " + where)
            key = what + ":range"
            if ret is None or ret.top:
                rep.incon("A-range", key, "unknown result")
            elif ret.lo >= d_lo and ret.hi <= d_hi:
                rep.ok("A-range", key, "[%s,%s]" % (ret.lo, ret.hi))
            elif (ret.hi > d_hi and ret.hi_w) or (ret.lo < d_lo and ret.lo_w):
                rep.violation("A-range", key, W, {"result": [str(ret.lo), str(ret.hi)], "witness": ret.hi_w if ret.hi > d_hi else ret.lo_w})
            else:
                rep.incon("A-range", key, "[%s,%s] vs [%s,%s]" % (ret.lo, ret.hi, d_lo, d_hi))
            # end points
            for label, val in (("black", "lo"), ("white", "hi")):
                want = expected_endpoint(ssp, dsp, col, label, d_lo, d_hi)
                if want is None:
                    continue
                src_vals = endpoint_inputs(ssp, label, s_lo, s_hi)
                try:
                    it2 = NumInterp(fn, {"a%d" % i: (s_kind, s_bits, v, v) for i, v in enumerate(src_vals)})
                    r2 = it2.run()
                    if CH[dch][2] == "int" and r2 is not None:
                        r2 = it2.as_unsigned(r2, {})
                    if CH[dch][2] == "sint" and r2 is not None:
                        r2 = it2.as_signed(r2, {})
                except Unsupported as e:
                    rep.incon("D-endpoint", what + ":" + label, str(e))
                    continue
                key = what + ":" + label
                if r2 is not None and not r2.top and r2.is_const():
                    if r2.lo == want:
                        rep.ok("D-endpoint", key, "%s -> %s" % (src_vals, r2.lo))
                    else:
                        rep.violation("D-endpoint", key, W, {"input": [str(v) for v in src_vals], "got": str(r2.lo), "expected": str(want)})
                else:
                    rep.incon("D-endpoint", key, "not constant: %r" % (r2,))
            # luminance law
            if ssp == "rgb" and dsp == "gray" and sch == dch:
                for i, c in enumerate(SP["rgb"]):
                    key = what + ":monotone:" + c
                    if ret is not None and ret.mono.get("a%d" % i) in ("+", "="):
                        rep.ok("B-monotone", key, ret.mono.get("a%d" % i))
                    else:
                        rep.incon("B-monotone", key, "not established")
                key = what + ":luminance"
                if ret is not None and ret.aff is not None:
                    k = (Fr(d_hi) - Fr(d_lo)) / (Fr(s_hi) - Fr(s_lo))
                    # channels are affine images of [0,1]: value v stands for (v - s_lo)/(s_hi - s_lo); for signed channels s_lo != 0
                    c0 = k * Fr(s_lo) - Fr(d_lo)
                    lo, hi = ret.elo + c0, ret.ehi + c0
                    for i, c in enumerate(SP["rgb"]):
                        dc = ret.aff.get("a%d" % i, Fr(0)) - WEIGHT[c] * k
                        lo += min(dc * Fr(s_lo), dc * Fr(s_hi))
                        hi += max(dc * Fr(s_lo), dc * Fr(s_hi))
                    tol = Fr(1) + Fr(1, 1 << 10) if CH[dch][2] in ("int", "sint") else Fr(1, 1 << 10)
                    if set(ret.aff) <= {"a0", "a1", "a2"} and -tol < lo and hi < tol:
                        rep.ok("B-luminance", key, "error in [%s,%s]" % (float(lo), float(hi)))
                    else:
                        # try to refute at the corner of the input box that maximises / minimises the linear deviation
                        refuted = None
                        for sign in (1, -1):
                            corner = []
                            for i, c in enumerate(SP["rgb"]):
                                dc = (ret.aff.get("a%d" % i, Fr(0)) - WEIGHT[c] * k) * sign
                                corner.append(s_hi if dc > 0 else s_lo)
                            try:
                                it3 = NumInterp(fn, {"a%d" % i: (s_kind, s_bits, v, v) for i, v in enumerate(corner)})
                                r3 = it3.run()
                            except Unsupported:
                                continue
                            if r3 is None or r3.top or not r3.is_const():
                                continue
                            if CH[dch][2] == "sint":
                                r3 = it3.as_signed(r3, {})
                            spec = sum(WEIGHT[c] * k * (Fr(v) - Fr(s_lo)) for c, v in zip(SP["rgb"], corner)) + Fr(d_lo)
                            if abs(Fr(r3.lo) - spec) >= tol:
                                refuted = {"input": [str(v) for v in corner], "got": str(r3.lo), "0.30r+0.59g+0.11b": float(spec)}
                                break
                        if refuted:
                            rep.violation("B-luminance", key, W + " (detail::rgb_to_luminance_fn)", refuted)
                        else:
                            rep.incon("B-luminance", key, "error interval [%s,%s]" % (float(lo), float(hi)))
                else:
                    rep.incon("B-luminance", key, "no affine form")
        else:
            key = what + ":neutral"
            if sch == dch == "u8":
                if ret is not None and ret.aff is not None and set(ret.aff) <= {"a0"}:
                    c = ret.aff.get("a0", Fr(0)) - 1
                    lo = min(c * s_lo, c * s_hi) + ret.elo
                    hi = max(c * s_lo, c * s_hi) + ret.ehi
                    if -1 < lo and hi < 1:
                        rep.ok("B-neutral", key, "v + e, e integer in (%s,%s) => exact" % (float(lo), float(hi)))
                    else:
                        rep.violation("B-neutral", key, W + " (detail::rgb_to_luminance_fn)", {"affine": {k: str(v) for k, v in ret.aff.items()}, "error": [float(lo), float(hi)],
                                                                                        "note": "the three luminance coefficients do not sum to 1 within rounding: (v,v,v) does not map to v"})
                else:
                    rep.incon("B-neutral", key, "no affine form")
            else:
                if ret is not None and ret.aff is not None and set(ret.aff) <= {"a0"}:
                    k = (Fr(d_hi) - Fr(d_lo)) / (Fr(s_hi) - Fr(s_lo))
                    c = ret.aff.get("a0", Fr(0)) - k
                    lo = min(c * Fr(s_lo), c * Fr(s_hi)) + ret.elo
                    hi = max(c * Fr(s_lo), c * Fr(s_hi)) + ret.ehi
                    tol = Fr(1) + Fr(1, 1 << 10) if CH[dch][2] in ("int", "sint") else Fr(1, 1 << 10)
                    if -tol < lo and hi < tol:
                        rep.ok("B-neutral", key, "within one unit: [%s,%s]" % (float(lo), float(hi)))
                    else:
                        rep.incon("B-neutral", key, "[%s,%s]" % (float(lo), float(hi)))
                else:
                    rep.incon("B-neutral", key, "no affine form")
    value_numbering(rep)
    ast_rules(rep)
    rep.floor("conversions", 100)
    accept_inconclusive(rep, "c09_inconclusive.json")


def endpoint_inputs(sp, label, lo, hi):
    if sp == "gray":
        return [lo if label == "black" else hi]
    if sp == "rgb":
        return [lo] * 3 if label == "black" else [hi] * 3
    if sp == "rgba":
        return ([lo] * 3 if label == "black" else [hi] * 3) + [hi]      # opaque
    if sp == "cmyk":
        return [lo, lo, lo, hi] if label == "black" else [lo, lo, lo, lo]


def expected_endpoint(ssp, dsp, col, label, lo, hi):
    """value of destination colour `col` for black / white; the property states the end points between rgb, opaque
    rgba and cmyk (and gray<->rgb); gray<->cmyk is not part of the statement and is not checked"""
    if "gray" in (ssp, dsp) and "cmyk" in (ssp, dsp):
        return None
    if dsp == "gray":
        return lo if label == "black" else hi
    if dsp == "rgb":
        return lo if label == "black" else hi
    if dsp == "rgba":
        if col == "alpha_t":
            return hi
        return lo if label == "black" else hi
    if dsp == "cmyk":
        if col == "black_t":
            return hi if label == "black" else lo
        return lo


def value_numbering(rep):
    """E: equalities between conversions, as polynomial normal forms of the inlined wrappers"""
    pairs = []
    W = "include/boost/gil/color_convert.hpp"

    def px(ch, lay, vals):
        cxx = CH[ch][0]
        sp = [k for k, v in LAYOUT.items() if lay in v][0]
        body = "pixel<%s, %s> P; " % (cxx, lay)
        for col, v in zip(SP[sp], vals):
            body += "get_color(P, %s()) = %s; " % (col, v)
        return body

    def conv(src_decl, dch, dlay, col):
        return "[&]{ %s pixel<%s, %s> d; color_convert(P, d); return (iptr)get_color(d, %s()); }()" % (src_decl, CH[dch][0], dlay, col)
    par8 = "std::uint8_t c0, std::uint8_t c1, std::uint8_t c2, std::uint8_t c3"
    par16 = "std::uint16_t c0, std::uint16_t c1, std::uint16_t c2, std::uint16_t c3"
    for ch, par in (("u8", par8), ("u16", par16)):
        # layout independence of source and destination
        for ssp, dsp in itertools.product(("rgb", "rgba"), ("gray", "rgb", "rgba", "cmyk")):
            vals = ["c%d" % i for i in range(len(SP[ssp]))]
            for slay in LAYOUT[ssp][1:]:
                for col in SP[dsp]:
                    pairs.append(Pair(par, conv(px(ch, slay, vals), ch, LAYOUT[dsp][0], col), conv(px(ch, LAYOUT[ssp][0], vals), ch, LAYOUT[dsp][0], col),
                                      "E-layout", "%s %s source layout %s vs %s -> %s[%s]" % (ssp, ch, slay, LAYOUT[ssp][0], dsp, col), "E-layout:src:%s:%s:%s:%s" % (ssp, slay, dsp, col), W))
            for dlay in LAYOUT[dsp][1:]:
                for col in SP[dsp]:
                    pairs.append(Pair(par, conv(px(ch, LAYOUT[ssp][0], vals), ch, dlay, col), conv(px(ch, LAYOUT[ssp][0], vals), ch, LAYOUT[dsp][0], col),
                                      "E-layout", "%s %s -> %s destination layout %s[%s]" % (ssp, ch, dsp, dlay, col), "E-layout:dst:%s:%s:%s:%s" % (ssp, dsp, dlay, col), W))
        # gray -> rgb/rgba: each colour is channel_convert(gray)
        for dch in ("u8", "u16"):
            for dsp in ("rgb", "rgba"):
                for col in SP["rgb"]:
                    pairs.append(Pair(par, conv(px(ch, "gray_layout_t", ["c0"]), dch, LAYOUT[dsp][0], col), "(iptr)channel_convert<%s>(c0)" % CH[dch][0],
                                      "C-gray", "gray %s -> %s %s[%s] == channel_convert(gray)" % (ch, dsp, dch, col), "C-gray:%s:%s:%s:%s" % (ch, dsp, dch, col), W))
        # to rgba: alpha = max (no source alpha) / channel_convert(source alpha); colours = the rgb conversion's
        for ssp in ("gray", "rgb", "cmyk"):
            vals = ["c%d" % i for i in range(len(SP[ssp]))]
            for dch in ("u8", "u16"):
                pairs.append(Pair(par, conv(px(ch, LAYOUT[ssp][0], vals), dch, "rgba_layout_t", "alpha_t"), "(iptr)channel_traits<%s>::max_value()" % CH[dch][0],
                                  "E-alpha", "%s %s -> rgba %s alpha == max" % (ssp, ch, dch), "E-alpha:max:%s:%s:%s" % (ssp, ch, dch), W))
                for col in SP["rgb"]:
                    pairs.append(Pair(par, conv(px(ch, LAYOUT[ssp][0], vals), dch, "rgba_layout_t", col), conv(px(ch, LAYOUT[ssp][0], vals), dch, "rgb_layout_t", col),
                                      "E-alpha", "%s %s -> rgba %s[%s] == -> rgb" % (ssp, ch, dch, col), "E-alpha:colour:%s:%s:%s:%s" % (ssp, ch, dch, col), W))
        for dch in ("u8", "u16"):
            pairs.append(Pair(par, conv(px(ch, "rgba_layout_t", ["c0", "c1", "c2", "c3"]), dch, "rgba_layout_t", "alpha_t"), "(iptr)channel_convert<%s>(c3)" % CH[dch][0],
                              "E-alpha", "rgba %s -> rgba %s carries the source alpha" % (ch, dch), "E-alpha:carry:%s:%s" % (ch, dch), W))
        # from rgba == conversion of the premultiplied rgb
        for dsp in ("gray", "rgb", "cmyk"):
            for col in SP[dsp]:
                pre = ["channel_multiply(c0, c3)", "channel_multiply(c1, c3)", "channel_multiply(c2, c3)"]
                pairs.append(Pair(par, conv(px(ch, "rgba_layout_t", ["c0", "c1", "c2", "c3"]), ch, LAYOUT[dsp][0], col), conv(px(ch, "rgb_layout_t", pre), ch, LAYOUT[dsp][0], col),
                                  "E-premultiply", "rgba %s -> %s[%s] == premultiplied rgb -> %s" % (ch, dsp, col, dsp), "E-premultiply:%s:%s:%s" % (ch, dsp, col), W))
        # same colour space: per-channel channel_convert
        for sp in ("rgb", "rgba", "cmyk", "gray"):
            vals = ["c%d" % i for i in range(len(SP[sp]))]
            for dch in ("u8", "u16"):
                for dlay in LAYOUT[sp]:
                    for i, col in enumerate(SP[sp]):
                        pairs.append(Pair(par, conv(px(ch, LAYOUT[sp][0], vals), dch, dlay, col), "(iptr)channel_convert<%s>(c%d)" % (CH[dch][0], i),
                                          "E-same-space", "%s %s -> %s %s %s[%s] == channel_convert" % (sp, ch, sp, dch, dlay, col), "E-same-space:%s:%s:%s:%s:%s" % (sp, ch, dch, dlay, col), W))
    rep.rule("C gray->rgb(a): every colour channel has the normal form of channel_convert(gray)")
    rep.rule("E: to-rgba alpha == max / source alpha; colours == the rgb conversion's; from-rgba == conversion of premultiplied rgb; "
             "same colour space == per-channel channel_convert; results independent of source and destination layout (equal normal forms)")
    run_pairs(rep, "C09", pairs, nchunks=16)
    rep.floor("obligations:E-layout", 40)
    rep.floor("obligations:E-same-space", 40)
    rep.floor("obligations:E-premultiply", 10)


def walk(n, f):
    if isinstance(n, dict):
        f(n)
        for v in n.values():
            walk(v, f)
    elif isinstance(n, list):
        for v in n:
            walk(v, f)


def ast_rules(rep):
    wd = C.workdir("C09ast")
    src = os.path.join(wd, "c09_ast.cpp")
    open(src, "w").write('''#include "vf_common.hpp"
using namespace vf;
template <class S, class D> void cc(){ S s; D d; color_convert(s, d); }
void inst(rgb8_view_t const& v, rgb8_view_t const& w, gray8_view_t const& g){
  cc<gray8_pixel_t,rgb8_pixel_t>(); cc<gray8_pixel_t,cmyk8_pixel_t>(); cc<rgb8_pixel_t,gray8_pixel_t>(); cc<rgb16_pixel_t,gray16_pixel_t>(); cc<rgb8_pixel_t,cmyk8_pixel_t>();
  cc<cmyk8_pixel_t,rgb8_pixel_t>(); cc<cmyk8_pixel_t,gray8_pixel_t>(); cc<rgb8_pixel_t,rgba8_pixel_t>(); cc<rgba8_pixel_t,rgb8_pixel_t>(); cc<rgba8_pixel_t,rgba16_pixel_t>();
  cc<gray8_pixel_t,rgba8_pixel_t>(); cc<rgba8_pixel_t,gray8_pixel_t>(); cc<cmyk8_pixel_t,rgba8_pixel_t>(); cc<rgba8_pixel_t,cmyk8_pixel_t>(); cc<bgr8_pixel_t,gray8_pixel_t>(); cc<argb8_pixel_t,bgr8_pixel_t>();
  auto cv = color_converted_view<gray8_pixel_t>(v); (void)cv(0,0);
  copy_and_convert_pixels(v, g);
}
''')
    d = C.astdump(src, src[:-4] + ".json", ["^boost::gil::default_color_converter_impl::operator\\(\\)$", "^boost::gil::detail::rgb_to_luminance",
                                            "^boost::gil::color_convert_deref_fn::operator\\(\\)$", "^boost::gil::default_color_converter::operator\\(\\)$",
                                            "^boost::gil::detail::copy_and_convert_pixels_fn::", "^boost::gil::color_convert$", "^boost::gil::copy_and_convert_pixels$",
                                            "^boost::gil::detail::alpha_or_max"])
    fns = d["functions"]
    rep.rule("F1 inside default_color_converter_impl<..>::operator() channels are reached only through get_color/static_for_each (no at_c, semantic_at_c, operator[], dynamic_at_c)")
    rep.rule("F2 color_convert_deref_fn::operator(), color_convert and copy_and_convert_pixels reach the (default) colour converter with (source, destination) in that order")
    POS = ("boost::gil::at_c", "boost::gil::semantic_at_c", "boost::gil::dynamic_at_c")
    n_impl = 0
    for f in fns:
        if f["name"].endswith("default_color_converter_impl::operator()"):
            n_impl += 1
            bad = []

            def chk(n):
                if n.get("k") == "Call":
                    nm = n["callee"]["name"]
                    if nm in POS or (n.get("op") == "[]" and "pixel" in nm):
                        bad.append((nm, n.get("line")))
            walk(f["body"], chk)
            key = "F1:%s" % f["full"].split("default_color_converter_impl")[1][:80]
            rep.count("obligations:F1")
            if bad:
                rep.violation("F1-by-name", key, "include/boost/gil/color_convert.hpp:%s" % f["line"], {"positional_access": bad[:5]})
            else:
                rep.ok("F1-by-name", key, "only named access")
    # F2 call-graph facts
    def calls_of(f):
        out = []
        walk(f["body"], lambda n: out.append(n) if n.get("k") == "Call" else None)
        return out
    for f in fns:
        short = f["name"].replace("boost::gil::", "")
        if short == "color_convert_deref_fn::operator()":
            rep.count("obligations:F2")
            cs = [c for c in calls_of(f) if c.get("op") == "()" or "color_converter" in c["callee"]["name"]]
            ok = any("default_color_converter::operator()" in c["callee"]["name"] and first_arg_is_param(c, f, 0) for c in cs)
            (rep.ok if ok else rep.violation)(*(("F2-reach", "F2:color_convert_deref_fn", "calls the converter with the source reference") if ok else
                                               ("F2-reach", "F2:color_convert_deref_fn", "include/boost/gil/image_view_factory.hpp", {"calls": [c["callee"]["name"] for c in cs][:6]})))
        if short == "color_convert":
            rep.count("obligations:F2")
            cs = calls_of(f)
            ok = any("default_color_converter::operator()" in c["callee"]["name"] and first_arg_is_param(c, f, 0) and first_arg_is_param(c, f, 1, 1) for c in cs)
            (rep.ok if ok else rep.violation)(*(("F2-reach", "F2:color_convert", "calls default_color_converter(src,dst)") if ok else
                                               ("F2-reach", "F2:color_convert", "include/boost/gil/color_convert.hpp", {"calls": [c["callee"]["name"] for c in cs][:6]})))
        if short == "default_color_converter::operator()":
            rep.count("obligations:F2")
            cs = calls_of(f)
            ok = any("default_color_converter_impl::operator()" in c["callee"]["name"] and first_arg_is_param(c, f, 0) and first_arg_is_param(c, f, 1, 1) for c in cs)
            (rep.ok if ok else rep.violation)(*(("F2-reach", "F2:default_color_converter", "dispatches to default_color_converter_impl(src,dst)") if ok else
                                               ("F2-reach", "F2:default_color_converter", "include/boost/gil/color_convert.hpp", {"calls": [c["callee"]["name"] for c in cs][:6]})))
    rep.analysed["converter_impl_bodies"] = n_impl
    rep.floor("obligations:F1", 12)
    rep.floor("obligations:F2", 3)


def first_arg_is_param(call, f, idx, argpos=None):
    """argument `argpos` (default idx) of the call is the function's idx-th parameter (through casts)"""
    from .ast.imgstate import strip
    argpos = idx if argpos is None else argpos
    args = call.get("args", [])
    if call.get("op") == "()":
        args = args[1:]     # operator(): first is the object
    if argpos >= len(args):
        return False
    a = strip(args[argpos])
    return a is not None and a.get("k") == "DeclRef" and a.get("id") == f["params"][idx]["id"]
