// a file cut off in the middle of its pixel data is decoded "successfully": the byte count returned by the raw
// device read in the row loops is discarded (bmp / pnm / targa readers and scanline readers)
#include <boost/gil.hpp>
#include <boost/gil/extension/io/bmp.hpp>
#include <boost/gil/extension/io/pnm.hpp>
#include <boost/gil/extension/io/targa.hpp>
#include <fstream>
#include <iostream>
#include <sstream>
using namespace boost::gil;
template <class Tag> int run(const char* name, Tag tag){
  rgb8_image_t img(16, 16); fill_pixels(view(img), rgb8_pixel_t(200, 100, 50));
  std::stringstream ss(std::ios::in|std::ios::out|std::ios::binary); write_view(ss, const_view(img), tag);
  std::string s = ss.str(); s.resize(s.size() - 16*3*8);       // drop the last 8 rows
  std::string fn = std::string("/tmp/c11demo/t_") + name;
  { std::ofstream f(fn, std::ios::binary); f.write(s.data(), s.size()); }
  int bad = 0;
  try { rgb8_image_t back; read_image(fn, back, tag); std::cout << name << " read_image: returned normally\n"; ++bad; }
  catch (std::exception& e) { std::cout << name << " read_image: exception " << e.what() << "\n"; }
  try {
    using reader_t = scanline_reader<typename get_read_device<std::string, Tag>::type, Tag>;
    reader_t reader = make_scanline_reader(fn, tag);
    std::vector<unsigned char> buf(reader._scanline_length);
    for (int y = 0; y < 16; ++y) reader.read(buf.data(), y);
    std::cout << name << " scanline reader: returned normally\n"; ++bad; }
  catch (std::exception& e) { std::cout << name << " scanline reader: exception " << e.what() << "\n"; }
  return bad;
}
int main(){ int bad = run("bmp", bmp_tag()) + run("pnm", pnm_tag()) + run("targa", targa_tag()); return bad ? 1 : 0; }
