"""Pair obligations decided by D-poly: each obligation is two C++ expressions over the same
parameters that must denote the same value for all inputs. They are emitted as extern "C" wrappers,
compiled to IR, fully inlined, normalised to polynomials and compared."""
import os
from . import common as C
from .ir.poly import PolyInterp, Unsupported, Poly


class Pair:
    def __init__(self, params, lhs, rhs, rule, desc, key, where, ret="iptr", facts=None):
        self.params, self.lhs, self.rhs = params, lhs, rhs
        self.rule, self.desc, self.key, self.where = rule, desc, key, where
        self.ret = ret
        self.facts = facts      # dict atom-name -> (lo,hi) for div/mod rewrites


def run_pairs(rep, pid, pairs, header='#include "vf_common.hpp"\nusing namespace vf;', nchunks=16, keep=(), extra=(), readonly=(), pure=(), call_check=None):
    wd = C.workdir(pid)
    chunks = [pairs[i::nchunks] for i in range(nchunks)]
    chunks = [c for c in chunks if c]
    jobs = []
    for ci, ch in enumerate(chunks):
        L = [header, 'extern "C" {']
        for j, p in enumerate(ch):
            p.ln = "w_%d_%d_l" % (ci, j)
            p.rn = "w_%d_%d_r" % (ci, j)
            L.append("%s %s(%s){ return %s; }" % (p.ret, p.ln, p.params, p.lhs))
            L.append("%s %s(%s){ return %s; }" % (p.ret, p.rn, p.params, p.rhs))
        L.append("}")
        src = os.path.join(wd, "%s_%d.cpp" % (pid.lower(), ci))
        open(src, "w").write("\n".join(L) + "\n")
        jobs.append((ci, src, ch))

    def work(job):
        ci, src, ch = job
        try:
            bc = C.emit_ir(src, src[:-4] + ".bc")
            dump = C.irdump(bc, src[:-4] + ".json", keep=keep, extra=extra)
            return (ch, {f["name"]: f for f in dump["functions"]}, None)
        except C.AnalysisBroken as e:
            return (ch, None, str(e))
    results = C.pmap(work, jobs)
    assumed = set()
    for ch, fns, err in results:
        if err:
            rep.fail_analysis(err)
            continue
        for p in ch:
            rep.count("obligations:" + p.rule)
            try:
                facts = p.facts if callable(p.facts) else ((lambda a, f=p.facts: f.get(a)) if p.facts else None)
                ia = PolyInterp(fns[p.ln], facts=facts, readonly=readonly, pure=pure)
                ra = ia.run()
                ib = PolyInterp(fns[p.rn], facts=facts, readonly=readonly, pure=pure)
                rb = ib.run()
                if call_check:
                    call_check(rep, p, ia, ib)
                assumed |= ia.assumed | ib.assumed
            except (Unsupported, KeyError) as e:
                rep.incon(p.rule, p.desc, "IR not supported: %s" % e)
                continue
            if ra == rb:
                rep.ok(p.rule, p.desc, {"normal_form": repr(ra)[:300]})
            elif has_opaque(ra) or has_opaque(rb):
                rep.incon(p.rule, p.desc, "normal forms contain terms the normaliser cannot compare: %s  VS  %s" % (repr(ra)[:300], repr(rb)[:300]))
            else:
                rep.violation(p.rule, p.key, p.where,
                              {"obligation": p.desc, "lhs": repr(ra)[:1500], "rhs": repr(rb)[:1500],
                               "difference": repr(ra - rb)[:800] if isinstance(ra, Poly) and isinstance(rb, Poly) else None})
    for a in sorted(assumed):
        if a not in rep.assumptions:
            rep.assumptions.append(a)


OPAQUE = ("CALL_", "PARTIAL(", "UNDEF", "RETJOIN", "PHI(", "EXTRACT(", "LP")


def has_opaque(p):
    if not isinstance(p, Poly):
        return True
    return any(any(o in a for o in OPAQUE) for a in p.atoms())
