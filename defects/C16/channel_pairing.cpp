// C16/C15 replay: per-channel processing pairs source and destination channels by position in memory
// g++ -std=c++14 -I/repo/include channel_pairing.cpp && ./a.out
#include <boost/gil.hpp>
#include <boost/gil/image_processing/filter.hpp>
#include <boost/gil/image_processing/threshold.hpp>
#include <boost/gil/image_processing/convolve.hpp>
#include <cstdio>
using namespace boost::gil;
int main()
{
    int bad = 0;
    {
        rgb8_image_t src(1, 1); bgr8_image_t dst(1, 1);
        view(src)(0, 0) = rgb8_pixel_t(10, 20, 30);
        median_filter(const_view(src), view(dst), 1);
        auto p = view(dst)(0, 0);
        std::printf("median_filter rgb8(10,20,30) -> bgr8: red=%d green=%d blue=%d\n", int(get_color(p, red_t())), int(get_color(p, green_t())), int(get_color(p, blue_t())));
        bad += get_color(p, red_t()) != 10;
    }
    {
        rgb8_image_t src(2, 1); bgr8_image_t dst(2, 1);
        view(src)(0, 0) = rgb8_pixel_t(210, 50, 50); view(src)(1, 0) = rgb8_pixel_t(100, 50, 200);
        threshold_optimal(const_view(src), view(dst));
        auto p = view(dst)(0, 0), q = view(dst)(1, 0);
        std::printf("threshold_optimal red 210,100 -> bgr8 red: %d,%d (a binary threshold of the red channel gives 255,0)\n", int(get_color(p, red_t())), int(get_color(q, red_t())));
        bad += !(get_color(p, red_t()) == 255 && get_color(q, red_t()) == 0);
    }
    {
        rgb8_image_t src(1, 1); bgr32f_image_t dst(1, 1);
        view(src)(0, 0) = rgb8_pixel_t(10, 20, 30);
        float one = 1.f;
        detail::kernel_2d<float> identity(&one, 1, 0, 0);
        detail::convolve_2d(const_view(src), identity, view(dst));
        auto p = view(dst)(0, 0);
        std::printf("convolve_2d identity rgb8(10,20,30) -> bgr32f: red=%g green=%g blue=%g\n", float(get_color(p, red_t())), float(get_color(p, green_t())), float(get_color(p, blue_t())));
        bad += float(get_color(p, red_t())) != 10.f;
    }
    return bad;
}
