"""Shared plumbing for the /verif static checks.

Nothing here executes library code: the helpers compile drivers (front end only, or to
LLVM IR), run the two extraction tools (astdump, irdump) and collect their JSON.
"""
import json, os, subprocess, sys, time, shutil, hashlib, re
from concurrent.futures import ThreadPoolExecutor

VERIF = os.path.dirname(os.path.dirname(os.path.abspath(__file__)))
REPO = os.environ.get("VERIF_REPO", "/repo")
INC = os.path.join(REPO, "include")
BUILD = os.path.join(VERIF, "build")
DRIVERS = os.path.join(VERIF, "drivers")
SPEC = os.path.join(VERIF, "spec")
EVID = os.path.join(os.environ["VERIF_SCRATCH"], "evidence") if os.environ.get("VERIF_SCRATCH") else os.path.join(VERIF, "evidence")
ASTDUMP = os.path.join(BUILD, "astdump")
IRDUMP = os.path.join(BUILD, "irdump")
CLANGXX = "clang++"
GXX = "g++"
JOBS = int(os.environ.get("VERIF_JOBS", "16"))

# Flags of the repository's own build that matter for the front end.
BASE_DEFS = ["-DNDEBUG", "-DBOOST_GIL_USE_CONCEPT_CHECK", "-DBOOSTORG_GIL_VERIF"]
BASE_FLAGS = ["-std=c++14", "-I" + INC, "-I" + DRIVERS, "-w"]


class AnalysisBroken(Exception):
    """Raised when the analysis cannot be carried out (exit code 2)."""


def workdir(pid):
    # VERIF_SCRATCH: private work area for development runs that must not disturb a concurrent registered run
    d = os.path.join(os.environ.get("VERIF_SCRATCH") or os.path.join(BUILD, "work"), pid)
    shutil.rmtree(d, ignore_errors=True)
    os.makedirs(d, exist_ok=True)
    return d


def workpath(pid):
    """the work area of pid without wiping it (for the later stages of one check)"""
    d = os.path.join(os.environ.get("VERIF_SCRATCH") or os.path.join(BUILD, "work"), pid)
    os.makedirs(d, exist_ok=True)
    return d


def run(cmd, timeout=1800, cwd=None, input=None):
    p = subprocess.run(cmd, stdout=subprocess.PIPE, stderr=subprocess.PIPE, cwd=cwd,
                       timeout=timeout, input=input)
    return p.returncode, p.stdout.decode("utf-8", "replace"), p.stderr.decode("utf-8", "replace")


def pmap(fn, items, jobs=None):
    with ThreadPoolExecutor(max_workers=jobs or JOBS) as ex:
        return list(ex.map(fn, items))


_err_re = re.compile(r"^(?P<file>[^:\n]+):(?P<line>\d+):(?P<col>\d+): (?:fatal )?error: (?P<msg>.*)$", re.M)


def parse_errors(stderr):
    out = []
    for m in _err_re.finditer(stderr):
        out.append({"file": m.group("file"), "line": int(m.group("line")), "msg": m.group("msg")})
    return out


def first_repo_error(stderr):
    """Return (file:line, message) of the first diagnostic located inside /repo, else first one."""
    errs = parse_errors(stderr)
    for e in errs:
        if e["file"].startswith(REPO):
            return e
    return errs[0] if errs else None


def syntax_only(src, extra=(), compiler=CLANGXX, std=None, error_limit=0, defs=None):
    flags = list(BASE_FLAGS)
    if std:
        flags = [f for f in flags if not f.startswith("-std=")] + ["-std=" + std]
    lim = ["-ferror-limit=%d" % error_limit] if compiler == CLANGXX else ["-fmax-errors=%d" % error_limit]
    cmd = [compiler, "-fsyntax-only"] + flags + (BASE_DEFS if defs is None else list(defs)) + lim + list(extra) + [src]
    rc, out, err = run(cmd)
    return rc, err, cmd


def emit_ir(src, out_bc, extra=(), defs=None):
    """Unoptimised IR without optnone/noinline; irdump runs the inlining pipeline itself."""
    cmd = [CLANGXX, "-O1", "-Xclang", "-disable-llvm-passes", "-ffp-contract=off", "-g",
           "-fno-exceptions" if False else "-fexceptions",
           "-emit-llvm", "-c"] + BASE_FLAGS + (BASE_DEFS if defs is None else list(defs)) + list(extra) + [src, "-o", out_bc]
    rc, out, err = run(cmd)
    if rc != 0:
        e = first_repo_error(err)
        raise AnalysisBroken("driver %s does not compile: %s" % (src, e or err[-2000:]))
    return out_bc


def irdump(bc, out_json, keep=(), roots=None, extra=()):
    cmd = [IRDUMP, bc, "-o", out_json]
    for k in keep:
        cmd += ["--keep", k]
    if roots:
        cmd += ["--roots", roots]
    cmd += list(extra)
    rc, out, err = run(cmd)
    if rc != 0:
        raise AnalysisBroken("irdump failed on %s: %s" % (bc, err[-2000:]))
    with open(out_json) as f:
        return json.load(f)


IO_DEFS = ["-DNDEBUG", "-DBOOSTORG_GIL_VERIF"]      # the I/O tests are built without BOOST_GIL_USE_CONCEPT_CHECK


def astdump(src, out_json, patterns, extra=(), std=None, defs=None):
    flags = list(BASE_FLAGS)
    if std:
        flags = [f for f in flags if not f.startswith("-std=")] + ["-std=" + std]
    cmd = [ASTDUMP, src, "-o", out_json]
    for p in patterns:
        cmd += ["--fn", p]
    cmd += ["--"] + flags + (BASE_DEFS if defs is None else list(defs)) + list(extra) + ["-resource-dir", resource_dir()]
    rc, out, err = run(cmd)
    if rc != 0 or not os.path.exists(out_json):
        e = first_repo_error(err)
        raise AnalysisBroken("astdump failed on %s: %s" % (src, e or err[-2000:]))
    with open(out_json) as f:
        return json.load(f)


_resdir = None


def resource_dir():
    global _resdir
    if _resdir is None:
        rc, out, err = run([CLANGXX, "-print-resource-dir"])
        _resdir = out.strip()
    return _resdir


def need_tools(*tools):
    for t in tools:
        if not os.path.exists(t):
            raise AnalysisBroken("tool %s not built; run MANIFEST.setup_cmd (make -C /verif)" % t)


def repo_rel(path):
    if path and path.startswith(REPO + "/"):
        return path[len(REPO) + 1:]
    return path


# ---------------------------------------------------------------------------------------------
# Result collection


class Report:
    """Collects obligations, violations and analysed items for one property check."""

    def __init__(self, pid, tier):
        self.pid = pid
        self.tier = tier
        self.t0 = time.time()
        self.obligations = 0
        self.discharged = 0
        self.violations = []      # dict(rule, key, where, detail)
        self.broken = []          # strings
        self.samples = []
        self.analysed = {}        # free-form counters
        self.rules = []           # rule texts
        self.trusted = []
        self.assumptions = []
        self.units = []
        self.notes = []
        self.inconclusive = []

    def count(self, name, n=1):
        self.analysed[name] = self.analysed.get(name, 0) + n

    def rule(self, text):
        if text not in self.rules:
            self.rules.append(text)

    def ok(self, rule, what, sample=None):
        self.obligations += 1
        self.discharged += 1
        self.count("rule:" + rule)
        if sample is not None and len([s for s in self.samples if s.get("rule") == rule]) < 3:
            self.samples.append({"rule": rule, "obligation": what, "result": "holds", "detail": sample})

    def violation(self, rule, key, where, detail):
        """key: stable construct key (no line numbers); where: file:line for the reader."""
        self.obligations += 1
        self.count("rule:" + rule)
        self.violations.append({"rule": rule, "key": key, "where": where, "detail": detail})

    def incon(self, rule, what, detail=""):
        self.inconclusive.append({"rule": rule, "what": what, "detail": detail})

    def fail_analysis(self, msg):
        self.broken.append(msg)

    def floor(self, name, minimum):
        got = self.analysed.get(name, 0)
        if got < minimum:
            self.fail_analysis("floor: %s matched %d instance(s), expected at least %d "
                               "(anchor vanished or rule no longer matches)" % (name, got, minimum))


def load_known(pid):
    path = os.path.join(VERIF, "known_findings.json")
    if not os.path.exists(path):
        return [], []
    with open(path) as f:
        data = json.load(f)
    known = [k for k in data.get("known", []) if k["property"] == pid]
    fixed = [k for k in data.get("fixed", []) if k["property"] == pid]
    return known, fixed


def finish(rep, level, explanation, checker_cmd):
    """Writes evidence, prints verdict lines, returns the exit code."""
    os.makedirs(EVID, exist_ok=True)
    known, fixed = load_known(rep.pid)
    unlisted, listed = [], []
    seen_keys = set()
    for v in rep.violations:
        if (v["rule"], v["key"]) in seen_keys:
            continue
        seen_keys.add((v["rule"], v["key"]))
        hit = None
        for k in known:
            if k["rule"] == v["rule"] and k["key"] == v["key"]:
                hit = k
                break
        (listed if hit else unlisted).append((v, hit))
    wall = time.time() - rep.t0
    exit_code = 0
    if rep.inconclusive:
        # modules with a frozen table of clauses outside their claim remove those before this point
        # (accept_inconclusive); whatever is left is an obligation nobody decided: never a pass
        rep.broken.append("%d obligation(s) could not be decided (first: %s %s)" % (len(rep.inconclusive), rep.inconclusive[0]["rule"], rep.inconclusive[0]["what"]))
    if rep.broken:
        exit_code = 2
    if unlisted:
        exit_code = 1
    # replay files
    replay_dir = os.path.join(os.environ.get("VERIF_SCRATCH") or BUILD, "replay")
    os.makedirs(replay_dir, exist_ok=True)
    for old in os.listdir(replay_dir):
        if old.startswith(rep.pid + "_"):
            os.unlink(os.path.join(replay_dir, old))
    for v, _ in listed:
        print("KNOWN-FINDING: property=%s rule=%s %s at %s" % (rep.pid, v["rule"], v["key"], v["where"]))
    for i, (v, _) in enumerate(unlisted):
        rp = os.path.join(replay_dir, "%s_%d.json" % (rep.pid, i))
        with open(rp, "w") as f:
            json.dump(v, f, indent=1)
        if i == 40:
            print("... %d further violations not printed (all are in evidence/%s.json and %s)" % (len(unlisted) - 40, rep.pid, replay_dir))
        if i >= 40:
            continue
        print("VIOLATION property=%s replay=%s" % (rep.pid, rp))
        print("  rule=%s construct=%s at %s\n  %s" % (v["rule"], v["key"], v["where"],
                                                      json.dumps(v["detail"])[:1500]))
    for b in rep.broken:
        print("ANALYSIS-BROKEN property=%s %s" % (rep.pid, b))
    for b in rep.inconclusive[:20]:
        print("inconclusive: %s %s %s" % (b["rule"], b["what"], b["detail"]))
    ev_level = level
    if level == "proof" and (rep.discharged != rep.obligations or rep.broken):
        ev_level = "other"
    cov = {
        "obligations": rep.obligations,
        "discharged": rep.discharged,
        "checker_cmd": checker_cmd,
        "trusted_base": rep.trusted,
        "explanation": explanation,
        "rule": " | ".join(rep.rules),
        "rules": rep.rules,
        "evaluations": max(rep.obligations, 1),
        "distinct_nontrivial": rep.obligations,
        "samples": rep.samples[:40] if rep.samples else [{"note": "no obligations generated"}],
        "analysed": rep.analysed,
        "translation_units": rep.units,
        "known_findings_reported": [{"rule": v["rule"], "key": v["key"], "where": v["where"]} for v, _ in listed],
        "unlisted_violations": [{"rule": v["rule"], "key": v["key"], "where": v["where"]} for v, _ in unlisted],
        "inconclusive": rep.inconclusive[:50],
        "analysis_broken": rep.broken,
        "notes": rep.notes,
        "repo_head": repo_head(),
    }
    ev = {
        "property_id": rep.pid,
        "tier": rep.tier,
        "seed": int(os.environ.get("VERIF_SEED", "0") or 0),
        "level": ev_level,
        "coverage": cov,
        "assumptions": rep.assumptions,
        "wall_s": round(wall, 2),
        "violations": len(unlisted),
    }
    with open(os.path.join(EVID, rep.pid + ".json"), "w") as f:
        json.dump(ev, f, indent=1)
    print("%s: tier=%s obligations=%d discharged=%d known-findings=%d violations=%d broken=%d wall=%.1fs"
          % (rep.pid, rep.tier, rep.obligations, rep.discharged, len(listed), len(unlisted),
             len(rep.broken), wall))
    return exit_code


def repo_head():
    rc, out, err = run(["git", "-C", REPO, "rev-parse", "--short", "HEAD"])
    rc2, out2, _ = run(["git", "-C", REPO, "status", "--porcelain", "--untracked-files=no"])
    return out.strip() + ("+dirty" if out2.strip() else "")
