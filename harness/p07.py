"""C07 channel_multiply / channel_invert: abstract interpretation of the inlined IR per channel model."""
import os
from fractions import Fraction as Fr
from . import common as C
from .chanmodels import models, Chan
from .ir.num import NumInterp, Unsupported
from .p06 import inner_fn, in_range, norm_ret, accept_inconclusive

LEVEL = "proof"
EXPLANATION = ("Static analysis: the inlined LLVM IR of channel_multiply and channel_invert for every provided channel "
               "model is abstractly interpreted (interval, monotonicity, affine form with a product symbol). Decided: no "
               "wrap / lossy narrowing / out-of-range float->int, result inside the channel range, channel_invert == "
               "max - x + min exactly (hence involution), multiply within one unit of a*b/max, symmetric in its arguments "
               "(the result is a function of the product symbol only), monotone in each argument, minimum annihilates "
               "(constant propagation). Not decided: exactness of the maximum as identity (the div255 bound is 0.502).")


CUSTOM_HDR = [
    "namespace vfc {",
    "struct f_lo { static float apply() { return -0.5f; } }; struct f_hi { static float apply() { return 0.5f; } };",
    "struct v_lo { static std::uint8_t apply() { return 16; } }; struct v_hi { static std::uint8_t apply() { return 235; } };",
    "struct s_lo { static std::int16_t apply() { return -1024; } }; struct s_hi { static std::int16_t apply() { return 3071; } };",
    "using fpm_t = boost::gil::scoped_channel_value<float, f_lo, f_hi>;",
    "using video8_t = boost::gil::scoped_channel_value<std::uint8_t, v_lo, v_hi>;",
    "using ct16_t = boost::gil::scoped_channel_value<std::int16_t, s_lo, s_hi>;",
    "}"]


def custom_models():
    """channel models with a range minimum that is neither 0 nor the type's own minimum (scoped_channel_value with user limits):
    only channel_invert is stated for them"""
    return [Chan("cfpm", "vfc::fpm_t", "float", "float", 32, -0.5, 0.5, integral=False),
            Chan("cvid", "vfc::video8_t", "uint8_t", "int", 8, 16, 235),
            Chan("cct", "vfc::ct16_t", "int16_t", "int", 16, -1024, 3071, signed=True)]


def gen_driver(chans, path):
    L = ['#include <boost/gil.hpp>', 'using namespace boost::gil;'] + CUSTOM_HDR + ['extern "C" {']
    for c in custom_models():
        L.append('%s w_inv_%s(%s x){ return (%s)channel_invert(%s); }' % (c.raw, c.tag, c.raw, c.raw, c.make("x")))
        L.append('%s w_inv2_%s(%s x){ return (%s)channel_invert(channel_invert(%s)); }' % (c.raw, c.tag, c.raw, c.raw, c.make("x")))
    for c in chans:
        L.append('%s w_mul_%s(%s a, %s b){ return (%s)channel_multiply(%s, %s); }' % (c.raw, c.tag, c.raw, c.raw, c.raw, c.make("a"), c.make("b")))
        L.append('%s w_mulsw_%s(%s a, %s b){ return (%s)channel_multiply(%s, %s); }' % (c.raw, c.tag, c.raw, c.raw, c.raw, c.make("b"), c.make("a")))
        L.append('%s w_inv_%s(%s x){ return (%s)channel_invert(%s); }' % (c.raw, c.tag, c.raw, c.raw, c.make("x")))
        L.append('%s w_inv2_%s(%s x){ return (%s)channel_invert(channel_invert(%s)); }' % (c.raw, c.tag, c.raw, c.raw, c.make("x")))
    L.append('}')
    open(path, "w").write("\n".join(L) + "\n")


def events(rep, it, what):
    seen = set()
    for ev in it.final_events():
        fnname, where = inner_fn(ev)
        key = "%s:%s:%s" % (what, ev.kind, fnname)
        if (key, ev.status, ev.detail) in seen:
            continue
        seen.add((key, ev.status, ev.detail))
        if ev.status == "proved":
            rep.ok("R1-" + ev.kind, key, ev.detail)
        elif ev.status == "refuted":
            rep.violation("R1-" + ev.kind, key, where, {"detail": ev.detail, "witness": ev.witness})
        else:
            rep.incon("R1-" + ev.kind, key, ev.detail + " at " + where)


def run(rep):
    C.need_tools(C.IRDUMP)
    wd = C.workdir("C07")
    chans = models(rep.tier)
    src = os.path.join(wd, "c07_driver.cpp")
    gen_driver(chans, src)
    bc = C.emit_ir(src, os.path.join(wd, "c07.bc"))
    dump = C.irdump(bc, os.path.join(wd, "c07.json"))
    fns = {f["name"]: f for f in dump["functions"]}
    rep.units.append("generated driver: channel_multiply/channel_invert over %d channel models" % len(chans))
    rep.trusted += ["clang 14 front end and LLVM inliner/SROA/mem2reg", "transfer functions of harness/ir/num.py",
                    "documented channel ranges in harness/chanmodels.py"]
    rep.assumptions += ["arguments lie in the channel's documented range"]
    rep.rule("R1 every narrowing/fp->int/add/sub/mul in the inlined code is lossless; divisors non-zero")
    rep.rule("R2 result inside the channel range")
    rep.rule("R3 channel_invert(x) has affine form -x + (max+min) with zero error; invert(invert(x)) has form x")
    rep.rule("R4 |channel_multiply(a,b) - (a-min)(b-min)/(max-min) - min| < 1 unit (integral) or < 2^-20 (float)")
    rep.rule("R5 channel_multiply is a function of the symmetric product symbol only (commutative), monotone in each argument")
    rep.rule("R6 channel_multiply(a, min) == min by constant propagation")
    rep.rule("R7 channel_multiply(max,max)==max, (max,min)==min, (min,max)==min by constant propagation")
    rep.rule("R8 exact laws of integral channels: commutativity is proved when multiply(a,b) and multiply(b,a) have the same polynomial normal form; "
             "otherwise, and for `max is the identity`, a refutation needs a witness (operand pair found by constant propagation through the same IR); "
             "no witness = not decided (never a pass)")
    customs = custom_models()
    for c in chans + customs:
        rep.count("models")
        T = c.cxx
        # ---- invert
        for nm, want_c, want_e in (("w_inv_" + c.tag, Fr(-1), Fr(c.hi) + Fr(c.lo)), ("w_inv2_" + c.tag, Fr(1), Fr(0))):
            what = "channel_invert<%s>%s" % (T, "^2" if "inv2" in nm else "")
            try:
                it = NumInterp(fns[nm], {"a0": in_range(c)})
                ret = norm_ret(it, it.run(), c)
            except (Unsupported, KeyError) as e:
                rep.fail_analysis("%s: %s" % (what, e))
                continue
            events(rep, it, what)
            if ret is None or ret.top:
                rep.incon("R2-range", what + ":range", "unknown")
            elif ret.lo >= c.lo and ret.hi <= c.hi:
                rep.ok("R2-range", what + ":range", "[%s,%s]" % (ret.lo, ret.hi))
            elif (ret.hi > c.hi and ret.hi_w) or (ret.lo < c.lo and ret.lo_w):
                rep.violation("R2-range", what + ":range", "channel_algorithm.hpp", {"result": [str(ret.lo), str(ret.hi)]})
            else:
                rep.incon("R2-range", what + ":range", "[%s,%s]" % (ret.lo, ret.hi))
            key = what + ":form"
            if ret is not None and ret.aff is not None:
                tol = Fr(0) if c.integral else Fr(1, 1 << 20)
                if ret.aff.get("a0", Fr(0)) == want_c and set(ret.aff) <= {"a0"} and abs(ret.elo - want_e) <= tol and abs(ret.ehi - want_e) <= tol:
                    rep.ok("R3-invert-form", key, "%s*x + [%s,%s]" % (want_c, ret.elo, ret.ehi))
                else:
                    rep.violation("R3-invert-form", key, "include/boost/gil/channel_algorithm.hpp (channel_invert)",
                                  {"expected": "%s*x + %s" % (want_c, want_e), "got": "%s + [%s,%s]" % ({k: str(v) for k, v in ret.aff.items()}, ret.elo, ret.ehi)})
            else:
                rep.incon("R3-invert-form", key, "no affine form")
        if c in customs:
            continue        # multiply is not defined for user-limited ranges beyond the generic formula; only invert is stated
        # ---- multiply
        what = "channel_multiply<%s>" % T
        try:
            it = NumInterp(fns["w_mul_" + c.tag], {"a0": in_range(c), "a1": in_range(c)})
            ret = norm_ret(it, it.run(), c)
        except (Unsupported, KeyError) as e:
            rep.fail_analysis("%s: %s" % (what, e))
            continue
        events(rep, it, what)
        if ret is None or ret.top:
            rep.incon("R2-range", what + ":range", "unknown")
        elif ret.lo >= c.lo and ret.hi <= c.hi:
            rep.ok("R2-range", what + ":range", "[%s,%s]" % (ret.lo, ret.hi))
        elif (ret.hi > c.hi and ret.hi_w) or (ret.lo < c.lo and ret.lo_w):
            rep.violation("R2-range", what + ":range", "channel_algorithm.hpp", {"result": [str(ret.lo), str(ret.hi)], "witness": ret.hi_w if ret.hi > c.hi else ret.lo_w})
        else:
            rep.incon("R2-range", what + ":range", "[%s,%s]" % (ret.lo, ret.hi))
        # monotone
        for a in ("a0", "a1"):
            if ret is not None and ret.mono.get(a) in ("+", "="):
                rep.ok("R5-monotone", what + ":monotone:" + a, ret.mono.get(a))
            else:
                rep.incon("R5-monotone", what + ":monotone:" + a, "not established")
        # form: result = k*P + lin + e with P the product symbol. For signed channels the shift to unsigned
        # makes the form k*(a+o)(b+o) - o; expand (a+o)(b+o) = ab + o a + o b + o^2.
        key = what + ":form"
        if ret is not None and ret.aff is not None:
            rng = Fr(c.hi) - Fr(c.lo)
            o = -Fr(c.lo)
            want = {"a0*a1": 1 / rng}
            if o != 0:
                want["a0"] = o / rng
                want["a1"] = o / rng
            wconst = o * o / rng - o
            # error = sum (got-want)*sym range + e - wconst
            lo = ret.elo - wconst
            hi = ret.ehi - wconst
            ok = True
            for k in set(want) | set(ret.aff):
                dcoef = ret.aff.get(k, Fr(0)) - want.get(k, Fr(0))
                if k == "a0*a1":
                    cands = [Fr(x) * Fr(y) for x in (c.lo, c.hi) for y in (c.lo, c.hi)]
                    r = (min(cands), max(cands))
                    if c.lo < 0:
                        r = (min(r[0], Fr(0)), r[1])
                elif k in ("a0", "a1"):
                    r = (Fr(c.lo), Fr(c.hi))
                else:
                    ok = False
                    break
                lo += min(dcoef * r[0], dcoef * r[1])
                hi += max(dcoef * r[0], dcoef * r[1])
            sym = ret.aff.get("a0", Fr(0)) == ret.aff.get("a1", Fr(0))
            tol = Fr(1) + Fr(1, 1 << 16) if c.integral else Fr(1, 1 << 20)
            if ok and -tol < lo and hi < tol:
                rep.ok("R4-mul-error", key, "error in [%s,%s]" % (float(lo), float(hi)))
            else:
                rep.incon("R4-mul-error", key, "error interval [%s,%s]" % (float(lo) if ok else "?", float(hi) if ok else "?"))
            if ok and sym:
                rep.ok("R5-symmetric", what + ":symmetric", "form %s" % {k: float(v) for k, v in ret.aff.items()})
            else:
                rep.incon("R5-symmetric", what + ":symmetric", "form %s" % {k: float(v) for k, v in ret.aff.items()})
        else:
            rep.incon("R4-mul-error", key, "no affine form")
            rep.incon("R5-symmetric", what + ":symmetric", "no affine form")
        if c.integral:
            exact_laws(rep, fns, c, what)
        # annihilator
        for a, other in (("a0", "a1"), ("a1", "a0")):
            key = what + ":annihilator:" + a
            try:
                it2 = NumInterp(fns["w_mul_" + c.tag], {a: (c.kind, c.bits, c.lo, c.lo), other: in_range(c)})
                r = norm_ret(it2, it2.run(), c)
            except Unsupported as e:
                rep.incon("R6-annihilator", key, str(e))
                continue
            if r is not None and not r.top and r.is_const() and r.lo == c.lo:
                rep.ok("R6-annihilator", key, "== %s" % c.lo)
            elif r is not None and not r.top and r.is_const():
                rep.violation("R6-annihilator", key, "channel_algorithm.hpp", {"got": str(r.lo), "expected": str(c.lo)})
            else:
                rep.incon("R6-annihilator", key, "result %r" % (r,))
        # corners: necessary conditions of "max is the identity" at the documented end points
        for x, y, want in ((c.hi, c.hi, c.hi), (c.hi, c.lo, c.lo), (c.lo, c.hi, c.lo)):
            key = what + ":corner(%s,%s)" % ("max" if x == c.hi else "min", "max" if y == c.hi else "min")
            try:
                it2 = NumInterp(fns["w_mul_" + c.tag], {"a0": (c.kind, c.bits, x, x), "a1": (c.kind, c.bits, y, y)})
                r = norm_ret(it2, it2.run(), c)
            except Unsupported as e:
                rep.incon("R7-corner", key, str(e))
                continue
            if r is not None and not r.top and r.is_const() and r.lo == want:
                rep.ok("R7-corner", key, "== %s" % want)
            elif r is not None and not r.top and r.is_const():
                rep.violation("R7-corner", key, "include/boost/gil/channel_algorithm.hpp (channel_multiplier_unsigned)",
                              {"inputs": [str(x), str(y)], "got": str(r.lo), "expected": str(want)})
            else:
                rep.incon("R7-corner", key, "result %r" % (r,))
    rep.floor("models", len(chans) + len(customs))
    accept_inconclusive(rep, "c07_inconclusive.json")


def exact_laws(rep, fns, c, what):
    """R8 for an integral channel model"""
    import itertools, random
    from .ir.poly import PolyInterp, Unsupported as PU
    fn, fsw = fns["w_mul_" + c.tag], fns["w_mulsw_" + c.tag]

    def val(a, b, f=None):
        it = NumInterp(f or fn, {"a0": (c.kind, c.bits, a, a), "a1": (c.kind, c.bits, b, b)})
        r = norm_ret(it, it.run(), c)
        return r.lo if (r is not None and not r.top and r.is_const()) else None
    # ---- commutativity
    key = what + ":commutative (exact)"
    proved = False
    try:
        proved = PolyInterp(fn).run() == PolyInterp(fsw).run()
    except (PU, KeyError, Exception):
        proved = False
    if proved:
        rep.ok("R8-commutative", key, "multiply(a,b) and multiply(b,a) have one normal form")
    else:
        span = c.hi - c.lo + 1
        if span <= 256:
            pairs = ((a, b) for a in range(c.lo, c.hi + 1) for b in range(a + 1, c.hi + 1))
        else:
            rnd = random.Random(7)
            step = max(1, span // 97)
            grid = list(range(c.lo, c.hi + 1, step)) + [c.hi, c.hi - 1, c.lo + 1]
            # products that are exact multiples of the maximum are where a double-rounded quotient lands on either side of an integer:
            # max = 2^n - 1 = (2^(n/2) + 1)(2^(n/2) - 1), so a multiple of one factor times a multiple of the other is such a product
            nb = (c.hi - c.lo).bit_length()
            structured = []
            if nb % 2 == 0 and (1 << nb) - 1 == c.hi - c.lo:
                f1, f2 = (1 << (nb // 2)) + 1, (1 << (nb // 2)) - 1
                structured = [(c.lo + i * f1, c.lo + j * f2) for i in range(1, 40) for j in range(1, 200) if i * f1 <= c.hi - c.lo and j * f2 <= c.hi - c.lo]
            pairs = itertools.chain(structured, ((a, b) for a in grid for b in grid if a < b),
                                    ((rnd.randint(c.lo, c.hi), rnd.randint(c.lo, c.hi)) for _ in range(20000)))
        wit = None
        for a, b in pairs:
            x, y = val(a, b), val(b, a)
            if x is not None and y is not None and x != y:
                wit = {"a": a, "b": b, "multiply(a,b)": x, "multiply(b,a)": y}
                break
        if wit:
            rep.violation("R8-commutative", key, "include/boost/gil/channel_algorithm.hpp (channel_multiplier_unsigned)",
                          {"witness": wit, "problem": "the generic multiplier computes a / double(max) * b: the two roundings depend on the operand order, the truncated results differ for this pair"})
        else:
            rep.incon("R8-commutative", key, "normal forms differ (floating-point path); no witness found")
    # ---- max is the identity
    key = what + ":max is the identity"
    span = c.hi - c.lo + 1
    if span <= (65536 if rep.tier == "thorough" else 4096):
        cand = range(c.lo, c.hi + 1)
    else:
        rnd = random.Random(11)
        cand = list(range(c.lo, c.lo + 2048)) + list(range(c.hi - 2048, c.hi + 1)) + [rnd.randint(c.lo, c.hi) for _ in range(20000)]
    wit = None
    for a in cand:
        for args in ((a, c.hi),):
            x = val(*args)
            if x is not None and x != a:
                wit = {"a": a, "multiply(a,max)": x}
                break
        if wit:
            break
    if wit:
        rep.violation("R8-identity", key, "include/boost/gil/channel_algorithm.hpp", {"witness": wit, "problem": "the channel maximum is not the identity of channel_multiply for this operand"})
    else:
        rep.incon("R8-identity", key, "no abstract proof of multiply(a,max) == a; no refuting operand found")
