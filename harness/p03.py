"""C03 navigation paths: all 2-D access paths of a view denote the same cell; polynomial iterator laws;
mirrored ordering operators; is_1d_traversable -- D-poly over inlined IR."""
import os
from . import common as C
from .pairs import Pair, run_pairs
from .p02 import KINDS_ALL, NPROBE

LEVEL = "proof"
EXPLANATION = ("Static analysis: for every memory-based (and virtual) view kind the cell reached by each navigation "
               "path (view(point), row_begin(y)[x], x_at, col_begin(x)[y], y_at, xy_at, locator + offset, locator(dx,dy), "
               "locator[point], cached location, axis iterators, in-place locator moves) is normalised to a polynomial over "
               "the view's fields and coordinates and must equal that of view(x,y) (+ offset). Polynomial random-access laws "
               "((it+n)+m, (it+n)-it, --(++it)), the four ordering operators of iterators being mutually mirrored, and "
               "is_1d_traversable <=> row bytes == width*pixel step are decided the same way. Not decided: row carry of the "
               "1-D iterator for arbitrary offsets, bit-offset carries of bit-aligned iterators as values, reverse iterators.")

QUICK = ["k_inter", "k_planar", "k_planar16", "k_xystep", "k_pT", "k_packed", "k_bits7", "k_nth", "k_deref", "k_derefs", "k_virt"]
W = "include/boost/gil/"
P2 = "std::ptrdiff_t x, std::ptrdiff_t y, std::ptrdiff_t dx, std::ptrdiff_t dy, std::ptrdiff_t n, std::ptrdiff_t m"


def run(rep):
    C.need_tools(C.IRDUMP)
    kinds = KINDS_ALL if rep.tier == "thorough" else QUICK
    pairs = []
    for k in kinds:
        par = "%s const& v, %s" % (k, P2)
        np = NPROBE.get(k, 1)
        for c in range(np):
            ref = "probe_at<%d>(v, x, y)" % c
            refd = "probe_at<%d>(v, x + dx, y + dy)" % c

            def add(rule, name, lhs, rhs, where):
                pairs.append(Pair(par, lhs, rhs, rule, "%s on %s [ch%d]" % (name, k, c), "%s:%s:%s" % (rule, name, k), W + where))
            P = "probe<%d>" % c
            add("path", "view(point)", "%s(v(point_t(x, y)))" % P, ref, "image_view.hpp")
            add("path", "row_begin(y)[x]", "%s(v.row_begin(y)[x])" % P, ref, "image_view.hpp")
            add("path", "*x_at(x,y)", "%s(*v.x_at(x, y))" % P, ref, "image_view.hpp")
            add("path", "*x_at(point)", "%s(*v.x_at(point_t(x, y)))" % P, ref, "image_view.hpp")
            add("path", "col_begin(x)[y]", "%s(v.col_begin(x)[y])" % P, ref, "image_view.hpp")
            add("path", "*y_at(x,y)", "%s(*v.y_at(x, y))" % P, ref, "image_view.hpp")
            add("path", "*xy_at(x,y)", "%s(*v.xy_at(x, y))" % P, ref, "image_view.hpp")
            add("path", "row_end(y)[-1]", "%s(v.row_end(y)[-1])" % P, "probe_at<%d>(v, v.width() - 1, y)" % c, "image_view.hpp")
            add("path", "col_end(x)[-1]", "%s(v.col_end(x)[-1])" % P, "probe_at<%d>(v, x, v.height() - 1)" % c, "image_view.hpp")
            add("path", "pixels()", "%s(*v.pixels())" % P, "probe_at<%d>(v, 0, 0)" % c, "image_view.hpp")
            add("locator", "*(loc + point)", "%s(*(v.xy_at(x, y) + point_t(dx, dy)))" % P, refd, "locator.hpp")
            add("locator", "*(loc - point)", "%s(*(v.xy_at(x + dx, y + dy) - point_t(dx, dy)))" % P, ref, "locator.hpp")
            add("locator", "loc(dx,dy)", "%s(v.xy_at(x, y)(dx, dy))" % P, refd, "locator.hpp")
            add("locator", "loc[point]", "%s(v.xy_at(x, y)[point_t(dx, dy)])" % P, refd, "locator.hpp")
            add("locator", "loc.x()[dx]", "%s(v.xy_at(x, y).x()[dx])" % P, "probe_at<%d>(v, x + dx, y)" % c, "locator.hpp")
            add("locator", "loc.y()[dy]", "%s(v.xy_at(x, y).y()[dy])" % P, "probe_at<%d>(v, x, y + dy)" % c, "locator.hpp")
            add("locator", "*loc.x_at(dx,dy)", "%s(*v.xy_at(x, y).x_at(dx, dy))" % P, refd, "locator.hpp")
            add("locator", "*loc.y_at(dx,dy)", "%s(*v.xy_at(x, y).y_at(dx, dy))" % P, refd, "locator.hpp")
            add("locator", "*loc.xy_at(dx,dy)", "%s(*v.xy_at(x, y).xy_at(dx, dy))" % P, refd, "locator.hpp")
            add("locator", "axis_iterator<0>[dx]", "%s(v.xy_at(x, y).template axis_iterator<0>()[dx])" % P, "probe_at<%d>(v, x + dx, y)" % c, "locator.hpp")
            add("locator", "axis_iterator<1>[dy]", "%s(v.xy_at(x, y).template axis_iterator<1>()[dy])" % P, "probe_at<%d>(v, x, y + dy)" % c, "locator.hpp")
            add("locator", "loc+=point", "[&]{ auto l = v.xy_at(x, y); l += point_t(dx, dy); return %s(*l); }()" % P, refd, "locator.hpp")
            add("locator", "loc-=point", "[&]{ auto l = v.xy_at(x + dx, y + dy); l -= point_t(dx, dy); return %s(*l); }()" % P, ref, "locator.hpp")
            add("locator", "x()+=dx;y()+=dy", "[&]{ auto l = v.xy_at(x, y); l.x() += dx; l.y() += dy; return %s(*l); }()" % P, refd, "locator.hpp")
            add("locator", "++x;++y;--x;--y", "[&]{ auto l = v.xy_at(x, y); ++l.x(); ++l.y(); --l.x(); --l.y(); return %s(*l); }()" % P, ref, "locator.hpp")
            add("locator", "++x()", "[&]{ auto l = v.xy_at(x, y); ++l.x(); return %s(*l); }()" % P, "probe_at<%d>(v, x + 1, y)" % c, "locator.hpp")
            add("locator", "--y()", "[&]{ auto l = v.xy_at(x, y); --l.y(); return %s(*l); }()" % P, "probe_at<%d>(v, x, y - 1)" % c, "locator.hpp")
            if k != "k_virt":
                add("locator", "loc[cache_location(dx,dy)]", "[&]{ auto l = v.xy_at(x, y); return %s(l[l.cache_location(dx, dy)]); }()" % P, refd, "locator.hpp")
                add("locator", "loc[cache_location(point)]", "[&]{ auto l = v.xy_at(x, y); return %s(l[l.cache_location(point_t(dx, dy))]); }()" % P, refd, "locator.hpp")
                add("locator", "cached location is position independent", "[&]{ auto l = v.xy_at(x, y); auto cl = l.cache_location(dx, dy); l += point_t(n, m); return %s(l[cl]); }()" % P,
                    "probe_at<%d>(v, x + n + dx, y + m + dy)" % c, "locator.hpp")
            # iterator laws (x and y iterators)
            add("iter-law", "(xit+n)+m == xit+(n+m)", "%s(*((v.x_at(x, y) + n) + m))" % P, "%s(*(v.x_at(x, y) + (n + m)))" % P, "step_iterator.hpp")
            add("iter-law", "(yit+n)+m == yit+(n+m)", "%s(*((v.y_at(x, y) + n) + m))" % P, "%s(*(v.y_at(x, y) + (n + m)))" % P, "step_iterator.hpp")
            add("iter-law", "xit+n == x_at(x+n)", "%s(*(v.x_at(x, y) + n))" % P, "probe_at<%d>(v, x + n, y)" % c, "step_iterator.hpp")
            add("iter-law", "yit+n == y_at(y+n)", "%s(*(v.y_at(x, y) + n))" % P, "probe_at<%d>(v, x, y + n)" % c, "step_iterator.hpp")
            add("iter-law", "xit-n", "%s(*(v.x_at(x, y) - n))" % P, "probe_at<%d>(v, x - n, y)" % c, "step_iterator.hpp")
            add("iter-law", "--(++xit) == xit", "[&]{ auto it = v.x_at(x, y); ++it; --it; return %s(*it); }()" % P, ref, "step_iterator.hpp")
            add("iter-law", "--(++yit) == yit", "[&]{ auto it = v.y_at(x, y); ++it; --it; return %s(*it); }()" % P, ref, "step_iterator.hpp")
            add("iter-law", "xit++ / xit--", "[&]{ auto it = v.x_at(x, y); it++; it++; it--; return %s(*it); }()" % P, "probe_at<%d>(v, x + 1, y)" % c, "step_iterator.hpp")
            add("iter-law", "xit[n]", "%s(v.x_at(x, y)[n])" % P, "probe_at<%d>(v, x + n, y)" % c, "step_iterator.hpp")
        # value-level laws once per kind
        par = "%s const& v, %s" % (k, P2)

        def addv(rule, name, lhs, rhs, where):
            pairs.append(Pair(par, lhs, rhs, rule, "%s on %s" % (name, k), "%s:%s:%s" % (rule, name, k), W + where))
        # (for the bit-aligned kinds the distance is floor arithmetic on bit offsets: 8*(q2-q1) + r2 - r1 with q, r the
        # quotient and remainder of the advanced offset by 8, which D-poly folds back with its quotient atoms)
        addv("iter-law", "(xit+n)-xit == n", "(iptr)((v.x_at(x, y) + n) - v.x_at(x, y))", "(iptr)n", "step_iterator.hpp")
        addv("iter-law", "(yit+n)-yit == n", "(iptr)((v.y_at(x, y) + n) - v.y_at(x, y))", "(iptr)n", "step_iterator.hpp")
        # mirrored ordering operators
        for it in ("x_at", "y_at"):
            a, b = "v.%s(x, y)" % it, "v.%s(dx, dy)" % it
            addv("order", "%s: (a<b) == (b>a)" % it, "(iptr)(%s < %s)" % (a, b), "(iptr)(%s > %s)" % (b, a), "step_iterator.hpp")
            addv("order", "%s: (a<=b) == !(a>b)" % it, "(iptr)(%s <= %s)" % (a, b), "(iptr)!(%s > %s)" % (a, b), "step_iterator.hpp")
            addv("order", "%s: (a>=b) == !(a<b)" % it, "(iptr)(%s >= %s)" % (a, b), "(iptr)!(%s < %s)" % (a, b), "step_iterator.hpp")
            addv("order", "%s: (a<=b) == (b>=a)" % it, "(iptr)(%s <= %s)" % (a, b), "(iptr)(%s >= %s)" % (b, a), "step_iterator.hpp")
            addv("order", "%s: (a!=b) == !(a==b)" % it, "(iptr)(%s != %s)" % (a, b), "(iptr)!(%s == %s)" % (a, b), "step_iterator.hpp")
        if k not in ("k_virt",):
            addv("1d", "is_1d_traversable <=> row == width*step",
                 "(iptr)v.is_1d_traversable()",
                 "(iptr)(v.pixels().row_size() - v.pixels().pixel_size() * v.width() == 0)", "locator.hpp")
    # ordering tied to direction of travel: it < it+n for n>0, for positive and for negative steps
    BIG = 1 << 40
    for sign, fs in (("step>0", (1, BIG)), ("step<0", (-BIG, -1))):
        for T, nm in (("rgb8_pixel_t*", "interleaved"), ("rgb8_planar_ptr_t", "planar")):
            par = "%s p, std::ptrdiff_t s, std::ptrdiff_t n" % ("rgb8_pixel_t*" if nm == "interleaved" else "rgb8_planar_ptr_t const&")
            mk = "memory_based_step_iterator<%s>(p, s)" % T
            facts = {"a1": fs, "a2": (1, BIG)}
            for name, e, want in (("it < it+n", "%s < %s + n" % (mk, mk), 1), ("it+n > it", "%s + n > %s" % (mk, mk), 1),
                                  ("it <= it+n", "%s <= %s + n" % (mk, mk), 1), ("it+n >= it", "%s + n >= %s" % (mk, mk), 1),
                                  ("!(it+n < it)", "%s + n < %s" % (mk, mk), 0), ("!(it > it+n)", "%s > %s + n" % (mk, mk), 0),
                                  ("it <= it", "%s <= %s" % (mk, mk), 1), ("!(it < it)", "%s < %s" % (mk, mk), 0)):
                pairs.append(Pair(par, "(iptr)(%s)" % e, "(iptr)%d" % want, "order-dir", "%s (%s, %s, n>0)" % (name, nm, sign),
                                  "order-dir:%s:%s:%s" % (name, nm, sign), W + "step_iterator.hpp", facts=facts))
    # the same for a step iterator over a step iterator (column iterators of x-flipped views, x iterators of transposed
    # flipped views): the inner direction must not leak into the outer ordering
    for osign, ofs in (("outer step>0", (1, BIG)), ("outer step<0", (-BIG, -1))):
        for isign, ifs in (("inner step>0", (1, BIG)), ("inner step<0", (-BIG, -1))):
            par = "rgb8_pixel_t* p, std::ptrdiff_t si, std::ptrdiff_t s, std::ptrdiff_t n"
            mk = "memory_based_step_iterator<memory_based_step_iterator<rgb8_pixel_t*>>(memory_based_step_iterator<rgb8_pixel_t*>(p, si), s)"
            facts = {"a1": ifs, "a2": ofs, "a3": (1, BIG)}
            for name, e, want in (("it < it+n", "%s < %s + n" % (mk, mk), 1), ("it+n > it", "%s + n > %s" % (mk, mk), 1),
                                  ("it <= it+n", "%s <= %s + n" % (mk, mk), 1), ("it+n >= it", "%s + n >= %s" % (mk, mk), 1),
                                  ("!(it+n < it)", "%s + n < %s" % (mk, mk), 0), ("!(it > it+n)", "%s > %s + n" % (mk, mk), 0),
                                  ("it <= it", "%s <= %s" % (mk, mk), 1), ("!(it < it)", "%s < %s" % (mk, mk), 0)):
                pairs.append(Pair(par, "(iptr)(%s)" % e, "(iptr)%d" % want, "order-dir", "%s (nested, %s, %s, n>0)" % (name, osign, isign),
                                  "order-dir:%s:nested:%s:%s" % (name, osign, isign), W + "step_iterator.hpp", facts=facts))
    rep.rule("order-dir: it < it+n (n>0) and its variants hold for positive and for negative steps (range facts on step and n)")
    rep.trusted += ["clang 14 front end and LLVM inliner/SROA/mem2reg", "polynomial normaliser harness/ir/poly.py"]
    rep.rule("path/locator: every navigation path denotes the same cell polynomial as view(x,y) (+offset)")
    rep.rule("iter-law: polynomial random-access laws of x/y iterators")
    rep.rule("order: the ordering operators of x/y iterators are mutually mirrored")
    rep.rule("1d: is_1d_traversable() is exactly row_size == pixel_size*width")
    run_pairs(rep, "C03", pairs)
    nk = len(kinds)
    rep.floor("obligations:path", nk * 10)
    rep.floor("obligations:locator", nk * 16)
    rep.floor("obligations:iter-law", nk * 9)
    rep.floor("obligations:order", nk * 10)
    row_carry(rep)
    rep.floor("obligations:order-dir", 64)
    xy_at_preconditions(rep)
    no_narrowed_offsets(rep)
    from .p06 import accept_inconclusive
    accept_inconclusive(rep, "c03_inconclusive.json")


def row_carry(rep):
    """L9: row-carry arithmetic of iterator_from_2d, proved symbolically over the instantiated AST (harness/carry.py)"""
    from . import carry
    from .ast import rules as R
    from .ir.poly import Poly
    rep.rule("L9 iterator_from_2d::advance(d): in both branches delta.x + width*delta.y == d (the linear index y*width+x moves by exactly d) and "
             "x + delta.x is a remainder of a non-negative numerator (stays in [0,width)); the same delta is applied to the locator; "
             "distance_to(it) == (it.y - y)*width + (it.x - x)")
    wd = C.workdir("C03ast")
    d = C.astdump(os.path.join(C.DRIVERS, "c03_iter.cpp"), os.path.join(wd, "it.json"), ['^boost::gil::iterator_from_2d::(advance|distance_to)$'])
    if d.get("errors"):
        raise C.AnalysisBroken("drivers/c03_iter.cpp has compile errors")
    where = "include/boost/gil/iterator_from_2d.hpp"
    for f in d["functions"]:
        short = f["name"].split("::")[-1]
        if short == "advance":
            try:
                res = carry.check_advance(f)
            except carry.Unrecognised as e:
                rep.fail_analysis("L9 advance(): %s" % e)
                continue
            for name, ok, det in res:
                rep.count("obligations:row-carry")
                key = "row-carry:advance:" + name
                if ok:
                    rep.ok("row-carry", key, det)
                elif det.get("witness"):
                    rep.violation("row-carry", key, "%s:%s" % (where, f["line"]), det)
                else:
                    rep.fail_analysis("L9 %s: identity not established and no witness found: %s" % (key, det))
        if short == "distance_to":
            rets = [x for x, _ in R.find(f["body"], lambda x: x.get("k") == "Return" and x.get("e") is not None)]
            rep.count("obligations:row-carry")
            pn = f["params"][0]["name"]
            env = {"_coords.x": "cx", "_coords.y": "cy", "_width": "W", pn + ".x_pos()": "x2", pn + ".y_pos()": "y2"}
            got = [R.poly_of(r["e"], lambda s: env.get(s, s)) for r in rets]
            want = (Poly.atom("y2") - Poly.atom("cy")) * Poly.atom("W") + Poly.atom("x2") - Poly.atom("cx")
            nz = [g for g in got if g != Poly()]
            if len(nz) == 1 and nz[0] == want:
                rep.ok("row-carry", "row-carry:distance_to", repr(want))
            else:
                rep.violation("row-carry", "row-carry:distance_to", "%s:%s" % (where, f["line"]), {"returned": [repr(g) for g in got], "documented": repr(want)})
    rep.floor("obligations:row-carry", 3)



def xy_at_preconditions(rep):
    """L10: image_view::xy_at only forms a locator (no pixel is touched): its debug preconditions must admit every position up to and including the end
    in both coordinates, as axis_iterator and x_at do -- the view factories and the position based algorithms call xy_at(0,0) on views that may be empty"""
    import os
    from .ast import rules as R
    rep.rule("L10 image_view::xy_at (both overloads, assertions enabled): the asserted bounds are inclusive (x <= width(), y <= height()) in both coordinates; a strict bound "
             "makes xy_at(0,0) abort on a view without pixels, which flipped_up_down_view, transposed_view, rotated90cw_view, subsampled_view, subimage_view, "
             "for_each_pixel_position and transform_pixel_positions all evaluate")
    wd = C.workdir("C03assert")
    src = os.path.join(wd, "xy_at.cpp")
    open(src, "w").write('#include "vf_common.hpp"\nusing namespace vf;\nvoid inst(rgb8_view_t const& v){ (void)v.xy_at(0, 0); (void)v.xy_at(point_t(0, 0)); }\n')
    d = C.astdump(src, os.path.join(wd, "xy_at.json"), ["^boost::gil::image_view::xy_at$"], defs=["-DBOOSTORG_GIL_VERIF"])      # no NDEBUG: BOOST_ASSERT is live
    for f in d["functions"]:
        g = R.canonize(f)
        form = "point" if len(f["params"]) == 1 else "x,y"
        asserts = []
        for x, _ in R.find(g["body"], lambda x: x.get("k") == "Cond" and "__assert_fail" in R.key(x.get("else") or {})):
            for cmp_, _ in R.find(x["cond"], lambda y: y.get("k") == "Binary" and y.get("op") in ("<", "<=", ">", ">=")):
                asserts.append(R.norm_cmp(cmp_["op"], R.key(cmp_["l"]), R.key(cmp_["r"])))
        rep.count("obligations:L10")
        key = "L10:image_view::xy_at(%s)" % form
        xs = "$0" if form == "x,y" else "$0.x"
        ys = "$1" if form == "x,y" else "$0.y"
        strict = [a for a in asserts if (a[0] == "<" and a[1] in (xs, ys) and a[2] in ("this.width()", "this.height()")) or (a[0] == ">" and a[2] in (xs, ys) and a[1] in ("this.width()", "this.height()"))]
        if strict:
            rep.violation("L10-xy_at-precondition", key, R.fn_where(f), {"assertions": [" ".join((a[1], a[0], a[2])) for a in asserts], "strict": [" ".join((a[1], a[0], a[2])) for a in strict],
                          "example": "subimage_view(view, 1, 1, 0, 3) gives a 0x3 view; transposed_view / for_each_pixel_position of it abort in xy_at(0,0) with assertions enabled"})
        else:
            rep.ok("L10-xy_at-precondition", key, [" ".join((a[1], a[0], a[2])) for a in asserts])
    rep.floor("obligations:L10", 2)


NAV_DRIVER = r"""
#include "vf_common.hpp"
using namespace vf;
template <class V> std::ptrdiff_t inst(V const& v, std::ptrdiff_t n, std::ptrdiff_t x, std::ptrdiff_t y) {
  auto it = v.x_at(x,y); it += n; auto jt = it + n; --jt; ++jt; auto yt = v.y_at(x,y); yt += n; --yt; ++yt; auto l = v.xy_at(x,y); l += point_t(n,n); l -= point_t(1,1);
  auto b = v.begin(); b += n; ++b; --b; (void)v(x,y); (void)l(n,n); (void)v[n]; (void)v.row_begin(y)[x]; (void)v.col_begin(x)[y]; (void)(it < jt);
  (void)l.x_at(n,n); (void)l.y_at(n,n); (void)l.xy_at(n,n); (void)v.is_1d_traversable(); (void)v.end(); (void)v.rbegin();
  return (jt - it) + (yt - v.y_at(x,y)) + (b - v.begin());
}
template <class V> std::ptrdiff_t inst2(V const& v, std::ptrdiff_t n, std::ptrdiff_t x, std::ptrdiff_t y) {
  auto l = v.xy_at(x,y); auto c = l.cache_location(n,n); (void)l[c]; return inst(v,n,x,y); }
#define I(K) std::ptrdiff_t u_##K(K const& v, std::ptrdiff_t n, std::ptrdiff_t x, std::ptrdiff_t y){ return inst2(v,n,x,y);}
I(k_inter) I(k_planar) I(k_planar16) I(k_xstep) I(k_xystep) I(k_pstep) I(k_pT) I(k_packed) I(k_packstep) I(k_bits) I(k_bits7) I(k_bits1) I(k_bitstep)
I(k_nth) I(k_kth) I(k_ccv) I(k_deref) I(k_derefs) I(k_gray16) I(k_g16step) I(k_rgba32f)
std::ptrdiff_t u_virt(k_virt const& v, std::ptrdiff_t n, std::ptrdiff_t x, std::ptrdiff_t y){ return inst(v,n,x,y);}
"""

_I32 = {"int", "unsigned int", "short", "unsigned short", "char", "signed char", "unsigned char", "bool"}
_I64 = {"long", "unsigned long", "long long", "unsigned long long"}


def no_narrowed_offsets(rep):
    """L11: offsets are difference_type (64-bit) quantities; D-poly reads a 64->32 bit truncation of an offset as the identity (recorded assumption).
    This rule discharges that assumption structurally: no navigation function narrows a run-time offset before it is reduced."""
    import os
    from .ast import rules as R
    rep.rule("L11 in every function instantiated by navigating views of all kinds (x/y/1-D iterators, locators, cached locations, bit-aligned bit ranges) no integral cast from a 64-bit "
             "to a narrower type is applied to a run-time value, unless the operand is already reduced (x % c, x & c with constant c, a comparison, or a value of a narrower type widened before). "
             "Witness for a violation: an advance of 2^31 bits (a bit-aligned image beyond 256 MiB) lands 2^32 bits before its target")
    wd = C.workdir("C03narrow")
    src = os.path.join(wd, "nav.cpp")
    open(src, "w").write(NAV_DRIVER)
    d = C.astdump(src, os.path.join(wd, "nav.json"), ["^boost::gil::"])
    fns = d["functions"]
    rep.units.append("navigation driver: %d instantiated functions" % len(fns))

    def reduced(e):
        while isinstance(e, dict) and e.get("k") in ("Paren",):
            e = e["e"]
        if not isinstance(e, dict):
            return False
        if "const" in e:
            return True
        if e.get("k") == "Binary" and e.get("op") in ("%", "&") and ("const" in (e["r"] or {}) or R.key(e["r"]).lstrip("-").isdigit()):
            return True
        if e.get("k") == "Binary" and e.get("op") in ("<", "<=", ">", ">=", "==", "!=", "&&", "||"):
            return True
        if e.get("k") in ("ImplicitCast", "ExplicitCast") and (e.get("from_c") or "").replace("const ", "").strip() in _I32:
            return True
        if e.get("k") == "Cond":
            return reduced(e.get("then")) and reduced(e.get("else"))
        return False
    bad = {}
    ncast = 0
    for f in fns:
        rep.count("obligations:L11")
        for x, _ in R.find(f["body"], lambda x: x.get("k") in ("ImplicitCast", "ExplicitCast") and x.get("from_c") is not None):
            frm = x["from_c"].replace("const ", "").strip()
            to = x["to_c"].replace("const ", "").strip()
            if frm in _I64 and to in _I32:
                ncast += 1
                if not reduced(x["e"]):
                    n = f["name"].replace("boost::gil::", "")
                    bad.setdefault(n, (f, []))[1].append({"narrowed": R.key(x["e"])[:160], "from": frm, "to": to, "line": x.get("line")})
    for n, (f, lst) in sorted(bad.items()):
        uniq = []
        for b in lst:
            if b not in uniq:
                uniq.append(b)
        rep.violation("L11-narrowed-offset", "L11:%s" % n, R.fn_where(f), {"casts": uniq, "witness": "advance by 2^31 bits: int(offset + 2^31) == offset - 2^31, the reference lands 512 MiB before its target"})
    if not bad:
        rep.ok("L11-narrowed-offset", "L11:%d navigation functions" % len(fns), "%d narrowing casts, all of reduced operands" % ncast)
    rep.floor("obligations:L11", 1200)
