#!/bin/bash
# usage: tools/ingest_seed.sh <worktree-name> <seed-name>   e.g. ingest_seed.sh C11f C11-f
# Harvests the seeded change a sub-agent left in /tmp/wt/<worktree-name> (diff of include/, demo, notes), confirms it (demo with / without the
# change, the pinned suite with the change) and then runs every check on a scratch copy of the changed tree (tools/reseed_scratch.sh, RESEED_ALL).
# /repo is not touched.
set -u
WTN=$1; NAME=$2; P=${NAME%%-*}; WT=/tmp/wt/$WTN; OUT=/verif/seeded/$NAME
cd /verif
mkdir -p $OUT
git -C $WT diff -- include > $OUT/patch.diff
[ -s $OUT/patch.diff ] || { echo "$NAME: no change in $WT"; rmdir $OUT 2>/dev/null; exit 1; }
cp $WT/demo/demo.cpp $OUT/demo.cpp; cp $WT/demo/NOTES.md $OUT/NOTES.md 2>/dev/null
LIBS="-lpng -ljpeg -ltiff"
g++ -std=c++14 -O1 -I$WT/include $OUT/demo.cpp -o /tmp/wt/demo_mut_$WTN $LIBS 2>/dev/null
( ulimit -c 0; timeout 900 /tmp/wt/demo_mut_$WTN > /tmp/wt/demo_mut_$WTN.out 2>&1 ); RC_MUT=$?
rm -rf /tmp/wt/base_$WTN; mkdir -p /tmp/wt/base_$WTN; git -C $WT archive HEAD include | tar -x -C /tmp/wt/base_$WTN
g++ -std=c++14 -O1 -I/tmp/wt/base_$WTN/include $OUT/demo.cpp -o /tmp/wt/demo_clean_$WTN $LIBS 2>/dev/null
( ulimit -c 0; timeout 900 /tmp/wt/demo_clean_$WTN > /tmp/wt/demo_clean_$WTN.out 2>&1 ); RC_CLEAN=$?
rm -rf /tmp/wt/base_$WTN /tmp/wt/demo_mut_$WTN /tmp/wt/demo_clean_$WTN
cmake -G Ninja -S $WT -B $WT/_build -DCMAKE_BUILD_TYPE=RelWithDebInfo -DCMAKE_CXX_STANDARD=14 -DBOOST_GIL_BUILD_EXAMPLES=OFF -DBOOST_GIL_BUILD_HEADER_TESTS=OFF > /dev/null 2>&1
cmake --build $WT/_build -j12 > /tmp/wt/build_$WTN.log 2>&1; BRC=$?
CT=$(ctest --test-dir $WT/_build -j12 2>&1 | grep "tests passed")
rm -rf $WT/_build
python3 - <<PY
import json
json.dump({"property":"$P","name":"$NAME","demo_rc_with_change":$RC_MUT,"demo_rc_without_change":$RC_CLEAN,"suite_with_change":"$CT","suite_build_rc":$BRC,
 "check_cmd":"./check <id> --tier quick for every claimed id","origin":"independent sub-agent given only the property text and a scratch worktree"}, open("$OUT/meta.json","w"), indent=1)
PY
echo "$NAME: demo with change rc=$RC_MUT, without rc=$RC_CLEAN; suite build rc=$BRC; $CT"
RESEED_ALL=1 RESEED_JOBS=1 tools/reseed_scratch.sh $NAME
