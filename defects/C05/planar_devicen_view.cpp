// C05 / X0: all four overloads of planar_devicen_view named planar_pixel_iterator<IC, devicen_t<N>> -- the metafunction instead of its ::type --
// and could not be instantiated.  Build: g++ -std=c++14 -I /repo/include planar_devicen_view.cpp && ./a.out
#include <boost/gil.hpp>
#include <cstdio>
using namespace boost::gil;
int main(){ unsigned char a[4]={1,2,3,4}, b[4]={5,6,7,8}, c[4]={9,10,11,12}, d[4]={13,14,15,16}, e[4]={17,18,19,20};
 auto v2 = planar_devicen_view(2, 2, a, b, 2); auto v3 = planar_devicen_view(2, 2, a, b, c, 2); auto v4 = planar_devicen_view(2, 2, a, b, c, d, 2); auto v5 = planar_devicen_view(2, 2, a, b, c, d, e, 2);
 int s = at_c<1>(v2(1,1)) + at_c<2>(v3(0,1)) + at_c<3>(v4(1,0)) + at_c<4>(v5(1,1)); std::printf("%d\n", s); return s != 8+11+14+20; }
