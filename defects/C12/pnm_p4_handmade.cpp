#include <boost/gil.hpp>
#include <boost/gil/extension/io/pnm.hpp>
#include <fstream>
#include <iostream>
using namespace boost::gil;
int main(){
  // scanline reader on a P4 file: 10x2, row bytes (MSB first, 1 = black)
  { std::ofstream f("/tmp/c12demo/t.pbm", std::ios::binary); f << "P4 10 2 "; unsigned char d[4] = {0x80, 0x40, 0x01, 0x80}; f.write((char*)d, 4); }
  gray1_image_t img; read_image("/tmp/c12demo/t.pbm", img, pnm_tag());
  auto v = const_view(img);
  for (int y = 0; y < 2; ++y){ for (int x = 0; x < 10; ++x) std::cout << (int)at_c<0>(v(x,y)); std::cout << "\n"; }
}
