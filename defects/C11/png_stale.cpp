// PNG whose IEND chunk is cut off: png_read_end() reports an error via longjmp. reader::apply calls png_read_end after
// read_rows() re-armed the jump buffer and returned, so the jump lands in a dead frame.
#include <boost/gil.hpp>
#include <boost/gil/extension/io/png.hpp>
#include <fstream>
#include <iostream>
#include <sstream>
using namespace boost::gil;
int main(int argc, char** argv){
  rgb8_image_t img(40, 30); fill_pixels(view(img), rgb8_pixel_t(1,2,3));
  std::stringstream ss(std::ios::in|std::ios::out|std::ios::binary); write_view(ss, const_view(img), png_tag());
  std::string s = ss.str();
  int mode = argc > 1 ? atoi(argv[1]) : 0;
  if (mode == 0) s.resize(s.size() - 12);                // drop IEND
  if (mode == 1) { s[s.size() - 12 - 5] ^= 0x55; }       // corrupt the CRC region of the last IDAT
  { std::ofstream f("/tmp/c11demo/t.png", std::ios::binary); f.write(s.data(), s.size()); }
  rgb8_image_t back;
  try { read_image("/tmp/c11demo/t.png", back, png_tag()); std::cout << "returned normally\n"; return 0; }
  catch (std::exception& e) { std::cout << "exception: " << e.what() << "\n"; return 0; }
}
