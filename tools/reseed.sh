#!/bin/bash
# usage: tools/reseed.sh [name...]  -- re-runs every claimed quick check against each stored seeded change (applied to /repo, then
# reverted) and records which checks fire NOW in seeded/<name>/meta.json ("fired_now"); prints a table. /repo must be clean.
set -u
cd /verif
[ -z "$(git -C /repo status --porcelain --untracked-files=no)" ] || { echo "/repo is not clean"; exit 2; }
NAMES=${@:-$(ls seeded)}
IDS=$(python3 -c "import json;print(' '.join(c['property_id'] for c in json.load(open('MANIFEST.json'))['checks']))")
for n in $NAMES; do
  d=seeded/$n; [ -f $d/patch.diff ] || continue
  git -C /repo apply /verif/$d/patch.diff || { echo "$n: patch does not apply"; continue; }
  mkdir -p /tmp/reseed/$n
  echo $IDS | tr ' ' '\n' | xargs -P 6 -I{} sh -c "./check {} > /tmp/reseed/$n/{}.out 2>&1; echo \$? > /tmp/reseed/$n/{}.rc"
  git -C /repo checkout -- .
  FIRED=""; for id in $IDS; do r=$(cat /tmp/reseed/$n/$id.rc); [ "$r" != "0" ] && FIRED="$FIRED $id:$r"; done
  RULES=$(for id in $IDS; do grep -hE "^  rule=" /tmp/reseed/$n/$id.out | sed -E 's/^  rule=([^ ]+).*/\1/' | sort -u | sed "s/^/$id./"; done | tr '\n' ' ')
  python3 - "$d/meta.json" "$FIRED" "$RULES" <<'PY'
import json,sys
p,f,r=sys.argv[1:4]
m=json.load(open(p)); m["fired_now"]=f.split(); m["rules_now"]=r.split(); json.dump(m,open(p,"w"),indent=1)
PY
  echo "$n: fired now:$FIRED | rules: $RULES"
done
rm -rf /tmp/reseed
python3 tools/seedtable.py > /dev/null
