#include <boost/gil.hpp>
#include <boost/gil/extension/toolbox/color_spaces/lab.hpp>
#include <boost/gil/extension/toolbox/color_spaces/xyz.hpp>
#include <iostream>
using namespace boost::gil;
int main(){
  rgb8_pixel_t p(0,0,42), q; lab32f_pixel_t l; xyz32f_pixel_t x;
  color_convert(p, x); color_convert(p, l); color_convert(l, q);
  std::cout << "rgb(0,0,42) -> xyz(" << (float)x[0] << "," << (float)x[1] << "," << (float)x[2] << ") lab(" << (float)l[0] << "," << (float)l[1] << "," << (float)l[2] << ") -> rgb(" << (int)q[0] << "," << (int)q[1] << "," << (int)q[2] << ")\n";
  long bad = 0, worst = 0; int wr=0,wg=0,wb=0;
  for (int r = 0; r < 256; r += 3) for (int g = 0; g < 256; g += 3) for (int b = 0; b < 256; b += 3) {
    rgb8_pixel_t a(r,g,b), c; lab32f_pixel_t m; color_convert(a, m); color_convert(m, c);
    int e = std::max(std::abs(c[0]-r), std::max(std::abs(c[1]-g), std::abs(c[2]-b)));
    if (e > 2) ++bad; if (e > worst) { worst = e; wr=r; wg=g; wb=b; }
  }
  std::cout << "pixels (stride 3) with round-trip error > 2: " << bad << ", worst " << worst << " at (" << wr << "," << wg << "," << wb << ")\n";
}
