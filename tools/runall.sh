#!/bin/bash
# Runs every claimed check (quick tier by default) on /repo as it is and validates evidence + manifest.
cd /verif
tier=${1:-quick}
ids=$(python3 -c "import json;print(' '.join(c['property_id'] for c in json.load(open('MANIFEST.json'))['checks']))")
rc=0
for id in $ids; do
  out=$(./check $id --tier $tier 2>&1); r=$?
  echo "$out" | tail -1
  if [ $r -ne 0 ]; then rc=1; echo "$out" | grep -E "VIOLATION|BROKEN|rule=" | head -5; fi
done
python3-vt - <<'PY'
import json,jsonschema
m=json.load(open('/verif/MANIFEST.json'))
jsonschema.validate(m,json.load(open('/root/.vp/MANIFEST.schema.json')))
es=json.load(open('/root/.vp/EVIDENCE.schema.json'))
for c in m['checks']:
    e=json.load(open(c['evidence_file'])); jsonschema.validate(e,es)
    assert e['level']==c['level_claimed']['category'], (c['property_id'], e['level'])
print('manifest and evidence valid')
PY
exit $rc
