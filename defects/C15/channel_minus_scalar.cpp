// C15 / V10: channel_minus_scalar_t computed `channel - scalar` in the promoted type of its operands and converted the result to ChannelResult
// afterwards -- unlike its seven siblings, which convert both operands first. With a 32-bit unsigned channel and a 64-bit (or floating-point)
// result the difference has already wrapped: 5u - 10 gives 4294967291 instead of -5.
// Build: g++ -std=c++14 -I /repo/include channel_minus_scalar.cpp && ./a.out
#include <boost/gil.hpp>
#include <boost/gil/channel_numeric_operations.hpp>
#include <cstdint>
#include <cstdio>
using namespace boost::gil;
int main()
{
    std::uint32_t c = 5;
    long long d = channel_minus_scalar_t<std::uint32_t, int, std::int64_t>()(c, 10);
    double f = channel_minus_scalar_t<std::uint32_t, int, double>()(c, 10);
    long long p = channel_plus_scalar_t<std::uint32_t, int, std::int64_t>()(c, -10);      // the sibling has always been right
    std::printf("5u - 10 = %lld (int64), %.1f (double); 5u + -10 = %lld\n", d, f, p);
    return !(d == -5 && f == -5.0 && p == -5);
}
