#include <boost/gil.hpp>
#include <boost/gil/extension/io/pnm.hpp>
#include <sstream>
#include <iostream>
using namespace boost::gil;
int run(int w, int h){
  gray1_image_t img(w, h), back;
  auto v = view(img);
  for (int y = 0; y < h; ++y) for (int x = 0; x < w; ++x) { v(x,y) = gray1_image_t::value_type(( (x*x + 3*y + (x>>2)) % 3 == 0) ? 1 : 0); }
  std::stringstream ss(std::ios::in|std::ios::out|std::ios::binary);
  write_view(ss, v, pnm_tag());
  std::string s = ss.str();
  std::istringstream in(s, std::ios::binary);
  try { read_image(in, back, pnm_tag()); } catch (std::exception& e) { std::cout << w << "x" << h << " read threw: " << e.what() << " (file bytes " << s.size() << ")\n"; return 1; }
  if (back.dimensions() != img.dimensions()) { std::cout << "dims differ\n"; return 1; }
  int bad = 0; auto b = const_view(back);
  for (int y = 0; y < h; ++y) for (int x = 0; x < w; ++x) if ((int)at_c<0>(v(x,y)) != (int)at_c<0>(b(x,y))) ++bad;
  std::cout << w << "x" << h << " mismatching pixels: " << bad << "\n";
  return bad != 0;
}
int main(int argc, char** argv){ return run(atoi(argv[1]), atoi(argv[2])); }
