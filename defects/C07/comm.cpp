#include <boost/gil.hpp>
#include <iostream>
using namespace boost::gil;
template <int N> void run(){
  using ch = packed_channel_value<N>;
  long bad = 0, idbad = 0; unsigned M = (1u << N) - 1; unsigned ea = 0, eb = 0;
  for (unsigned a = 0; a <= M; ++a) {
    if ((unsigned)channel_multiply(ch(a), ch(M)) != a) ++idbad;
    for (unsigned b = a + 1; b <= M; ++b) {
      unsigned x = channel_multiply(ch(a), ch(b)), y = channel_multiply(ch(b), ch(a));
      if (x != y) { if (!bad) { ea = a; eb = b; } ++bad; }
    }
  }
  std::cout << "packed_channel_value<" << N << ">: non-commutative pairs " << bad << " (first " << ea << "," << eb << "), max-not-identity " << idbad << "\n";
}
int main(){ run<3>(); run<5>(); run<6>(); run<7>(); run<8>(); run<9>(); run<10>(); run<11>(); }
