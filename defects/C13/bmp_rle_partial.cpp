// sub-rectangle reads of an RLE8 BMP must equal the crop of the full read
#include <boost/gil.hpp>
#include <boost/gil/extension/io/bmp.hpp>
#include <sstream>
#include <iostream>
using namespace boost::gil;
static void u16(std::string& s, unsigned v){ s += (char)(v & 255); s += (char)(v >> 8); }
static void u32(std::string& s, unsigned v){ u16(s, v & 0xFFFF); u16(s, v >> 16); }
int main(){
  const int W = 5, H = 4; std::string s;
  u16(s, 0x4D42); u32(s, 0); u32(s, 0); u32(s, 54 + 256*4);
  u32(s, 40); u32(s, W); u32(s, H); u16(s, 1); u16(s, 8); u32(s, 1 /*rle8*/); u32(s, 0); u32(s, 0); u32(s, 0); u32(s, 256); u32(s, 0);
  for (int i = 0; i < 256; ++i) { s += (char)i; s += (char)i; s += (char)i; s += (char)0; }       // grey palette
  for (int k = 0; k < H; ++k) { int y = H - 1 - k;                                                 // bottom-up rows, every pixel its own run
    for (int x = 0; x < W; ++x) { s += (char)1; s += (char)(10 * y + x + 1); }
    s += (char)0; s += (char)(k == H - 1 ? 1 : 0); }
  rgb8_image_t full; { std::istringstream in(s, std::ios::binary); read_and_convert_image(in, full, bmp_tag()); }
  std::cout << "full read: " << full.width() << "x" << full.height() << " pixel(1,2)=" << (int)const_view(full)(1,2)[0] << " (expected 22)\n";
  int bad = 0, thrown = 0;
  for (int y0 = 0; y0 < H; ++y0) for (int dy = 1; y0 + dy <= H; ++dy) for (int x0 = 0; x0 < W; ++x0) for (int dx = 1; x0 + dx <= W; ++dx) {
    if (x0 == 0 && y0 == 0 && dx == W && dy == H) continue;
    std::istringstream in(s, std::ios::binary); rgb8_image_t part;
    image_read_settings<bmp_tag> st(point_t(x0, y0), point_t(dx, dy));
    try { read_and_convert_image(in, part, st); } catch (std::exception&) { ++thrown; continue; }
    if (part.dimensions() != point_t(dx, dy) || !equal_pixels(const_view(part), subimage_view(const_view(full), x0, y0, dx, dy))) ++bad;
  }
  std::cout << bad << " sub-rectangle reads differ from the crop, " << thrown << " threw\n"; return bad != 0;
}
