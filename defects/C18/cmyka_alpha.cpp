// C18 replay (sibling of the gray_alpha clause): cmyka -> rgba drops the alpha channel
// g++ -std=c++14 -I/repo/include cmyka_alpha.cpp && ./a.out
#include <boost/gil.hpp>
#include <boost/gil/extension/toolbox/color_spaces/cmyka.hpp>
#include <cstdio>
namespace gil = boost::gil;
int main()
{
    gil::cmyka8_pixel_t a(10, 20, 30, 40, 7);
    gil::rgba8_pixel_t b; gil::color_convert(a, b);
    std::printf("cmyka8 alpha 7 -> rgba8 alpha %d\n", (int)gil::get_color(b, gil::alpha_t()));
    return gil::get_color(b, gil::alpha_t()) == 7 ? 0 : 1;
}
