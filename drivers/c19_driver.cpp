// C19: instantiates the histogram members and free functions for the AST rules
#include "vf_common.hpp"
#include <boost/gil/histogram.hpp>
using namespace vf;
void inst(gray8_view_t const& g, rgb8_view_t const& c){
  histogram<int> h1; histogram<int, int, int> h3;
  std::vector<std::vector<bool>> mask;
  h1.fill(g); h1.fill(g, 2, true, mask, std::make_tuple(1), std::make_tuple(9), true);
  h3.fill(c); h3.fill<0, 1, 2>(c, 4, false, {}, std::make_tuple(0, 0, 0), std::make_tuple(9, 9, 9), true);
  fill_histogram(g, h1); fill_histogram(g, h1, 2, true, false, true, mask, std::make_tuple(1), std::make_tuple(9), true);
  fill_histogram(c, h3, 1, false, true);
  auto c1 = cumulative_histogram(h1); auto c3 = cumulative_histogram(h3); (void)c1; (void)c3;
  auto s1 = h3.sub_histogram<0, 2>(); auto s2 = h3.sub_histogram<0>(std::make_tuple(1, 0, 0), std::make_tuple(5, 0, 0)); (void)s1; (void)s2;
  h1.normalize(); h3.normalize(); (void)h1.sum();
}
