// C17 replay: bilinear_sampler on packed / bit-aligned channels truncates the weighted sum: a constant image is not reproduced
// g++ -std=c++14 -I/repo/include bilinear_packed_truncation.cpp && ./a.out
#include <boost/gil.hpp>
#include <boost/gil/extension/numeric/sampler.hpp>
#include <cstdio>
using namespace boost::gil;
int main()
{
    using img_t = packed_image3_type<std::uint16_t, 5, 6, 5, rgb_layout_t>::type;
    img_t s(3, 3); img_t::value_type px;
    semantic_at_c<0>(px) = 31; semantic_at_c<1>(px) = 63; semantic_at_c<2>(px) = 31;
    fill_pixels(view(s), px);
    int bad = 0;
    for (int i = 1; i < 7; ++i) for (int j = 1; j < 7; ++j)
    {
        img_t::value_type r;
        sample(bilinear_sampler(), const_view(s), point<double>(1 + i / 7.0, j / 7.0), r);
        if (!(r == px)) { if (!bad) std::printf("constant (31,63,31) sampled at (%g,%g) as (%d,%d,%d)\n", 1 + i / 7.0, j / 7.0, (int)semantic_at_c<0>(r), (int)semantic_at_c<1>(r), (int)semantic_at_c<2>(r)); ++bad; }
    }
    std::printf("%d of 36 sample points do not reproduce the constant\n", bad);
    return bad ? 1 : 0;
}
