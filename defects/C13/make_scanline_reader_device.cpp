// C13 / S0: make_scanline_reader(std::istream& | FILE*, tag) delegated to an overload taking image_read_settings that does not exist: it did not compile.
// Build: g++ -std=c++14 -I /repo/include make_scanline_reader_device.cpp && ./a.out
#include <boost/gil.hpp>
#include <boost/gil/extension/io/pnm.hpp>
#include <boost/gil/extension/io/bmp.hpp>
#include <fstream>
#include <sstream>
#include <cstdio>
using namespace boost::gil;
int main(){ std::istringstream in(std::string("P5\n2 1\n255\n\x07\x09", 13)); auto rd = make_scanline_reader(in, pnm_tag());
 std::vector<unsigned char> buf(rd._scanline_length); rd.read(buf.data(), 0); std::printf("%d %d\n", buf[0], buf[1]);
 FILE* f = std::fopen("/dev/null","rb"); try { auto r2 = make_scanline_reader(f, bmp_tag()); } catch (std::exception const&) {} return !(buf[0]==7 && buf[1]==9); }
