// C11 / R12: reader::apply of the bmp reader switches over bits_per_pixel without a default; is_allowed() accepts every header for a
// converting read, so a file with 2 bits per pixel made read_and_convert_view return normally with nothing decoded.
// Build: g++ -std=c++14 -I /repo/include bmp_unsupported_depth.cpp && ./a.out
#include <boost/gil.hpp>
#include <boost/gil/extension/io/bmp.hpp>
#include <cstdio>
#include <sstream>
using namespace boost::gil;
int main()
{
    std::string f;
    auto u8 = [&](unsigned v) { f.push_back(char(v)); };
    auto u16 = [&](unsigned v) { u8(v & 255); u8((v >> 8) & 255); };
    auto u32 = [&](unsigned v) { u16(v & 65535); u16(v >> 16); };
    u8('B'); u8('M'); u32(62); u16(0); u16(0); u32(54);
    u32(40); u32(2); u32(2); u16(1); u16(2); u32(0); u32(0); u32(0); u32(0); u32(0); u32(0);
    u32(0); u32(0);
    std::istringstream in(f);
    rgb8_image_t img(2, 2, rgb8_pixel_t(7, 7, 7));
    try
    {
        read_and_convert_view(in, view(img), bmp_tag());
        std::printf("accepted, pixel (0,0) = %d\n", (int)view(img)(0, 0)[0]);
        return 1;
    }
    catch (std::exception const& e) { std::printf("rejected: %s\n", e.what()); }
    return 0;
}
