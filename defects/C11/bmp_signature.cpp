// C11 / R11: the bmp signature test was `if (read_uint16() == 0x424D) io_error(...)`: it raised only for the bytes "MB" and accepted
// every other pair, "XY" or zeros included.
// Build: g++ -std=c++14 -I /repo/include bmp_signature.cpp && ./a.out
#include <boost/gil.hpp>
#include <boost/gil/extension/io/bmp.hpp>
#include <cstdio>
#include <sstream>
using namespace boost::gil;
static std::string bmp(char a, char b)
{
    std::string f;
    auto u8 = [&](unsigned v) { f.push_back(char(v)); };
    auto u16 = [&](unsigned v) { u8(v & 255); u8((v >> 8) & 255); };
    auto u32 = [&](unsigned v) { u16(v & 65535); u16(v >> 16); };
    u8(a); u8(b); u32(58); u16(0); u16(0); u32(54);
    u32(40); u32(1); u32(1); u16(1); u16(24); u32(0); u32(0); u32(0); u32(0); u32(0); u32(0);
    u32(0x00030201);
    return f;
}
int main()
{
    int bad = 0;
    for (auto sig : {"BM", "XY", "MB"})
    {
        std::istringstream in(bmp(sig[0], sig[1]));
        rgb8_image_t img;
        bool accepted = true;
        try { read_image(in, img, bmp_tag()); } catch (std::exception const&) { accepted = false; }
        std::printf("%s: %s\n", sig, accepted ? "accepted" : "rejected");
        bad += accepted != (sig[0] == 'B' && sig[1] == 'M');
    }
    return bad;
}
