// C10 driver: instantiates every member of image<> for the configurations of the typestate analysis.
// Compiled by astdump only; never executed.
#include "vf_common.hpp"
#include <memory>
namespace vf {
template <class T, bool POCMA, bool POCS, bool POCCA = false>
struct salloc {
    using value_type = T;
    int id;
    salloc(int i = 0) : id(i) {}
    template <class U> salloc(salloc<U, POCMA, POCS, POCCA> const& o) : id(o.id) {}
    T* allocate(std::size_t n);
    void deallocate(T* p, std::size_t n);
    using propagate_on_container_move_assignment = std::integral_constant<bool, POCMA>;
    using propagate_on_container_swap = std::integral_constant<bool, POCS>;
    using propagate_on_container_copy_assignment = std::integral_constant<bool, POCCA>;
    using is_always_equal = std::false_type;
    template <class U> struct rebind { using other = salloc<U, POCMA, POCS, POCCA>; };
    friend bool operator==(salloc const& a, salloc const& b) { return a.id == b.id; }
    friend bool operator!=(salloc const& a, salloc const& b) { return a.id != b.id; }
};
}
// an element type with non-trivial, possibly throwing special members. It lives in boost::gil so that clang's two-phase lookup finds
// memunit_step & co. for elem* by argument-dependent lookup (g++ is lenient here; the library's own tests use builtin element types)
namespace boost { namespace gil {
struct verif_elem {
    int v;
    verif_elem();
    verif_elem(verif_elem const&);
    verif_elem& operator=(verif_elem const&);
    ~verif_elem();
    bool operator==(verif_elem const& o) const { return v == o.v; }
    bool operator!=(verif_elem const& o) const { return v != o.v; }
};
}}
namespace vf { using elem = boost::gil::verif_elem; }
template <class Img> void use_all(Img& a, Img& b, typename Img::value_type const& p, typename Img::allocator_type const& al)
{
    using pt = typename Img::point_t;
    Img c0; Img c1(std::size_t(8), al);
    Img c(3, 4, 8, al); Img c2(pt(3, 4), 8, al); Img d(pt(2, 2), p, 0, al); Img d2(2, 2, p, 0, al);
    Img e(a); Img f(std::move(b)); Img g(const_view(a), 4, al);
    a = e; a = std::move(f);
    a.recreate(5, 5); a.recreate(pt(5, 5), 16); a.recreate(pt(1, 1), p, 2); a.recreate(1, 1, p, 2);
    a.recreate(4, 4, 8, al); a.recreate(pt(4, 4), 8, al); a.recreate(pt(4, 4), p, 8, al); a.recreate(4, 4, p, 8, al);
    a.swap(c); swap(a, d);
}
using namespace vf;
void t_std_i(image<rgb8_pixel_t, false>& a, image<rgb8_pixel_t, false>& b) { use_all(a, b, rgb8_pixel_t(), std::allocator<unsigned char>()); }
void t_std_p(image<rgb8_pixel_t, true>& a, image<rgb8_pixel_t, true>& b) { use_all(a, b, rgb8_pixel_t(), std::allocator<unsigned char>()); }
using prop_alloc = salloc<unsigned char, true, true>;
using sticky_alloc = salloc<unsigned char, false, false>;
void t_prop_i(image<rgb8_pixel_t, false, prop_alloc>& a, image<rgb8_pixel_t, false, prop_alloc>& b) { use_all(a, b, rgb8_pixel_t(), prop_alloc(1)); }
void t_sticky_i(image<rgb8_pixel_t, false, sticky_alloc>& a, image<rgb8_pixel_t, false, sticky_alloc>& b) { use_all(a, b, rgb8_pixel_t(), sticky_alloc(1)); }
void t_sticky_p(image<rgb8_pixel_t, true, sticky_alloc>& a, image<rgb8_pixel_t, true, sticky_alloc>& b) { use_all(a, b, rgb8_pixel_t(), sticky_alloc(1)); }
// converting copy between organisations
void t_conv(image<rgb8_pixel_t, true>& a, image<rgb8_pixel_t, false> const& b) { image<rgb8_pixel_t, true> x(b); a = b; }
// an allocator that stays put on move and swap but propagates on copy assignment
using pocca_alloc = salloc<unsigned char, false, false, true>;
void t_pocca_i(image<rgb8_pixel_t, false, pocca_alloc>& a, image<rgb8_pixel_t, false, pocca_alloc>& b) { use_all(a, b, rgb8_pixel_t(), pocca_alloc(1)); }
#ifdef VERIF_C10_VIEWS
// construction from views of other shapes (I0) and a bit-aligned image (I9: its iterators hand out proxy references)
template <class Img> void use_views(Img const& a)
{
    Img v1(flipped_left_right_view(const_view(a)));
    Img v2(subsampled_view(const_view(a), 2, 1));
    Img v3(transposed_view(const_view(a)));
    Img v4(flipped_up_down_view(const_view(a)));
}
void t_views_i(image<rgb8_pixel_t, false> const& a) { use_views(a); }
void t_views_p(image<rgb8_pixel_t, true> const& a) { use_views(a); }
using bits_image_t = bit_aligned_image3_type<1, 2, 3, rgb_layout_t>::type;
void t_bits(bits_image_t& a, bits_image_t& b, bits_image_t::value_type p)
{
    using Img = bits_image_t;
    using pt = Img::point_t;
    std::allocator<unsigned char> al;
    Img c0; Img c(3, 4, 8, al); Img d(pt(2, 2), p, 0, al); Img d2(2, 2, p, 0, al);
    Img e(a); Img f(std::move(b)); Img g(view(a), 4, al);
    a = e; a = std::move(f);
    a.recreate(5, 5); a.recreate(pt(1, 1), p, 2); a.recreate(4, 4, p, 8, al);
    a.swap(c);
    Img v1(flipped_left_right_view(view(a)));
    Img v2(subsampled_view(view(a), 2, 1));
}
#endif
#ifdef VERIF_C10_ELEM
// (compiled without BOOST_GIL_USE_CONCEPT_CHECK: the concept checks of image<> demand a pixel, the class comment and the library's tests do not)
// a non-pixel element type with non-trivial special members (the class comment allows any Regular element): everything but the view constructor
template <class Img> void use_all_elem(Img& a, Img& b, typename Img::value_type const& p, typename Img::allocator_type const& al)
{
    using pt = typename Img::point_t;
    Img c0; Img c1(std::size_t(8), al);
    Img c(3, 4, 8, al); Img c2(pt(3, 4), 8, al); Img d(pt(2, 2), p, 0, al); Img d2(2, 2, p, 0, al);
    Img e(a); Img f(std::move(b));
    a = e; a = std::move(f);
    a.recreate(5, 5); a.recreate(pt(5, 5), 16); a.recreate(pt(1, 1), p, 2); a.recreate(1, 1, p, 2);
    a.recreate(4, 4, 8, al); a.recreate(pt(4, 4), 8, al); a.recreate(pt(4, 4), p, 8, al); a.recreate(4, 4, p, 8, al);
    a.swap(c); swap(a, d);
}
void t_elem_std(image<elem, false>& a, image<elem, false>& b) { use_all_elem(a, b, elem(), std::allocator<unsigned char>()); }
void t_elem_sticky(image<elem, false, sticky_alloc>& a, image<elem, false, sticky_alloc>& b) { use_all_elem(a, b, elem(), sticky_alloc(1)); }
#endif
