// C12 / W5b: the tiled tiff writer typed its tile buffer with the view's own pixel: a bgr8 (bgra8, argb8) view was stored B,G,R in a file that
// declares RGB -- strips were right. The file read back into bgr8 or rgb8 has red and blue exchanged.
// Build: g++ -std=c++14 -I /repo/include tiff_tiled_bgr.cpp -ltiff -ltiffxx && ./a.out
#include <boost/gil.hpp>
#include <boost/gil/extension/io/tiff.hpp>
#include <cstdio>
#include <sstream>
using namespace boost::gil;
int main()
{
    bgr8_image_t a(1, 1);
    view(a)(0, 0) = bgr8_pixel_t(rgb8_pixel_t(10, 20, 30));
    image_write_info<tiff_tag> info; info._is_tiled = true; info._tile_width = info._tile_length = 16;
    std::stringstream ss(std::ios::in | std::ios::out | std::ios::binary);
    write_view(ss, view(a), info);
    bgr8_image_t b; read_image(ss, b, tiff_tag());
    rgb8_pixel_t p(view(b)(0, 0));
    std::printf("R G B = %d %d %d (expected 10 20 30)\n", (int)p[0], (int)p[1], (int)p[2]);
    return !(p[0] == 10 && p[1] == 20 && p[2] == 30);
}
