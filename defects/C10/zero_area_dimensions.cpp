// C10 / I8: allocate_ returned before building _view when no byte had to be allocated: image(0,3) was 0x0 (recreate(0,3) is 0x3),
// and copying a 0x3 image compared / copied views of different dimensions (assertion in uninitialized_copy_pixels; with NDEBUG c != b).
// Build: g++ -std=c++14 -I /repo/include zero_area_dimensions.cpp && ./a.out
#include <boost/gil.hpp>
#include <cstdio>
namespace gil = boost::gil;
int main()
{
    int errors = 0;
    gil::rgb8_image_t a(0, 3);
    if (a.width() != 0 || a.height() != 3) { std::printf("image(0,3) is %ldx%ld\n", (long)a.width(), (long)a.height()); ++errors; }
    gil::rgb8_planar_image_t p(4, 0);
    if (p.width() != 4 || p.height() != 0) { std::printf("planar image(4,0) is %ldx%ld\n", (long)p.width(), (long)p.height()); ++errors; }
    gil::rgb8_image_t b(2, 2);
    b.recreate(0, 3);
    gil::rgb8_image_t c(b);          // asserted
    if (!(c == b) || c.dimensions() != b.dimensions()) { std::printf("copy of a 0x3 image is %ldx%ld\n", (long)c.width(), (long)c.height()); ++errors; }
    gil::rgb8_image_t d(5, 5);
    d = b;
    if (d.dimensions() != b.dimensions()) { std::printf("assigned copy of a 0x3 image is %ldx%ld\n", (long)d.width(), (long)d.height()); ++errors; }
    std::printf("%d errors\n", errors);
    return errors != 0;
}
