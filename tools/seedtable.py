#!/usr/bin/env python3
"""writes seeded/README.md from seeded/*/meta.json (what fired at harvest time, what fires now)"""
import json, os, glob
rows = []
for m in sorted(glob.glob("/verif/seeded/*/meta.json")):
    d = json.load(open(m))
    name = d.get("name") or os.path.basename(os.path.dirname(m))
    patch = open(os.path.join(os.path.dirname(m), "patch.diff")).read()
    files = sorted({l[6:].strip() for l in patch.splitlines() if l.startswith("+++ b/")})
    own = d["property"]
    now = d.get("fired_now")
    rules = d.get("rules_now", [])
    caught = ("superseded: " + d["superseded"]) if d.get("superseded") else "not re-run" if now is None else (", ".join(r for r in rules) if rules else ("**missed**" if not now else " ".join(now)))
    first = d.get("checks_that_fired")
    rows.append("| %s | %s | %s | %s | %s |" % (name, own, ", ".join(f.replace("include/boost/gil/", "") for f in files), " ".join(first) if first else ("—" if first is not None else "n/a"), caught))
open("/verif/seeded/README.md", "w").write("""# Seeded changes

Each directory holds one change to boostorg/gil produced by an independent sub-agent that saw only the property text
(`patch.diff`), its demonstration (`demo.cpp`: fails with the change, passes without), its notes and `meta.json`.
Every change compiles and keeps the 132 pinned tests green. `tools/reseed.sh` applies each to /repo, runs every
claimed check, reverts, and regenerates this table. The harvest column shows the exit codes at the time the seed arrived;
alarms of other properties there (C11, C13) came from genuine defects of the then-unchanged tree that were repaired afterwards.

| seed | property | file(s) changed | checks that fired when harvested | rules that fire now |
|------|----------|-----------------|----------------------------------|---------------------|
""" + "\n".join(rows) + "\n")
print("\n".join(rows))
