// C18 replay: ycbcr_709 -> rgb is wrong for every input; ycbcr_601 -> rgb16 / rgb32f likewise
// g++ -std=c++14 -I/repo/include ycbcr.cpp && ./a.out
#include <boost/gil.hpp>
#include <boost/gil/extension/toolbox/color_spaces/ycbcr.hpp>
#include <cstdio>
#include <cstdlib>
namespace gil = boost::gil;
int main()
{
    int worst709 = 0, worst601 = 0, worst601w = 0;
    for (int r = 0; r < 256; r += 5) for (int g = 0; g < 256; g += 5) for (int b = 0; b < 256; b += 5)
    {
        gil::rgb8_pixel_t s(r, g, b), back;
        gil::ycbcr_709_8_pixel_t m; gil::color_convert(s, m); gil::color_convert(m, back);
        for (int c = 0; c < 3; ++c) worst709 = std::max(worst709, std::abs(int(back[c]) - int(s[c])));
        gil::ycbcr_601_8_pixel_t n; gil::color_convert(s, n); gil::color_convert(n, back);
        for (int c = 0; c < 3; ++c) worst601 = std::max(worst601, std::abs(int(back[c]) - int(s[c])));
        gil::rgb16_pixel_t w; gil::color_convert(n, w);
        for (int c = 0; c < 3; ++c) worst601w = std::max(worst601w, std::abs(int(w[c]) / 257 - int(s[c])));
    }
    gil::rgb8_pixel_t grey(128, 128, 128), back; gil::ycbcr_709_8_pixel_t m; gil::color_convert(grey, m); gil::color_convert(m, back);
    std::printf("rgb8 (128,128,128) -> ycbcr_709 (%d,%d,%d) -> rgb8 (%d,%d,%d)\n", int(m[0]), int(m[1]), int(m[2]), int(back[0]), int(back[1]), int(back[2]));
    std::printf("worst round-trip channel error: ycbcr_709 %d, ycbcr_601 (8 bit) %d, ycbcr_601 -> rgb16 %d (in 8-bit levels)\n", worst709, worst601, worst601w);
    return (worst709 > 4 || worst601 > 4 || worst601w > 4) ? 1 : 0;
}
