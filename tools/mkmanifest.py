#!/usr/bin/env python3
"""Regenerates /verif/MANIFEST.json from the table below (kept in one place so that the
claimed list, the technique field and not_applicable stay consistent)."""
import json, os, sys
V = os.path.dirname(os.path.dirname(os.path.abspath(__file__)))
props = [json.loads(l) for l in open(os.path.join(V, "properties.jsonl"))]

AI = "abstract interpretation over LLVM IR"
CLAIMED = {
 "C06": dict(level="proof", design="3/C06", tech=AI + " (interval with attained bounds, monotonicity, affine-error domains, constant propagation)",
   text="Abstract interpretation of the inlined LLVM IR of channel_convert for every ordered pair of provided channel models: every obligation of the decided clauses (range, lossless narrowing, end points, monotonicity, <1 unit from linear for integral pairs, round trip, identity) is discharged by a sound domain for all inputs at once; the suite evaluates no interior value.",
   note="Trusted: clang 14 front end + LLVM inliner/SROA/mem2reg, the transfer functions in harness/ir/num.py, the documented channel ranges. Not decided: float32-precision accuracy for pairs involving float/32-bit channels beyond range/end points/monotonicity."),
 "C07": dict(level="proof", design="3/C07", tech=AI + " (interval, monotonicity, affine form with product symbol, constant propagation)",
   text="Abstract interpretation of the inlined IR of channel_multiply/channel_invert for every provided channel model: no wrap or lossy narrowing, result in range, invert == max-x+min exactly and involutive, multiply within one unit of a*b/max, a function of the symmetric product (commutative), monotone in each argument, min annihilates, documented corners.",
   note="Trusted as for C06. Not decided: exactness of max as identity for interior values (div255 error bound is 0.502)."),
 "C02": dict(level="proof", design="3/C02", tech="global value numbering with polynomial normal form over inlined LLVM IR (address identities)",
   text="For every provided view kind (interleaved, planar, x/xy-step, transposed, packed, bit-aligned, channel views, dereference-adapted, virtual) and every factory, the memory cell denoted by F(v)(x,y) and by v(phi_F(x,y)) are normalised to polynomials over the view's fields and (x,y) and must be identical; likewise all ordered compositions of two factories, dimension formulas, nth/kth channel views and the stated identities. Equality of normal forms holds for all shapes, strides and coordinates at once.",
   note="Trusted: clang front end, LLVM inliner/SROA/mem2reg, the normaliser harness/ir/poly.py, the documented formulas in spec/c02_factories.json. Assumes bit offsets narrowed to int do not overflow. color_converted_view values are C09's clause; shallow-ness (no allocation/copy reachable) is checked by the AST who-may-call rule when present."),
 "C03": dict(level="proof", design="3/C03", tech="global value numbering with polynomial normal form over inlined LLVM IR (address identities, boolean polynomials for comparisons)",
   text="For every view kind, the cell reached through each navigation path (view(point), row/col iterators, x_at/y_at/xy_at, locator arithmetic, cached locations, axis iterators, in-place moves) has the same polynomial normal form as view(x,y) shifted by the offset; the polynomial random-access laws, the mutual mirroring of the ordering operators, their agreement with the direction of travel for positive and negative steps, and is_1d_traversable <=> row bytes == width*step are decided the same way, for all shapes, strides and offsets at once.",
   note="Trusted: clang front end, LLVM inliner/SROA/mem2reg, harness/ir/poly.py. Assumes non-zero iterator steps and that relationally compared pointers lie in one object. Not decided: row carry of iterator_from_2d for arbitrary offsets (begin()[n], at(x,y), end()-begin()), bit-offset carries as values (C08), reverse iterators."),
 "C08": dict(level="proof", design="3/C08", tech="bit-provenance abstract interpretation over inlined LLVM IR",
   text="Every write/read primitive of packed_channel_reference, packed_dynamic_channel_reference, packed_pixel and bit_aligned_pixel_reference (all carrier widths, first bits, channel widths, all 8 bit offsets) is interpreted in a domain where each stored bit is 0, 1, a copy of a named input bit or unknown; the resulting byte maps must equal the map computed from the template constants: channel bits <- value bits in order, every other bit its own previous value; get() returns exactly the channel bits. This covers all 2^k carrier contents and values at once, where the tests use one background and one value.",
   note="Trusted: clang front end, LLVM inliner/SROA/mem2reg, harness/ir/bits.py, little-endian target. Precondition: assigned value <= max. Not decided: modular values of ++/--/+= (only confinement to the channel's bits), bit-aligned iterator +n/-n value laws and distances (carry arithmetic over runtime n)."),
 "C05": dict(level="proof", design="3/C05", tech="bit-provenance and polynomial value-numbering abstract interpretation over inlined LLVM IR (memory effects, call sequences)",
   text="Over the cross product (value/C++ reference, planar reference, packed pixel, bit-aligned reference) x (every layout of rgb/rgba/cmyk/gray), assignment and converting construction are interpreted in the bit-provenance domain: each destination cell of a colour receives exactly the source cell of the same colour, every destination cell is written once and nothing else is; equality is the conjunction of same-colour comparisons; at_c/semantic_at_c/get_color/operator[]/dynamic_at_c addresses follow the documented mapping; static_for_each/transform/fill/generate (every const/non-const overload, 1-3 arguments, mixed layouts) call an opaque functor exactly once per channel with same-colour cells. The colour<->cell map comes from spec/c05_layouts.json, not from the code.",
   note="Trusted: clang front end, LLVM inliner/SROA/mem2reg, harness/ir/bits.py + poly.py, spec/c05_layouts.json, little-endian target. Assumes distinct argument objects do not alias. static_min/max and device_n layouts beyond the default are not enumerated."),
 "C01": dict(level="other", design="3/C01", tech="polynomial value numbering (allocation and address formulas incl. allocator call arguments) and bit-provenance footprint analysis over inlined LLVM IR",
   text="Decides the structural necessary conditions of in-buffer access for all dimensions/alignments at once: (1) address law of interleaved_view/planar_*_view; (2) for image<> over interleaved, planar, 16-bit, float, packed and bit-aligned pixels, at every construction site (size/fill/copy/move/view constructors, assignment, the three branches of every recreate overload) the cell polynomial of view(img)(x,y) -- including the byte count passed to the allocator -- equals the documented mechanism, and deallocate receives the allocated pointer and size; (3) byte footprint of packed/bit-aligned channel access inside the pixel's own bytes. With 0<=x<w, 0<=y<h these premises give the in-buffer lemma. Part (3) reports the library's genuine over-wide bit-field access as known findings.",
   note="Level 'other': necessary conditions, not the whole property. Trusted: clang front end, LLVM inliner/SROA/mem2reg/full unrolling, harness/ir/poly.py + bits.py; boost::gil::align is uninterpreted on both sides (its multiple-of-a contract is checked separately); *_pixels algorithms do not modify the image object. Not decided: that iterators and algorithms visit only in-range coordinates; overflow of w*h*step."),
 "C10": dict(level="other", design="3/C10", tech="ownership/lifetime typestate: structured abstract interpretation over the instantiated AST (all members, all exits incl. exceptional)",
   text="Every public member of image<> (constructors, destructor, copy/move/converting assignment, swap, all recreate overloads) is abstractly executed on the instantiated AST from every generic entry state, through every branch and with an exceptional successor at every call that may throw, descending into image's helpers and running ~image for temporaries, for interleaved/planar x {std::allocator, stateful propagating, stateful non-propagating possibly unequal}. Leak, double free/dangling view, recorded size, allocator identity, element lifetime and moved-from obligations are checked at every deallocate, overwrite of _memory and every normal and exceptional exit: whole-history resource balance follows from each member preserving the invariant. The recreate reuse-branch exception-safety defect is a known finding; the move-assign defect was repaired.",
   note="Level 'other': sound for the modelled ownership protocol; trusted axioms for allocate/deallocate and the *_pixels algorithms (construct: raw->constructed or throw leaving raw). Unknown conditions are explored both ways. A non-trivial element type cannot be instantiated with BOOST_GIL_USE_CONCEPT_CHECK, so element lifetime is decided on the image protocol, not inside algorithm.hpp's roll-back loops. Not decided: pixel values after copy; C++17 non-propagating swap path."),
 "C09": dict(level="other", design="3/C09", tech="abstract interpretation (interval/affine/monotonicity, constant propagation) and polynomial value numbering over inlined LLVM IR; AST who-may-call rules",
   text="For color_convert between gray, rgb, rgba and cmyk (8/16-bit and float, several layouts): output channels in range and lossless narrowing for all inputs; rgb->gray monotone per channel and within one unit of 0.30r+0.59g+0.11b, (v,v,v)->v exactly for 8-bit; gray->rgb(a) == channel_convert(gray); black/white end points between rgb, opaque rgba and cmyk; alpha handling, premultiplied-alpha equivalence, same-colour-space == per-channel channel_convert and independence of source/destination layout as equalities of value-numbering normal forms; converters access channels by colour name only and the view/algorithm entry points reach the default converter.",
   note="Level 'other': several clauses are necessary conditions. The c/m/y outputs of rgb(a)->cmyk involve (c-k)*max/(max-k) with k=min(c,m,y): range and narrowing there need relational reasoning and are listed as not decided in spec/c09_inconclusive.json, as are rgb->cmyk->rgb within one level and cmyk interior accuracy. gray<->cmyk end points are outside the property's statement and not checked (the library maps gray black to cmyk K=0)."),
 "C18": dict(level="other", design="3/C18", tech="interval abstract interpretation with attained bounds over inlined LLVM IR (switch coverage), polynomial value numbering, AST who-may-call",
   text="Decides the structural clauses of the toolbox converters: every hue-sector switch in hsv/hsl -> rgb covers the whole value range of its selector for hue in [0,1] (an uncovered value with an attained witness input is a violation: this found and the fix repaired hue = 1); gray_alpha -> rgba carries alpha and copies channel_convert(gray), gray_alpha -> rgb/gray == convert(gray*alpha), gray -> rgba sets alpha to max; the double-precision luminance functor has the core weights; every toolbox converter accesses channels by colour name only.",
   note="Level 'other': necessary conditions. Not decided: the round-trip tolerances and intermediate channel ranges of rgb <-> hsv/hsl/xyz/lab/ycbcr (relational floating-point reasoning over min/max/diff), which is the bulk of the property's numerical content."),
}
NA_REASON = {
 "C19": "sums over hash-map contents filled in data-dependent loops; no static domain in reach relates container contents to pixel counts (DESIGN 3/C19)",
}

checks = []
for pid, c in sorted(CLAIMED.items()):
    checks.append({"property_id": pid, "quick_cmd": "./check %s --tier quick" % pid,
                   "thorough_cmd": "./check %s --tier thorough" % pid,
                   "evidence_file": "/verif/evidence/%s.json" % pid, "replay_cmd_template": "cat {path}",
                   "engine": "gilsa",
                   "level_claimed": {"category": c["level"], "text": c["text"], "design_ref": c["design"]},
                   "level_note": c["note"], "technique": c["tech"]})
na = []
for p in props:
    if p["id"] in CLAIMED:
        continue
    na.append({"property_id": p["id"], "reason": NA_REASON.get(p["id"], "check not built yet (design in DESIGN.md section 3); not claimed until its static check lands")})
m = {"version": 1, "setup_cmd": "make -C /verif -j4",
     "hooks": {"guard": "BOOSTORG_GIL_VERIF",
               "enable": "-DBOOSTORG_GIL_VERIF on the driver compile lines (no hook in /repo is currently needed)",
               "baseline_off_cmd": "cmake --build /repo/_build -j16 && ctest --test-dir /repo/_build -j16 --timeout 900",
               "source_commits": [], "add_only": True},
     "engines": [{"name": "gilsa", "path": "/verif/check", "serves_properties": sorted(CLAIMED),
                  "kind_free_text": "static analysis: compile witnesses, custom AST rules (clang libTooling extractor + python rules), abstract interpretation over LLVM IR (irdump extractor + python domains)"}],
     "checks": checks, "not_applicable": na,
     "notes": "exit 0 holds / 1 VIOLATION / 2 analysis broken or incomplete. See DESIGN.md."}
json.dump(m, open(os.path.join(V, "MANIFEST.json"), "w"), indent=1)
print("claimed:", sorted(CLAIMED), "not applicable:", [x["property_id"] for x in na])
