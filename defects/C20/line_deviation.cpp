// C20 replay (known finding): bresenham_line_rasterizer uses the slope (|dy|+1)/(|dx|+1); on long flat lines a point is
// more than one pixel (along the minor axis) from the ideal segment.  g++ -std=c++14 -I/repo/include line_deviation.cpp
#include <boost/gil.hpp>
#include <boost/gil/extension/rasterization/line.hpp>
#include <cmath>
#include <cstdio>
#include <vector>
namespace gil = boost::gil;
int main()
{
    gil::bresenham_line_rasterizer r({0, 0}, {19, 4});
    std::vector<gil::point_t> pts(r.point_count());
    r(pts.begin());
    double worst = 0; gil::point_t wp{0, 0};
    for (auto p : pts)
    {
        double d = std::abs(static_cast<double>(p.y) - p.x * 4.0 / 19.0);
        if (d > worst) { worst = d; wp = p; }
    }
    std::printf("(0,0)->(19,4): point (%td,%td) is %.3f pixels from the ideal segment (y = %.3f)\n", wp.x, wp.y, worst, wp.x * 4.0 / 19.0);
    return worst > 1.0 ? 1 : 0;
}
