// C19 replay: cumulative_histogram of a 2-D histogram -- no bin holds the total ("its last bin equals the total")
// g++ -std=c++14 -I/repo/include cumulative_corner.cpp && ./a.out
#include <boost/gil.hpp>
#include <boost/gil/histogram.hpp>
#include <cstdio>
namespace gil = boost::gil;
int main()
{
    gil::histogram<int, int> h;            // e.g. the two-channel pixels (2,1) (5,3) (2,4)
    h(2, 1) = 1; h(2, 4) = 1; h(5, 3) = 1;
    auto c = gil::cumulative_histogram(h);
    double best = 0;
    for (auto const& b : c) { std::printf("cumulative(%d,%d) = %g\n", std::get<0>(b.first), std::get<1>(b.first), (double)b.second); if (b.second > best) best = b.second; }
    std::printf("total = %g, largest cumulative bin = %g (expected %g in the last bin)\n", h.sum(), best, h.sum());
    return best == h.sum() ? 0 : 1;
}
