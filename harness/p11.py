"""C11 reading any byte sequence terminates safely -- the clauses whose truth is in the shape of the reader code."""
import os, re, json
from . import common as C
from .ast import rules as R

LEVEL = "other"
EXPLANATION = ("Static analysis over the instantiated AST of every reader / scanline reader / reader back end (all six formats x "
               "{file, istream} devices, drivers/io_driver.cpp and drivers/c12_driver.cpp). Decided: (R1) every raw device "
               "read(buf,n) has its returned count checked (or is made through a wrapper that raises io_error on a short read); "
               "(R3) every store through a non-constant index into an array of constant extent is dominated by a comparison that "
               "bounds the index by the extent; (R4) setjmp frame discipline: every call into libpng/libjpeg that can longjmp "
               "happens while the jump buffer was armed by a setjmp of the current activation or of a live caller, never by one of "
               "a callee that has already returned or by the constructor's frame. Not decided: adequacy of each arithmetic bound, "
               "termination time, behaviour inside libpng/libjpeg/libtiff.")
W = "include/boost/gil/"
PATTERNS = ['^boost::gil::detail::is_allowed$', '^boost::gil::(read_image|read_view|read_and_convert_image|read_and_convert_view)$', '^boost::gil::reader_backend::', '^boost::gil::reader::', '^boost::gil::scanline_reader::',
            '^boost::gil::detail::(file_stream_device|istream_device)::', '^boost::gil::reader_base::',
            '^boost::gil::writer_backend::', '^boost::gil::writer::',
            '^boost::gil::detail::(png|jpeg)_[A-Za-z0-9_]+::', '^boost::gil::detail::row_buffer_helper', '^boost::gil::image_read_settings_base::']


def fmt_of(f):
    m = re.search(r"(bmp|pnm|targa|png|jpeg|tiff|raw)_tag", f.get("cls", "") + f.get("full", ""))
    return m.group(1) if m else None


def rel(f):
    p = f.get("file", "")
    i = p.find("include/boost/gil/")
    return p[i:] if i >= 0 else p


def load(wd):
    fns = []
    for drv in ("io_driver.cpp", "c12_driver.cpp"):
        d = C.astdump(os.path.join(C.DRIVERS, drv), os.path.join(wd, drv[:-4] + ".json"), PATTERNS, defs=C.IO_DEFS)
        if d.get("errors"):
            raise C.AnalysisBroken("drivers/%s has compile errors" % drv)
        fns += d["functions"]
    # one representative per (source location, name): the template instantiations of one function share the rule verdicts
    return fns


def stmt_position(path):
    """the node is evaluated for its side effect only"""
    for anc, field, idx in reversed(path):
        k = anc.get("k")
        if k in ("ImplicitCast", "ExplicitCast", "Paren", "ExprWithCleanups"):
            continue
        if k in ("Compound",) and field == "c":
            return True
        if k in ("For", "While", "Do") and field in ("body", "inc", "init"):
            return True
        if k == "If" and field in ("then", "else"):
            return True
        if k in ("Case", "Default") and field == "sub":
            return True
        return False
    return True


def short_reads(rep, fns):
    rep.rule("R1 every raw device read(buf, n) has its result used (compared / assigned / returned); a call in statement position discards the byte count, so a truncated file is decoded from stale buffer contents")
    seen = {}
    for f in fns:
        if not re.search(r"::(reader|scanline_reader|reader_backend)::", "::" + f["name"].split("boost::gil::")[-1].rsplit("::", 1)[0] + "::"):
            continue
        if fmt_of(f) not in ("bmp", "pnm", "targa", "png", "jpeg"):
            continue        # (tiff and raw have no device read of their own; png and jpeg feed libpng / libjpeg through a callback that has no way to
            #                 report a short read but png_error / a fake EOI: libpng re-parses its stale chunk buffer for ever otherwise)
        g = R.canonize(f)      # the construct key must not depend on local names: locals appear as % (role: "a local"), members by name
        for c, p in R.find(g["body"], lambda x: x.get("k") == "Call" and x.get("member_call") and re.search(r"_device::read$", (x.get("callee") or {}).get("name", "")) and len(x.get("args", [])) == 2):
            site = (rel(f), f["name"].split("::")[-1], re.sub(r"[%#@&]\d+", "%", R.key(c["args"][1])))
            key = "R1:%s:%s::%s:n=%s" % (fmt_of(f), f["name"].split("::")[-2], site[1], site[2])
            ok = not stmt_position(p)
            prev = seen.get(key)
            if prev is None:
                seen[key] = (ok, site, c.get("line"))
    for key, (ok, site, line) in sorted(seen.items()):
        rep.count("obligations:R1")
        if ok:
            rep.ok("R1-short-read", key, "count used")
        else:
            rep.violation("R1-short-read", key, "%s:%s" % (site[0], line),
                          {"call": "_io_dev.read(buf, %s)" % site[2], "problem": "returned byte count discarded: a file truncated inside the pixel data is accepted and rows are decoded from whatever the buffer held"})
    rep.floor("obligations:R1", 12)


def run(rep):
    C.need_tools(C.ASTDUMP)
    wd = C.workdir("C11")
    fns = load(wd)
    rep.units.append("drivers/io_driver.cpp + drivers/c12_driver.cpp: %d instantiated I/O functions" % len(fns))
    rep.trusted += ["clang front end (instantiated AST)", "harness/ast/rules.py (structured dominance)"]
    short_reads(rep, fns)
    from .p13 import checked_integer_reads
    checked_integer_reads(rep, fns, "R1c", "R1c-checked-read")
    fixed_buffers(rep, fns)
    jmp_typestate(rep, fns)
    run_bounds(rep, fns)
    palette_indices(rep, fns)
    mask_shifts(rep, fns)
    eof_progress(rep, fns)
    scanline_buffers(rep, fns)
    size_arithmetic(rep, fns)
    region_validated(rep, fns)
    header_validation(rep, fns)
    png_info_copies(rep, fns)
    lockstep_bounds(rep, fns)
    bmp_pitch(rep, fns)
    from .p06 import accept_inconclusive
    accept_inconclusive(rep, "c11_inconclusive.json")


CH_SIZE = {"unsigned char": 1, "signed char": 1, "char": 1, "unsigned short": 2, "short": 2, "unsigned int": 4, "int": 4, "float": 4, "double": 8,
           "unsigned long": 8, "long": 8}


def pixel_bytes(t):
    """sizeof of a homogeneous pixel<Channel, layout<mp_list<colours...>, ...>> type string (None for anything else)"""
    m = re.match(r"(?:const )?boost::gil::pixel<([^,<>]+|boost::gil::scoped_channel_value<float[^>]*>[^,]*), boost::gil::layout<boost::mp11::mp_list<([^<>]*)>", t or "")
    if not m:
        return None
    ch = m.group(1).strip()
    size = 4 if ch.startswith("boost::gil::scoped_channel_value<float") else CH_SIZE.get(ch)
    n = len([c for c in m.group(2).split(",") if c.strip()])
    return size * n if size else None


def scanline_buffers(rep, fns):
    """R7: the tiff strip reader lets libtiff write one whole scanline of the file into its row buffer"""
    rep.rule("R7 tiff reader::read_stripped_data<Buffer, View>: the row buffer receives a whole file scanline (read_scanline), so it holds at least "
             "get_scanline_size() bytes: the element count buffer_size<P>() = max(width, ceil(scanline bytes / sizeof(P))) is allocated in elements of the "
             "buffer's own pixel type E, which needs sizeof(E) >= sizeof(P) -- P must be the buffer's pixel, not the destination view's")
    seen = {}
    for f in fns:
        if not f["name"].endswith("reader::read_stripped_data") or fmt_of(f) != "tiff" or f.get("body") is None:
            continue
        P = None
        for c, _ in R.calls_in(f["body"], lambda n: n.endswith("::buffer_size")):
            m = re.search(r"::buffer_size<(.*)>$", c["callee"].get("full", ""))
            if m:
                P = m.group(1)
        E = None
        for d, _ in R.find(f["body"], lambda x: x.get("k") == "Decl"):
            for dd in d["decls"]:
                m = re.match(r"__gnu_cxx::__normal_iterator<(boost::gil::pixel<.*>) \*, std::vector<boost::gil::pixel<", dd.get("ctype") or "")
                if m:
                    E = m.group(1)
        if P is None or E is None:
            continue            # bit-aligned rows are sized in bytes by the other buffer_size overload
        sp, se = pixel_bytes(P), pixel_bytes(E)
        key = "R7:tiff:reader::read_stripped_data:row buffer of %s-byte pixels sized in %s-byte pixels" % (se, sp)
        if key in seen:
            continue
        seen[key] = (sp, se, P, E, "%s:%s" % (rel(f), f["line"]))
    for key, (sp, se, P, E, where) in sorted(seen.items()):
        rep.count("obligations:R7")
        if sp is None or se is None:
            rep.incon("R7-scanline-buffer", key, {"unrecognised": [P[:80], E[:80]]})
        elif se >= sp:
            rep.ok("R7-scanline-buffer", key, "bytes allocated >= ceil(scanline/%d)*%d >= scanline" % (sp, se))
        else:
            rep.violation("R7-scanline-buffer", key, where, {"buffer element": E[:100], "sized as if it were": P[:100],
                          "problem": "the buffer has max(width, ceil(scanline/%d)) elements of %d byte(s): fewer bytes than the scanline libtiff writes into it (heap overflow on read_and_convert_image of a narrower pixel type into a wider one, e.g. gray8 -> rgb8)" % (sp, se)})
    rep.floor("obligations:R7", 2)
    # R7c: what R7 takes for granted about buffer_size itself
    rep.rule("R7c tiff reader::buffer_size<P>(width, not bit-aligned) returns, for every scanline size s, an element count n with n * sizeof(P) >= s and n >= width: the returned "
             "expression is evaluated as written for s = 0 .. 4*sizeof(P)+3 and width 0 and 5 (the quotient must be rounded up: libtiff writes the whole scanline)")
    seen7 = set()
    for f in fns:
        if not f["name"].endswith("reader::buffer_size") or fmt_of(f) != "tiff" or f.get("body") is None or len(f["params"]) != 2 or "false" not in f["params"][1]["type"]:
            continue
        m = re.search(r"::buffer_size<(.*)>$", f.get("full", ""))
        e = pixel_bytes(m.group(1)) if m else None
        if e is None or e in seen7:
            continue
        seen7.add(e)
        rep.count("obligations:R7c")
        g = R.canonize(f)
        rets = [r for r, _ in R.find(g["body"], lambda x: x.get("k") == "Return" and x.get("e") is not None)]
        expr = rets[0]["e"] if len(rets) == 1 else None
        kx = R.key(expr) if expr is not None else ""
        if re.fullmatch(r"%\d+", kx):
            for dn, _ in R.find(g["body"], lambda x: x.get("k") == "Decl"):
                for dd in dn["decls"]:
                    if dd.get("name") == kx and dd.get("init") is not None:
                        expr = dd["init"]
        key = "R7c:tiff:reader::buffer_size:%d-byte elements" % e
        sizes = sorted({R.key(c) for c, _ in R.find(expr, lambda x: x.get("k") == "Call" and (x.get("callee") or {}).get("name", "").endswith("get_scanline_size"))}) if expr is not None else []
        # ... or a local that holds it (the call is not const, so the canonical form keeps the local)
        for dn, _ in R.find(g["body"], lambda x: x.get("k") == "Decl"):
            for dd in dn["decls"]:
                if dd.get("init") is not None and dd.get("name") and (R.strip(dd["init"]) or {}).get("k") == "Call" and ((R.strip(dd["init"]).get("callee") or {}).get("name", "")).endswith("get_scanline_size") \
                        and expr is not None and R.find(expr, lambda x: x.get("k") == "DeclRef" and x.get("name") == dd["name"]):
                    sizes.append(dd["name"])
        if expr is None or len(sizes) != 1:
            rep.incon("R7c-buffer-size", key, {"why": "no single returned expression over get_scanline_size()", "returned": kx[:160]})
            continue
        bad = None
        unknown = False
        for width in (0, 5):
            for sz in range(0, 4 * e + 4):
                n = _ieval(expr, {re.sub(r"this\.|this->", "", sizes[0]): sz, "$0": width})
                if n is None:
                    unknown = True
                    break
                if n * e < sz or n < width:
                    bad = (sz, width, n)
                    break
            if bad or unknown:
                break
        if unknown:
            rep.incon("R7c-buffer-size", key, {"why": "the returned expression could not be evaluated", "returned": R.key(expr)[:200]})
        elif bad:
            rep.violation("R7c-buffer-size", key, R.fn_where(f), {"returned": R.key(expr)[:200], "witness": "scanline of %d bytes, width %d: %d elements of %d bytes = %d bytes" % (bad[0], bad[1], bad[2], e, bad[2] * e),
                          "example": "cmyk + alpha tiff (5 samples) read with read_and_convert_image: the row buffer is 1-3 bytes short of the scanline libtiff writes into it"})
        else:
            rep.ok("R7c-buffer-size", key, R.key(expr)[:160])
    rep.floor("obligations:R7c", 2)
    # R7b: the tile readers decode into a buffer of the file's pixel type
    rep.rule("R7b tiff reader::read_tiled_data_full / _subimage<Buffer, View>: the buffer the tiles are decoded into has the pixel type of Buffer (the file's "
             "pixel type chosen by the caller), like read_stripped_data -- not the destination view's, which a converting read would fill with samples of another type")
    seen = {}

    def px_sig(t):
        m = re.search(r"boost::gil::pixel<((?:[^,<>]|<[^<>]*>)+), boost::gil::layout<boost::mp11::mp_list<([^<>]*)>", t or "")
        return (m.group(1).strip(), tuple(c.strip() for c in m.group(2).split(","))) if m else None
    for f in fns:
        short = f["name"].split("::")[-1]
        if short not in ("read_tiled_data_full", "read_tiled_data_subimage") or fmt_of(f) != "tiff" or f.get("body") is None:
            continue
        m = re.search(r"::%s<(.*)$" % short, f.get("full", ""))
        B = px_sig(m.group(1)) if m else None          # the first pixel type mentioned in the template arguments is Buffer's
        E = None
        for d, _ in R.find(f["body"], lambda x: x.get("k") == "Decl"):
            for dd in d["decls"]:
                mm = re.match(r"__gnu_cxx::__normal_iterator<(boost::gil::pixel<.*>) \*, std::vector<boost::gil::pixel<", dd.get("ctype") or "")
                if mm:
                    E = px_sig(mm.group(1))
        if B is None or E is None:
            continue
        key = "R7b:tiff:reader::%s:Buffer %s%s decoded into %s%s" % (short, B[0], list(B[1]), E[0], list(E[1]))
        key = key.replace("boost::gil::", "")
        if key not in seen:
            seen[key] = (B == E, "%s:%s" % (rel(f), f["line"]))
    for key, (ok, where) in sorted(seen.items()):
        rep.count("obligations:R7b")
        if ok:
            rep.ok("R7-scanline-buffer", key, "tile buffer has Buffer's pixel type")
        else:
            rep.violation("R7-scanline-buffer", key, where, {"problem": "the tile buffer is typed after the destination view: read_and_convert_image of a tiled file reinterprets the file's samples as destination pixels "
                                                             "(tiled gray8 10 -> rgb8 gives (10,0,0)) and the tiled and stripped readers disagree"})
    rep.floor("obligations:R7b", 4)


def array_extent(t):
    m = re.search(r"\[(\d+)\]$", (t or "").strip())
    return int(m.group(1)) if m else None


def bound_value(expr, basekey, n):
    """value of a bound expression: literal, sizeof(base), (sizeof(base) - c)"""
    if R.is_lit(expr):
        return int(expr)
    m = re.fullmatch(r"\(?sizeof\((.+?)\)(?: - (\d+)\))?", expr)
    if m and (m.group(1) == basekey or array_extent(m.group(1)) == n):
        return n - int(m.group(2) or 0)
    return None


def fixed_buffers(rep, fns):
    rep.rule("R3 a store buf[i] = ... into an array of constant extent N with a non-constant index i is dominated by a guard that bounds i by N "
             "(i < N, i <= N-1, i != N with unit steps...), or i is the induction variable of a loop whose condition is such a bound")
    seen = {}
    for f in fns:
        ordinal = {}            # arrays are named by their order of first use in the function, not by their identifier
        for a, p in sorted(R.find(f["body"], lambda x: x.get("k") in ("Assign", "CompoundAssign")), key=lambda t: t[0].get("line") or 0):
            l = R.strip(a["l"])
            if l is None or l.get("k") != "Subscript":
                continue
            base = R.strip(l["base"])
            n = array_extent(base.get("type"))
            if n is None:
                continue
            idx = R.strip(l["idx"])
            if "const" in idx and R.is_lit(str(idx["const"])):
                c = int(idx["const"])
                ok, why = (0 <= c < n), "constant index %d of %d" % (c, n)
                ik = str(c)
            else:
                ik = R.key(idx)
                var = re.sub(r"[()+\-]", "", ik)        # k++ / ++k / k
                gs = R.guards(p)
                ok, why = False, "no dominating bound on %s" % var
                mentioned = False
                for op, gl, gr in gs:
                    if gr == var and gl != var:
                        op, gl, gr = R.FLIP[op], gr, gl
                    if gl != var:
                        continue
                    mentioned = True
                    bound = bound_value(gr, R.key(base), n)
                    if bound is None:
                        continue
                    hi = bound - 1 if op == "<" else (bound if op == "<=" else None)     # index <= hi
                    if hi is not None and hi <= n - 1:
                        ok, why = True, "guard %s %s %s" % (var, op, gr)
                if not ok and mentioned:
                    why = "bounded only by a run-time value"
            bname = R.key(base)
            if base.get("k") == "DeclRef" and base.get("dk") in ("Var", "ParmVar"):
                bname = "array%d<%d>" % (ordinal.setdefault(base.get("id") or bname, len(ordinal) + 1), n)
            iname = ik if R.is_lit(ik) else ("i" if re.fullmatch(r"[\w()+\-]+", ik) and not ik.startswith("_") else ik)
            key = "R3:%s:%s::%s:%s[%s]" % (fmt_of(f) or "io", f["name"].split("::")[-2], f["name"].split("::")[-1], bname, iname)
            if key not in seen:
                seen[key] = (ok, why, rel(f), a.get("line"), n)
    for key, (ok, why, file, line, n) in sorted(seen.items()):
        rep.count("obligations:R3")
        if ok:
            rep.ok("R3-fixed-buffer", key, why)
        elif why == "bounded only by a run-time value":
            rep.incon("R3-fixed-buffer", key, {"where": "%s:%s" % (file, line), "extent": n, "why": "the index is compared with a run-time value only; the value analysis (R2) decides it"})
        else:
            rep.violation("R3-fixed-buffer", key, "%s:%s" % (file, line), {"extent": n, "problem": why + ": the index advances with the input (a long run of digits) and is never compared with the extent"})
    rep.floor("obligations:R3", 4)


# library entry points that parse file data and report malformed input through error_exit / png_error (longjmp)
LONGJMP_LIB = {"png_read_info", "png_read_update_info", "png_read_row", "png_read_rows", "png_read_image", "png_read_end", "png_read_png",
               "jpeg_read_header", "jpeg_start_decompress", "jpeg_read_scanlines", "jpeg_finish_decompress", "jpeg_consume_input",
               "jpeg_read_raw_data", "jpeg_skip_scanlines", "jpeg_start_output", "jpeg_finish_output"}


def is_setjmp(n):
    return n.get("k") == "Call" and (n.get("callee") or {}).get("name", "") in ("_setjmp", "setjmp", "__sigsetjmp", "sigsetjmp")


def jmp_typestate(rep, fns):
    """typestate of the libpng/libjpeg jump buffer along each member function of the png/jpeg classes.
    States: 'stale' (armed by a frame that has returned: constructor or a callee), 'caller' (armed by a live caller),
    'here' (armed by this activation)."""
    rep.rule("R4 a call into libpng/libjpeg that can longjmp is made only while the jump buffer was armed by setjmp in the current activation or in a live caller; "
             "after a callee that re-arms the buffer returns, the buffer is stale until re-armed")
    by_id, classes = {}, {}
    for f in fns:
        if fmt_of(f) in ("png", "jpeg") and f.get("body") is not None and re.search(r"::(reader|scanline_reader|reader_backend)::[^:]+$", f["name"]):
            by_id.setdefault(f["id"], f)
    rearms = {fid for fid, f in by_id.items() if R.find(f["body"], is_setjmp)}
    # transitive: a callee that calls a re-arming function
    changed = True
    while changed:
        changed = False
        for fid, f in by_id.items():
            if fid in rearms:
                continue
            for c, _ in R.find(f["body"], lambda x: x.get("k") == "Call"):
                if (c.get("callee") or {}).get("id") in rearms:
                    rearms.add(fid)
                    changed = True
                    break
    entry = {}
    callers = {}
    for fid, f in by_id.items():
        for c, _ in R.find(f["body"], lambda x: x.get("k") == "Call"):
            cid = (c.get("callee") or {}).get("id")
            if cid in by_id:
                callers.setdefault(cid, []).append(fid)
    results = {}

    def walk(n, st, fid, out):
        """returns the state after n; records (line, lib function, state) for lib calls"""
        if isinstance(n, list):
            for x in n:
                st = walk(x, st, fid, out)
            return st
        if not isinstance(n, dict):
            return st
        k = n.get("k")
        if k == "If":
            cond = n.get("cond")
            if cond is not None and R.find(cond, is_setjmp):
                # if (setjmp(buf)) { error path }  -- armed from here on
                return "here"
            st = walk(cond, st, fid, out)
            a = walk(n.get("then"), st, fid, out)
            b = walk(n.get("else"), st, fid, out) if n.get("else") is not None else st
            return a if a == b else worst(a, b)
        if k in ("For", "While", "Do", "ForRange"):
            st = walk(n.get("init"), st, fid, out)
            st = walk(n.get("cond"), st, fid, out)
            s1 = walk(n.get("body"), st, fid, out)
            s1 = walk(n.get("inc"), s1, fid, out)
            if s1 != st:                                   # second abstract iteration with the joined state
                s2 = worst(st, s1)
                walk(n.get("cond"), s2, fid, out)
                s1 = worst(s2, walk(n.get("body"), s2, fid, out))
            return worst(st, s1)
        if k == "Switch":
            sts = [st]
            body = R.strip(n.get("body"))
            for it in (body.get("c", []) if body and body.get("k") == "Compound" else [body]):
                sts.append(walk(it, st if (R.strip(it) or {}).get("k") in ("Case", "Default") else sts[-1], fid, out))
            r = sts[0]
            for x in sts[1:]:
                r = worst(r, x)
            return r
        if k == "Call":
            for a in n.get("args", []):
                st = walk(a, st, fid, out)
            if n.get("obj") is not None:
                st = walk(n["obj"], st, fid, out)
            if is_setjmp(n):
                return "here"
            cal = n.get("callee") or {}
            nm = cal.get("name", "")
            if nm in LONGJMP_LIB:
                out.append((n.get("line"), nm, st))
                return st
            cid = cal.get("id")
            if cid in by_id:
                # state seen by the callee at entry: our buffer is live for it
                entry.setdefault(cid, set()).add("caller" if st in ("here", "caller") else "stale")
                if cid in rearms:
                    return "stale"
            return st
        for kk, v in n.items():
            if isinstance(v, (dict, list)) and kk not in ("callee",):
                st = walk(v, st, fid, out)
        return st

    def worst(a, b):
        order = {"stale": 0, "caller": 1, "here": 2}
        return a if order[a] <= order[b] else b
    # fixpoint over entry states: functions without callers in the class are API entry points (stale: the constructor's frame is gone)
    for _ in range(6):
        results = {}
        for fid, f in by_id.items():
            ents = entry.get(fid) if callers.get(fid) else {"stale"}
            if not ents:
                continue
            for e in sorted(ents):
                out = []
                walk(f["body"], e, fid, out)
                results[(fid, e)] = out
    seen = {}
    for (fid, e), out in results.items():
        f = by_id[fid]
        for line, nm, st in out:
            key = "R4:%s:%s::%s:%s" % (fmt_of(f), f["name"].split("::")[-2], f["name"].split("::")[-1], nm)
            prev = seen.get(key)
            bad = st == "stale"
            if prev is None or (bad and not prev[0]):
                seen[key] = (bad, rel(f), line, e)
    for key, (bad, file, line, e) in sorted(seen.items()):
        rep.count("obligations:R4")
        if not bad:
            rep.ok("R4-setjmp-frame", key, "armed")
        else:
            rep.violation("R4-setjmp-frame", key, "%s:%s" % (file, line),
                          {"entry_state": e, "problem": "the jump buffer was last armed by a function that has already returned (or only by the constructor); if this library call reports an error, longjmp resumes a dead stack frame: undefined behaviour instead of an exception"})
    rep.floor("obligations:R4", 8)
    # R4b: readers handed over by value
    rep.rule("R4b a reader class whose constructor stores `this` in state shared with its copies (libjpeg's client_data) re-binds it in apply(), "
             "because read_image(Reader, ...) and read_view(Reader, ...) take the reader by value and run apply() on the copy")
    byval = [f for f in fns if re.fullmatch(r"boost::gil::(read_image|read_view)", f["name"]) and f["params"] and "reader<" in f["params"][0]["type"] and "&" not in f["params"][0]["type"].split(">")[-1]]
    rep.analysed["by_value_reader_entry_points"] = len(byval)
    for fmt in ("jpeg",):
        ctors = [f for f in fns if fmt_of(f) == fmt and f["name"].endswith("reader_backend::reader_backend")]
        stores = []
        for c in ctors[:1]:
            for a, _ in R.find(c["body"], lambda x: x.get("k") == "Assign"):
                if R.strip(a["r"]).get("k") == "This" and "get()" in R.key(a["l"]):
                    stores.append(R.key(a["l"]))
        for st in sorted(set(stores)):
            rep.count("obligations:R4b")
            key = "R4b:%s:%s" % (fmt, st)
            applies = [f for f in fns if fmt_of(f) == fmt and f["name"].endswith("reader::apply")]
            ok = bool(applies) and all(any(R.key(a["l"]) == st and "this" in R.key(a["r"]) for a, _ in R.find(f["body"], lambda x: x.get("k") == "Assign")) for f in applies)
            if ok or not byval:
                rep.ok("R4b-copied-reader", key, "re-bound in apply()")
            else:
                rep.violation("R4b-copied-reader", key, W + "extension/io/%s/detail/read.hpp" % fmt,
                              {"constructor_stores": st + " = this", "problem": "read_image/read_view run apply() on a copy of the reader; the error handler finds the jump buffer through this pointer, i.e. in the object the copy was made from, armed by its constructor: any libjpeg error during apply() jumps into a dead frame"})
    rep.floor("obligations:R4b", 1)


def _assigned_vars(n):
    out = set()
    for x, _ in R.find(n, lambda x: x.get("k") in ("Assign", "CompoundAssign") or (x.get("k") == "Unary" and x.get("op") in ("++", "--"))):
        out.add(R.key(x.get("l") if "l" in x else x.get("e")))
    return out


def run_bounds(rep, fns):
    """R5: writes whose position advances with a count taken from the file"""
    rep.rule("R5a (iterator cursor) a loop `for(i<N)` that stores through a post-incremented cursor `*C++ = ...` is preceded by the clamp/guard "
             "`if (N > E - C) N = E - C` or `if (N > E - C) io_error` on the same cursor C and end E, with N not reassigned in between; a second "
             "store in one iteration is guarded by a comparison of the incremented counter with the same N")
    rep.rule("R5b (index cursor) a block write memcpy(&V[p], .., len) / device.read(&V[p], len) whose position p advances by file-derived amounts is "
             "dominated by a guard len <= size - p (or p + len <= size) on the same p")
    seen = {}
    for f in fns:
        if fmt_of(f) not in ("bmp", "targa", "pnm") or f.get("body") is None:
            continue
        fname = "%s:%s::%s" % (fmt_of(f), f["name"].split("::")[-2], f["name"].split("::")[-1])
        # ---- R5a
        for loop, lp in R.find(f["body"], lambda x: x.get("k") == "For"):
            cond = R.strip(loop.get("cond")) if loop.get("cond") is not None else None
            if cond is None or cond.get("k") != "Binary" or cond.get("op") != "<":
                continue
            ivar, N = R.key(cond["l"]), R.key(cond["r"])
            stores = [(c, p) for c, p in R.find(loop.get("body"), lambda x: x.get("k") == "Call" and x.get("op") == "=" and re.match(r"\(\(\*\((\w+) \+\+ 0\)\) = ", R.key(x)))]
            if not stores:
                continue
            cursor = re.match(r"\(\(\*\((\w+) \+\+ 0\)\) = ", R.key(stores[0][0])).group(1)
            # the clamp / guard before the loop: walk the earlier siblings in the enclosing blocks, innermost first
            want = None
            found = None
            for anc, field, idx in reversed(lp):
                if anc.get("k") != "Compound" or field != "c" or idx is None:
                    continue
                for sib in reversed(anc["c"][:idx]):
                    s = R.strip(sib)
                    if N in _assigned_vars(s) and not (s.get("k") == "If"):
                        found = ("reassigned", R.key(s)[:80]) if s.get("k") in ("Assign",) and found is None and False else found
                    if s.get("k") == "Assign" and R.key(s["l"]) == N:
                        mm = re.fullmatch(r"min\((.+),(.+)\)", R.key(s["r"]).replace(" ", ""))
                        if mm and N in (mm.group(1), mm.group(2)):
                            other = mm.group(2) if mm.group(1) == N else mm.group(1)
                            other = re.sub(r"\((\w+)-(\w+)\)", r"(\1 - \2)", other)
                            found = ("clamp", other, other)
                            break
                    if s.get("k") == "If" and s.get("else") is None:
                        c = R.strip(s["cond"])
                        if c.get("k") == "Binary" and c.get("op") == ">" and R.key(c["l"]) == N:
                            bound = R.key(c["r"])
                            then = R.strip(s["then"])
                            body = [R.strip(x) for x in (then.get("c", []) if then.get("k") == "Compound" else [then])]
                            if len(body) == 1 and body[0].get("k") == "Assign" and R.key(body[0]["l"]) == N:
                                found = ("clamp", bound, R.key(body[0]["r"]))
                            elif R.is_exit(then):
                                found = ("guard", bound, bound)
                            break
                if found:
                    break
            rhs = R.key(stores[0][0]).split(" = ", 1)[1].rstrip(")")
            key = "R5a:%s:run of %s through %s storing %s" % (fname, N, cursor, rhs)
            ok, why = False, "no clamp/guard of %s before the loop" % N
            if found and found[0] in ("clamp", "guard"):
                m = re.fullmatch(r"\((\w+) - (\w+)\)", found[1])
                if m and m.group(2) == cursor and found[1] == found[2]:
                    ok, why = True, "%s: %s <= %s" % (found[0], N, found[1])
                else:
                    why = "%s compares %s with %s (and sets it to %s): not the room left behind the cursor %s" % (found[0], N, found[1], found[2], cursor)
            # second and later stores of one iteration
            if ok and len(stores) > 1:
                for c, p in stores[1:]:
                    gs = R.guards(p)
                    g2 = [(op, l, r) for op, l, r in gs if ("++" + ivar) in l.replace(" ", "") or ("(++%s)" % ivar) == l]
                    if not any(r == N for op, l, r in g2):
                        ok, why = False, "the store at line %s follows `++%s` and is guarded by a comparison with %s, not with the clamped %s" % (c.get("line"), ivar, [r for _, _, r in g2], N)
            prev = seen.get(key)
            if prev is None or (prev[0] and not ok):
                seen[key] = (ok, why, rel(f), loop.get("line"))
        # ---- R5b
        for c, p in R.find(f["body"], lambda x: x.get("k") == "Call" and (re.search(r"(^|::)memcpy$", (x.get("callee") or {}).get("name", "")) or
                                                               (re.search(r"_device::read$", (x.get("callee") or {}).get("name", "")) and len(x.get("args", [])) == 2))):
            args = c["args"]
            dst = R.key(args[0])
            m = re.fullmatch(r"\(&(\w+)\[(\w+)\]\)", dst)
            if not m:
                continue
            vec, pos = m.group(1), m.group(2)
            ln = R.key(args[-1])
            if pos not in _assigned_vars(f["body"]):
                continue
            gs = R.guards(p)
            ok, why = False, "no guard relates %s + %s to the size of %s" % (pos, ln, vec)
            for op, l, r in gs:
                o, l2, r2 = op, l, r
                txt = "%s %s %s" % (l2, o, r2)
                if pos in txt and ln.strip("()") in txt.replace("(", "").replace(")", "") and o in ("<=", ">=", "<", ">") and ("-" in txt or "+" in txt):
                    ok, why = True, "guard " + txt
            key = "R5b:%s:%s[%s..+%s]" % (fname, vec, pos, ln)
            prev = seen.get(key)
            if prev is None or (prev[0] and not ok):
                seen[key] = (ok, why, rel(f), c.get("line"))
    for key, (ok, why, file, line) in sorted(seen.items()):
        rep.count("obligations:R5")
        if ok:
            rep.ok("R5-run-bounds", key, why)
        else:
            rep.violation("R5-run-bounds", key, "%s:%s" % (file, line), {"problem": why + ": a crafted run length writes past the end of the decode buffer"})
    rep.floor("obligations:R5", 6)
    rep.floor("rule:R5-run-bounds", 6)


# ------------------------------------------------------------------ R2: value analysis of palette indices (A-exec)
def palette_indices(rep, fns):
    """R2a: abstract execution (harness/ast/absexec.py) of the bmp readers under every palette configuration
    (bits per pixel x compression): every `_palette[i]` has  max(i) < min(size of _palette)."""
    from . import p12
    from .ast.absexec import Exec, Stop, type_range
    from .ir.poly import Poly
    rep.rule("R2a bmp: under each header configuration (1/4/8 bits per pixel, rgb/rle4/rle8) the reader is executed abstractly with the "
             "number of colours and all pixel data as ranged symbols; at every _palette[i] the upper bound of i is below the lower bound "
             "of the palette's size (established by resize)")

    Scan = p12.ScanExec
    readers = [f for f in fns if f["name"].endswith("reader::apply") and fmt_of(f) == "bmp" and "file_stream_device" in f["full"] and "read_and_convert<" in f["full"]]
    if not readers:
        rep.fail_analysis("R2a: no bmp reader<...,read_and_convert>::apply instantiation")
        return
    seen = {}
    sized = {}
    rep.rule("R2c bmp: the size the palette is resized to has an upper bound that does not depend on the 32-bit colour count of the header (it is at most 65536 under every "
             "configuration): the header alone must not make the reader allocate and clear gigabytes")
    CASES = [(1, 0, "1bpp"), (4, 0, "4bpp"), (4, 2, "4bpp rle4"), (8, 0, "8bpp"), (8, 1, "8bpp rle8")]
    for bpp, comp, cname in CASES:
        ex = Scan(fns)
        ex.ranges["NC"] = (0, 2 ** 31 - 1)
        env = {"_bits_per_pixel": Poly.const(bpp), "_compression": Poly.const(comp), "_header_size": Poly.const(40), "_valid": Poly.const(1),
               "_width": Poly.atom("W"), "_height": Poly.atom("H"), "_num_colors": Poly.atom("NC"), "_offset": Poly.const(54), "_top_down": Poly.const(0)}
        for k, v in env.items():
            ex.env["M:_info." + k] = v
        ex.env["M:_settings._top_left.x"] = Poly.const(0)
        ex.env["M:_settings._top_left.y"] = Poly.const(0)
        ex.env["M:_settings._dim.x"] = Poly.atom("W")
        ex.env["M:_settings._dim.y"] = Poly.atom("H")
        try:
            ex.invoke(readers[0], [])
        except Stop as st:
            rep.fail_analysis("R2a %s: the abstract run of reader::apply stops with %s at line %s" % (cname, st.why, st.line))
            continue
        idx = [e for e in ex.events if e["kind"] == "index" and not e["loopvar"]]
        rsz = [e for e in ex.events if e["kind"] == "resize"]
        if not idx or not rsz:
            rep.fail_analysis("R2a %s: no palette access reached (resize %d, index %d)" % (cname, len(rsz), len(idx)))
            continue
        for e in [e for e in rsz if str(e.get("vec", "")).endswith("_palette")]:
            k2 = "R2c:bmp:reader:%s:_palette.resize" % ((e.get("fn") or "").split("::")[-1])
            ub = e["size_bounds"][1]
            if k2 not in sized or (sized[k2][0] and not (ub is not None and ub <= 65536)):
                sized[k2] = (ub is not None and ub <= 65536, ub, e["line"])
        for e in idx:
            key = "R2a:bmp:%s:%s:_palette[%s]" % (cname, (e["fn"] or "").split("::")[-1], e["idx"])
            ib, sb = e["idx_bounds"], e["size_bounds"]
            ok = ib[1] is not None and sb[0] is not None and ib[0] is not None and ib[0] >= 0 and ib[1] < sb[0]
            if key not in seen or (seen[key][0] and not ok):
                seen[key] = (ok, ib, sb, e["line"])
    inits = [f for f in fns if f["name"].endswith("scanline_reader::initialize") and fmt_of(f) == "bmp" and "file_stream_device" in f["full"]]
    if not inits:
        rep.fail_analysis("R2a: no bmp scanline_reader::initialize instantiation")
    for bpp, comp, cname in [c for c in CASES if c[1] == 0] if inits else []:
        ex = Scan(fns)
        ex.ranges["NC"] = (0, 2 ** 31 - 1)
        env = {"_bits_per_pixel": Poly.const(bpp), "_compression": Poly.const(comp), "_header_size": Poly.const(40), "_valid": Poly.const(1),
               "_width": Poly.atom("W"), "_height": Poly.atom("H"), "_num_colors": Poly.atom("NC"), "_offset": Poly.const(54), "_top_down": Poly.const(0)}
        for k, v in env.items():
            ex.env["M:_info." + k] = v
        try:
            ex.invoke(inits[0], [])
            for fid in list(ex.memfns):
                g = ex.by_id.get(fid)
                if g is not None:
                    ex.invoke(g, [])
        except Stop as st:
            rep.fail_analysis("R2a scanline %s: the abstract run stops with %s at line %s" % (cname, st.why, st.line))
            continue
        idx = [e for e in ex.events if e["kind"] == "index" and not e["loopvar"]]
        for e in [e for e in ex.events if e["kind"] == "resize" and str(e.get("vec", "")).endswith("_palette")]:
            k2 = "R2c:bmp:scanline_reader:%s:_palette.resize" % ((e.get("fn") or "").split("::")[-1])
            ub = e["size_bounds"][1]
            if k2 not in sized or (sized[k2][0] and not (ub is not None and ub <= 65536)):
                sized[k2] = (ub is not None and ub <= 65536, ub, e["line"])
        if not idx:
            rep.fail_analysis("R2a scanline %s: no palette access reached (row functions %d)" % (cname, len(ex.memfns)))
            continue
        for e in idx:
            key = "R2a:bmp:scanline %s:%s:_palette[%s]" % (cname, (e["fn"] or "").split("::")[-1], e["idx"])
            ib, sb = e["idx_bounds"], e["size_bounds"]
            ok = ib[1] is not None and sb[0] is not None and ib[0] is not None and ib[0] >= 0 and ib[1] < sb[0]
            if key not in seen or (seen[key][0] and not ok):
                seen[key] = (ok, ib, sb, e["line"])
    for key, (ok, ib, sb, line) in sorted(seen.items()):
        rep.count("obligations:R2a")
        if ok:
            rep.ok("R2a-palette-index", key, "index in [%s,%s] < size >= %s" % (ib[0], ib[1], sb[0]))
        elif ib[1] is None or sb[0] is None:
            rep.fail_analysis("%s: bounds not established (index %s, size %s)" % (key, ib, sb))
        else:
            rep.violation("R2a-palette-index", key, W + "extension/io/bmp/detail/%s:%s" % ("scanline_read.hpp" if "scanline" in key else "read.hpp", line),
                          {"index_range": [ib[0], ib[1]], "palette_size_at_least": sb[0],
                           "problem": "the index comes from the pixel data, the palette size from the header's number of colours: a file declaring fewer colours than its pixels use reads behind the palette"})
    for k2, (ok, ub, line) in sorted(sized.items()):
        rep.count("obligations:R2c")
        if ok:
            rep.ok("R2c-palette-size", k2, "size <= %s" % ub)
        else:
            rep.violation("R2c-palette-size", k2, W + "extension/io/bmp/detail/reader_backend.hpp:%s" % line, {"upper bound of the size": ub,
                          "problem": "the palette is sized by the header's number of colours alone", "example": "a 74-byte 1-bit file with num_colors = 0x7fffffff allocates and clears 8 GB before the first palette byte is read"})
    rep.floor("obligations:R2a", 11)
    rep.floor("obligations:R2c", 2)


def mask_shifts(rep, fns):
    rep.rule("R2b bmp: wherever the channel widths are computed from file-supplied masks (count_ones), the same block goes on to reject widths outside "
             "1..8 for all three channels before anything else uses them; the only run-time shift amounts in the row decoders are `_mask.c.shift` and `8 - _mask.c.width`")
    seen = {}
    shifts = {}
    for f in fns:
        if fmt_of(f) != "bmp" or f.get("body") is None or not re.search(r"::(reader|scanline_reader)::[^:]+$", f["name"]):
            continue
        fname = "%s::%s" % (f["name"].split("::")[-2], f["name"].split("::")[-1])
        for blk, _ in R.find(f["body"], lambda x: x.get("k") == "Compound"):
            items = [R.strip(x) for x in blk.get("c", [])]
            widx = [i for i, x in enumerate(items) if x.get("k") == "Assign" and re.fullmatch(r"_mask\.(red|green|blue)\.width", R.key(x["l"])) and "count_ones" in R.key(x["r"])]
            if not widx:
                continue
            need = {(c, b) for c in ("red", "green", "blue") for b in ("low", "high")}
            got = set()
            for x in items[max(widx) + 1:]:
                conds = []
                if x.get("k") == "Call" and x["callee"]["name"].endswith("io_error_if") and x.get("args"):
                    conds = R.atoms(x["args"][0], False)       # what holds afterwards
                elif x.get("k") == "If" and x.get("else") is None and R.is_exit(x.get("then")):
                    conds = R.atoms(x["cond"], False)
                for op, l, r in conds:
                    m = re.fullmatch(r"_mask\.(red|green|blue)\.width", l)
                    if m and R.is_lit(r):
                        if (op == "<=" and int(r) <= 8) or (op == "<" and int(r) <= 9):
                            got.add((m.group(1), "high"))
                        if (op == "!=" and int(r) == 0) or (op == ">" and int(r) >= 0) or (op == ">=" and int(r) >= 1):
                            got.add((m.group(1), "low"))
                    m = re.fullmatch(r"_mask\.(red|green|blue)\.width", r)
                    if m and R.is_lit(l):
                        if (op == ">=" and int(l) <= 8) or (op == ">" and int(l) <= 9):
                            got.add((m.group(1), "high"))
                        if (op == "!=" and int(l) == 0) or (op == "<" and int(l) >= 0) or (op == "<=" and int(l) >= 1):
                            got.add((m.group(1), "low"))
            key = "R2b:bmp:%s:mask widths validated" % fname
            seen[key] = (need <= got, sorted(need - got), rel(f), items[widx[0]].get("line"))
        for x, _ in R.find(f["body"], lambda x: x.get("k") == "Binary" and x.get("op") in ("<<", ">>")):
            amt = R.strip(x["r"])
            if "const" in amt and R.is_lit(str(amt["const"])):
                continue
            k = R.key(amt)
            if "_mask" in R.key(x) or "_mask" in k:
                ok = bool(re.fullmatch(r"_mask\.(red|green|blue)\.shift|\(8 - _mask\.(red|green|blue)\.width\)", k))
                shifts["R2b:bmp:%s:shift by %s" % (fname, k)] = (ok, rel(f), x.get("line"))
    for key, (ok, missing, file, line) in sorted(seen.items()):
        rep.count("obligations:R2b")
        if ok:
            rep.ok("R2b-mask-shift", key, "1 <= width <= 8 for red, green, blue")
        else:
            rep.violation("R2b-mask-shift", key, "%s:%s" % (file, line), {"missing_bounds": ["%s.width %s" % (c, "<= 8" if b == "high" else ">= 1") for c, b in missing],
                                                                             "problem": "widths are count_ones(mask) of masks read from the file: the rows are decoded with `<< (8 - width)` and `>> trailing_zeros(mask)`, a negative or >= 32 shift for a mask wider than 8 bits or an empty mask"})
    for key, (ok, file, line) in sorted(shifts.items()):
        rep.count("obligations:R2b")
        if ok:
            rep.ok("R2b-mask-shift", key, "validated amount")
        else:
            rep.violation("R2b-mask-shift", key, "%s:%s" % (file, line), {"problem": "a shift by a file-derived amount that the mask validation does not cover"})
    rep.floor("obligations:R2b", 8)


def eof_progress(rep, fns):
    rep.rule("R6a both input devices' getc() raise io_error when the underlying get returns EOF (the comment/number skipping loops of the PNM parser rely on it to terminate)")
    rep.rule("R6b every loop that consumes input with getc_unchecked() compares the value with EOF on a path that leaves the loop")
    rep.rule("R6c where such a token loop is nested in the loop over the samples of a row, the exit taken on EOF raises io_error (a return or break accepts a raster that ends early)")
    seen = set()
    for f in fns:
        m = re.match(r"boost::gil::detail::(file_stream_device|istream_device)::getc$", f["name"])
        if not m or m.group(1) in seen:
            continue
        seen.add(m.group(1))
        rep.count("obligations:R6")
        ok = False
        g = R.canonize(f)          # the character read is a written local: %k, whatever its name
        chv = None
        for c, _ in R.calls_in(g["body"], lambda n: n.endswith("io_error_if")):
            k = R.key(c["args"][0])
            mm = re.search(r"\(\((%\d+) = .*(getc|get)\(.*\)\) == -1\)", k)
            if mm:
                ok, chv = True, mm.group(1)
        for c, p in R.calls_in(g["body"], lambda n: n.endswith("io_error")):
            for op, l, r in R.guards(p):
                if op == "==" and "-1" in (l, r) and re.fullmatch(r"%\d+", l if r == "-1" else r):
                    ok, chv = True, (l if r == "-1" else r)
        rets = [R.key(x["e"]) for x, _ in R.find(g["body"], lambda x: x.get("k") == "Return" and x.get("e") is not None)]
        key = "R6a:%s::getc" % m.group(1)
        if ok and rets == [chv]:
            rep.ok("R6-eof", key, "EOF -> io_error")
        else:
            rep.violation("R6-eof", key, "%s:%s" % (rel(f), f["line"]), {"returns": rets, "eof_check_found": ok,
                                                                       "problem": "at end of input getc() returns (char)EOF instead of raising: `do ch = getc(); while (ch != '\\n')` in the PNM header parser never terminates on a file that ends inside a comment"})
    if len(seen) < 2:
        rep.fail_analysis("R6a: getc() of %s not instantiated" % sorted({"file_stream_device", "istream_device"} - seen))
    done = set()
    for f in fns:
        if f.get("body") is None:
            continue
        for lp, _ in R.find(f["body"], lambda x: x.get("k") in ("For", "While", "Do")):
            gets = [c for c, _ in R.find(lp.get("body"), lambda x: x.get("k") == "Call" and (x.get("callee") or {}).get("name", "").endswith("getc_unchecked"))]
            if not gets:
                continue
            inner = [x for x, _ in R.find(lp.get("body"), lambda x: x.get("k") in ("For", "While", "Do")) if R.find(x, lambda y: y.get("k") == "Call" and (y.get("callee") or {}).get("name", "").endswith("getc_unchecked"))]
            if inner:
                continue        # judged at the innermost loop
            key = "R6b:%s:%s::%s:line%s" % (fmt_of(f), f["name"].split("::")[-2], f["name"].split("::")[-1], "")
            key = key.rstrip(":line")
            if key in done:
                continue
            done.add(key)
            rep.count("obligations:R6")
            ok = False
            for x, p in R.find(lp.get("body"), lambda x: x.get("k") in ("Return", "Break", "Throw") or (x.get("k") == "Call" and (x.get("callee") or {}).get("name", "").endswith("io_error"))):
                gs = R.guards(p)
                if any((r == "-1" or l == "-1") and op in ("==",) for op, l, r in gs):
                    ok = True
                # `if (ch == EOF || ...) return;` : EOF is one disjunct of the condition that guards the exit
                for anc, field, idx in p:
                    if anc.get("k") == "If" and field == "then":
                        def disj(n, out):
                            n = R.strip(n)
                            while n is not None and n.get("k") == "Paren":
                                n = R.strip(n["e"])
                            if n is not None and n.get("k") == "Binary" and n.get("op") == "||":
                                disj(n["l"], out); disj(n["r"], out)
                            elif n is not None:
                                out.append(n)
                            return out
                        for dn in disj(anc["cond"], []):
                            if dn.get("k") == "Binary" and dn.get("op") == "==" and "-1" in (R.key(dn["l"]), R.key(dn["r"])):
                                ok = True
            if ok:
                rep.ok("R6-eof", key, "EOF leaves the loop")
            else:
                rep.violation("R6-eof", key, "%s:%s" % (rel(f), lp.get("line")), {"problem": "the loop reads with getc_unchecked() and has no exit taken on EOF: it does not terminate on truncated input"})
            # R6c: inside a raster loop (the token loop is nested in the loop over the samples of a row) running out of input must be an error:
            # a plain return leaves the rest of the row -- and of the image -- as it was (uninitialised memory for read_image)
            outer = [a for a, fld, _ in _ if False]
            nested = bool(R.find(f["body"], lambda x: x.get("k") in ("For", "While", "Do") and x is not lp and R.find(x.get("body"), lambda y: y is lp)))
            if nested:
                rep.count("obligations:R6c")
                silent = []
                for x, p in R.find(lp.get("body"), lambda x: x.get("k") in ("Return", "Break")):
                    for anc, field, idx in p:
                        if anc.get("k") == "If" and field == "then" and "== -1" in R.key(anc["cond"]) and not R.find(anc["then"], lambda y: y.get("k") == "Call" and (y.get("callee") or {}).get("name", "").endswith("io_error")):
                            silent.append(x.get("line"))
                k6 = key.replace("R6b:", "R6c:")
                if silent:
                    rep.violation("R6-raster-eof", k6, "%s:%s" % (rel(f), lp.get("line")), {"problem": "end of input (or a non-digit) inside the raster leaves the function silently: the remaining samples of the row and all later "
                                  "rows keep their previous contents", "example": "\"P2\\n2 2\\n255\\n1 2\\n\" is accepted, pixels 1 2 ? ?", "silent exits at lines": silent})
                else:
                    rep.ok("R6-raster-eof", k6, "end of input inside the raster raises")
    rep.floor("obligations:R6", 4)
    rep.floor("obligations:R6c", 2)


def size_arithmetic(rep, fns):
    """R8: sizes, pitches and file offsets are products of header fields. The header types are narrow (targa: uint16 x uint16, bmp: int32 x uint16), so a product that
    is computed in the promoted type `int` can wrap for a crafted header and the buffer derived from it is too small for the pixels the reader then copies."""
    rep.rule("R8 in every instantiated I/O function a multiplication that involves a data member of the reader (the header fields _info.*, or a pitch / scanline length "
             "derived from them) is computed in a 64-bit type, or its interval -- from the canonical types of its leaves, looking through the integral promotions -- "
             "stays inside the type it is computed in. A violation carries the extreme operands as witness; a product whose operands are compared with anything "
             "in the same function before it (a validation) is left undecided instead")
    seen = {}
    nprod = 0
    for f in fns:
        w = rel(f)
        if "/io/" not in w:
            continue
        g = f
        for x, path in R.find(g["body"], lambda x: x.get("k") == "Binary" and x.get("op") == "*" and "const" not in x):
            t = R._cty(x.get("ctype") or x.get("type") or "")
            if t not in R._NARROW and t not in R._WIDE:
                continue
            mem = [m for m, _ in R.find(x, lambda y: y.get("k") == "Member" and y.get("dk") == "Field")]
            if not mem:
                continue
            # the outermost product only (a*b*c is reported once)
            par = path[-1][0] if path else None
            while par is not None and par.get("k") in ("Paren", "ImplicitCast") and False:
                break
            if any(a.get("k") == "Binary" and a.get("op") == "*" for a, _, _ in path[-3:]):
                continue
            nprod += 1
            r = R.type_range(x)
            lim = R._TYRANGE.get(t)
            keyx = R.key(x)
            k = "R8:%s:%s:%s" % (fmt_of(f) or "io", f["name"].split("::")[-1], re.sub(r"this\.|this->", "", keyx))
            if k in seen:
                continue
            seen[k] = 1
            rep.count("obligations:R8")
            if t in R._WIDE:
                rep.ok("R8-size-arithmetic", k, {"computed_in": t})
                continue
            if r is not None and lim[0] <= r[0] and r[1] <= lim[1]:
                rep.ok("R8-size-arithmetic", k, {"computed_in": t, "interval": r})
                continue
            names = sorted({m["name"] for m in mem})
            validated = [R.key(c)[:100] for c, _ in R.find(g["body"], lambda y: y.get("k") == "Binary" and y.get("op") in ("<", "<=", ">", ">=") and (y.get("line") or 0) < (x.get("line") or 0)
                                                            and any(n in R.key(y) for n in names if n not in ("_info",)) and "_bits_per_pixel" not in R.key(y)
                                                            and R.key(y["l"]) != "0" and R.key(y["r"]) != "0")]
            if r is None or validated:
                rep.incon("R8-size-arithmetic", k, {"where": R.fn_where(f), "product": keyx, "computed_in": t, "interval": r, "comparisons before it": validated[:4]})
                continue
            ops = [R.type_range(x["l"]), R.type_range(x["r"])]
            rep.violation("R8-size-arithmetic", k, R.fn_where(f), {"product": keyx, "computed_in": t, "interval_from_leaf_types": r, "operand_intervals": ops,
                          "witness": "operands %s and %s: the product %d does not fit %s" % (ops[0][1], ops[1][1], ops[0][1] * ops[1][1], t)})
    rep.floor("obligations:R8", 12)
    # R8b: the devices hand byte counts to the C / C++ library; a count narrowed to 32 bits on the way changes sign for 2^31 <= n < 2^32 and comes back as a huge size_t
    rep.rule("R8b no member of file_stream_device / istream_device narrows a byte count or offset parameter from 64 to 32 bits before passing it on (fread / fwrite / read / "
             "write / seek take size_t / streamsize / long): static_cast<int>(count) turns 2^31 + k into a negative int, fread then gets SIZE_MAX - ... and fills the buffer past its end")
    seen8 = set()
    for f in fns:
        m = re.match(r"boost::gil::detail::(file_stream_device|istream_device|ostream_device)::(read|write|seek)$", f["name"])
        if not m or f.get("body") is None:
            continue
        g = R.canonize(f)
        key = "R8b:%s::%s(%s)" % (m.group(1), m.group(2), ",".join(re.sub(r"boost::gil::|std::", "", p["type"])[:24] for p in f["params"]))
        if key in seen8:
            continue
        seen8.add(key)
        rep.count("obligations:R8b")
        bad = []
        for x, _ in R.find(g["body"], lambda x: x.get("k") in ("ImplicitCast", "ExplicitCast") and x.get("from_c") is not None):
            frm, to = R._cty(x["from_c"]), R._cty(x["to_c"])
            if frm in R._WIDE and to in R._NARROW and "const" not in x and re.search(r"\$\d", R.key(x["e"])):
                r = R.type_range(x["e"])
                lim = R._TYRANGE[to]
                if not (r is not None and lim[0] <= r[0] and r[1] <= lim[1]):
                    bad.append({"narrowed": R.key(x["e"])[:80], "from": frm, "to": to, "line": x.get("line")})
        if bad:
            rep.violation("R8b-count-narrowed", key, R.fn_where(f), {"casts": bad, "witness": "count 2^31 + 16: static_cast<int> gives -2147483632, converted to size_t for fread 18446744071562067984: the whole rest of the file is read into a buffer of 2^31 + 16 bytes"})
        else:
            rep.ok("R8b-count-narrowed", key, "counts and offsets reach the library unnarrowed")
    rep.floor("obligations:R8b", 4)


def region_validated(rep, fns):
    """R10: the readers add _settings._top_left to row iterators and loop over _settings._dim; nothing else relates the region to the picture in the file."""
    rep.rule("R10 the constructor of every reader back end (bmp, pnm, targa, png, jpeg, tiff) -- after read_header() and after a zero _dim has been replaced by the file's "
             "dimensions -- compares the region of its settings with the header's width and height on a path to io_error: either in place, or by calling a function with "
             "_info._width and _info._height whose body raises io_error under conditions on _top_left.x/.y and _dim.x/.y that involve its two parameters")
    byid = {f["id"]: f for f in fns}
    seen = set()
    for f in fns:
        if f["name"] != "boost::gil::reader_backend::reader_backend" or fmt_of(f) in seen or fmt_of(f) is None:
            continue
        if not R.find(f["body"], lambda x: x.get("k") == "Call" and (x.get("callee") or {}).get("name", "").endswith("::read_header")):
            continue            # copy constructor and the like
        fmt = fmt_of(f)
        seen.add(fmt)
        rep.count("obligations:R10")
        key = "R10:%s:reader_backend::reader_backend" % fmt
        verdict = None
        hdr_line = min(x.get("line") or 0 for x, _ in R.find(f["body"], lambda x: x.get("k") == "Call" and (x.get("callee") or {}).get("name", "").endswith("::read_header")))
        # (a) in place
        for c, _ in R.find(f["body"], lambda x: x.get("k") == "Binary" and x.get("op") in ("<", "<=", ">", ">=")):
            k = R.key(c)
            if "_top_left" in k and ("_info._width" in k or "_info._height" in k) and (c.get("line") or 0) > hdr_line:
                verdict = "compared in place: %s" % k[:120]
        # (b) through a callee that gets the header's dimensions
        for c, _ in R.find(f["body"], lambda x: x.get("k") == "Call" and (x.get("line") or 0) > hdr_line):
            args = [R.key(a) for a in c.get("args", [])]
            if not (any("_info._width" in a for a in args) and any("_info._height" in a for a in args)):
                continue
            g0 = byid.get((c.get("callee") or {}).get("id"))
            if g0 is None:
                continue
            g = R.canonize(g0)
            conds = [R.key(x) for x, _ in R.find(g["body"], lambda x: x.get("k") == "Binary" and x.get("op") in ("<", "<=", ">", ">="))]
            raises = bool(R.find(g["body"], lambda x: x.get("k") == "Call" and re.search(r"io_error(_if)?$", (x.get("callee") or {}).get("name", ""))))
            need = {"x": any("_top_left.x" in k and "$0" in k for k in conds) and any("_dim.x" in k and "$0" in k for k in conds),
                    "y": any("_top_left.y" in k and "$1" in k for k in conds) and any("_dim.y" in k and "$1" in k for k in conds),
                    "nonneg": any(re.search(r"_top_left\.x < 0|0 > .*_top_left\.x", k) for k in conds) and any(re.search(r"_top_left\.y < 0|0 > .*_top_left\.y", k) for k in conds)}
            if raises and all(need.values()):
                verdict = "validated by %s(%s)" % (g0["name"].split("::")[-1], ", ".join(a[-24:] for a in args))
            elif verdict is None:
                verdict = None
        if verdict:
            rep.ok("R10-region-validated", key, verdict)
        else:
            rep.violation("R10-region-validated", key, R.fn_where(f), {"problem": "the region (_settings._top_left, _settings._dim) is never compared with the header's dimensions",
                          "example": "read_image(1x1 file, img, image_read_settings<tag>(point_t(1,0), point_t(4000,1))) copies 4000 pixels out of a 1-pixel row buffer"})
    rep.floor("obligations:R10", 6)


def header_validation(rep, fns):
    """R9/R11/R12: the decoders GIL implements itself (bmp, pnm, targa) are the only ones to look at their header fields; what they do not reject they trust."""
    rep.rule("R9 read_header of bmp, pnm and targa rejects a width or height below 1 (a comparison of _info._width and of _info._height with a lower bound on a path to "
             "io_error; the three are siblings: targa has always had it), and a sign flip of a header field is guarded against the most negative value")
    rep.rule("R11 a signature test rejects everything but the signature: the io_error guarded by a comparison of the first bytes read with a constant is taken when they "
             "DIFFER, and the constant is the value the little-endian read_uint16 yields for the documented bytes")
    rep.rule("R12 every switch over a header field in reader::apply / scanline_reader::initialize of bmp, pnm and targa has a default that raises io_error "
             "(an unsupported value must not fall through to `return` with nothing decoded)")
    seen = set()
    for f in fns:
        fmt = fmt_of(f)
        if fmt not in ("bmp", "pnm", "targa") or f.get("body") is None:
            continue
        cls_fn = "::".join(f["name"].split("::")[-2:])
        if cls_fn == "reader_backend::read_header" and ("R9", fmt) not in seen:
            seen.add(("R9", fmt))
            g = f
            low = {"_width": None, "_height": None}
            for c, p in R.find(g["body"], lambda x: x.get("k") == "Binary" and x.get("op") in ("<", "<=", "==")):
                k = R.key(c)
                for fld in low:
                    if re.search(r"_info\.%s (< 1|<= 0|== 0)" % fld, k):
                        # on a path to io_error: the comparison sits in the condition of an if whose then-arm raises, or in the argument of io_error_if
                        for anc, field, idx in reversed(p):
                            if anc.get("k") == "If" and field == "cond" and R.find(anc["then"], lambda y: y.get("k") == "Call" and (y.get("callee") or {}).get("name", "").endswith("io_error")):
                                low[fld] = k[:80]
                            if anc.get("k") == "Call" and (anc.get("callee") or {}).get("name", "").endswith("io_error_if"):
                                low[fld] = k[:80]
            rep.count("obligations:R9")
            key = "R9:%s:reader_backend::read_header:dimensions" % fmt
            if all(low.values()):
                rep.ok("R9-dimensions", key, low)
            else:
                rep.violation("R9-dimensions", key, R.fn_where(f), {"lower bound found for": {k: bool(v) for k, v in low.items()},
                              "example": "\"P5\\n0 2\\n255\\n\": BOOST_ASSERT(settings._dim.x && settings._dim.y) / &row.front() of an empty vector; bmp width -1 with read_view: null pointer arithmetic, SEGV"})
            # negation of a header field
            for c, p in R.find(g["body"], lambda x: x.get("k") == "Unary" and x.get("op") == "-" and "_info." in R.key(x.get("e") or {})):
                rep.count("obligations:R9")
                fld = R.key(c["e"])
                key = "R9:%s:reader_backend::read_header:negation of %s" % (fmt, fld)
                guarded = [k for op, l, r in R.guards(p) for k in ["%s %s %s" % (l, op, r)] if fld in k and re.search(r"-2147483648|-2147483647 - 1|INT_MIN|numeric_limits", k)]
                # an earlier rejection of the minimum is as good
                def is_min(n):
                    return _cval(n) in ("-2147483648", "-9223372036854775808") or bool(re.search(r"numeric_limits<.*>::min\(\)|-2147483648|INT_MIN", R.key(n)))
                earlier = [R.key(x) for x, _ in R.find(g["body"], lambda x: x.get("k") == "Binary" and x.get("op") in ("==", "<=") and (x.get("line") or 0) <= (c.get("line") or 0)
                                                       and ((R.key(x["l"]) == fld and is_min(x["r"])) or (R.key(x["r"]) == fld and is_min(x["l"]))))]
                if guarded or earlier:
                    rep.ok("R9-dimensions", key, (guarded + earlier)[0][:100])
                else:
                    rep.violation("R9-dimensions", key, "%s:%s" % (rel(f), c.get("line")), {"problem": "-x of a 32-bit header field without excluding the most negative value: signed overflow, the field stays negative",
                                  "example": "bmp height 0x80000000"})
        if fmt == "bmp" and cls_fn == "reader_backend::read_header" and ("R11", fmt) not in seen:
            seen.add(("R11", fmt))
            rep.count("obligations:R11")
            key = "R11:bmp:reader_backend::read_header:signature"
            found = None
            for c, p in R.find(f["body"], lambda x: x.get("k") == "Binary" and x.get("op") in ("==", "!=") and "read_uint16()" in R.key(x)):
                const = R.key(c["r"]) if "read_uint16" in R.key(c["l"]) else R.key(c["l"])
                raises_when_true = any(anc.get("k") == "If" and field == "cond" and R.find(anc["then"], lambda y: y.get("k") == "Call" and (y.get("callee") or {}).get("name", "").endswith("io_error"))
                                       for anc, field, idx in p) or any(anc.get("k") == "Call" and (anc.get("callee") or {}).get("name", "").endswith("io_error_if") for anc, field, idx in p)
                if raises_when_true:
                    found = (c["op"], const)
                    break
            want = ord("B") | (ord("M") << 8)
            if found and found[0] == "!=" and found[1] in (str(want), hex(want)):
                rep.ok("R11-signature", key, "io_error unless read_uint16() == 0x%X ('B','M' little-endian)" % want)
            else:
                rep.violation("R11-signature", key, R.fn_where(f), {"test found": found, "expected": "io_error when read_uint16() != %d (0x%X: 'B' | 'M' << 8, read_uint16 is little-endian)" % (want, want),
                              "example": "a file that starts with \"XY\" or with zeros passes the signature test; only \"MB\" is rejected"})
        if cls_fn in ("reader::apply", "scanline_reader::initialize") and ("R12", fmt, cls_fn, f.get("line")) not in seen:
            seen.add(("R12", fmt, cls_fn, f.get("line")))
            for sw, _ in R.find(f["body"], lambda x: x.get("k") == "Switch" and "_info." in R.key(x.get("cond") or {})):
                subject = re.sub(r"this\.|this->", "", R.key(sw["cond"]))
                key = "R12:%s:%s:switch(%s)" % (fmt, cls_fn, subject)
                if key in seen:
                    continue
                seen.add(key)
                rep.count("obligations:R12")
                # the labels of this switch, not those of switches nested in its cases
                own = lambda pth: not any(a.get("k") == "Switch" for a, _, _ in pth)
                defaults = [d for d, pth in R.find(sw.get("body"), lambda x: x.get("k") == "Default") if own(pth)]
                raising = [d for d in defaults if R.find(d, lambda y: (y.get("k") == "Call" and (y.get("callee") or {}).get("name", "").endswith("io_error")) or y.get("k") == "Throw")]
                cases = set()
                for cs, pth in R.find(sw.get("body"), lambda x: x.get("k") == "Case"):
                    if own(pth):
                        v = _cval(cs.get("v"))
                        cases.add(v if v is not None else R.key(cs.get("v") or {}))
                # values admitted by read_header: `_info._type < a || _info._type > b` on a path to io_error
                admitted = None
                for h in fns:
                    if fmt_of(h) == fmt and "::".join(h["name"].split("::")[-2:]) == "reader_backend::read_header":
                        lo = hi = None
                        for c, _ in R.find(h["body"], lambda x: x.get("k") == "Binary" and x.get("op") in ("<", ">") and subject in re.sub(r"this\.|this->", "", R.key(x))):
                            kk = _cval(c["r"])
                            if c["op"] == "<" and kk is not None:
                                lo = int(kk)
                            if c["op"] == ">" and kk is not None:
                                hi = int(kk)
                        if lo is not None and hi is not None:
                            admitted = set(str(v) for v in range(lo, hi + 1))
                        break
                if raising:
                    rep.ok("R12-switch-default", key, "default raises")
                elif admitted is not None and admitted <= cases:
                    rep.ok("R12-switch-default", key, "the cases cover the values read_header admits (%s..%s)" % (min(admitted, key=int), max(admitted, key=int)))
                else:
                    rep.violation("R12-switch-default", key, "%s:%s" % (rel(f), sw.get("line")), {"default present": bool(defaults), "problem": "a value without a case leaves the switch and the function returns with nothing decoded",
                                  "example": "bmp with 2 bits per pixel through read_and_convert_image: returns normally, the image holds whatever it held"})
    rep.floor("obligations:R9", 3)
    rep.floor("obligations:R11", 1)
    rep.floor("obligations:R12", 3)


def _cval(n):
    """the constant an expression evaluates to (clang's constant evaluator), as a decimal string"""
    while isinstance(n, dict):
        if "const" in n:
            return str(n["const"])
        if n.get("k") in ("Paren", "ImplicitCast", "ExplicitCast"):
            n = n.get("e")
        else:
            return None
    return None


# out-parameters of libpng getters that point to ONE object inside png_info (png.h: "png_color_16p *trans_color", "png_color_16p *background", ...)
PNG_SINGLE_OUT = {"png_get_tRNS": [4], "png_get_bKGD": [2], "png_get_sBIT": [2], "png_get_tIME": [2]}


def png_info_copies(rep, fns):
    rep.rule("R13 png reader_backend::read_header: every std::copy(src, src + N, &V.front()) into a member vector V is preceded, in the same block, by V.resize(N) with the same N "
             "(siblings: palette, parameters, text, transparency do it)")
    rep.rule("R14 a pointer that libpng returns through an out-parameter documented as a single object (png_get_tRNS trans_color, png_get_bKGD, png_get_sBIT, png_get_tIME) "
             "is only dereferenced, never offset: p + n or p[n] reads past the one object inside png_info")
    for f in fns:
        if fmt_of(f) != "png" or "::".join(f["name"].split("::")[-2:]) != "reader_backend::read_header":
            continue
        g = R.canonize(f)
        # R13
        for c, p in R.find(g["body"], lambda x: x.get("k") == "Call" and (x.get("callee") or {}).get("name") == "std::copy" and len(x.get("args", [])) == 3):
            dst = R.key(c["args"][2])
            m = re.fullmatch(r"\(?&(.*)\.front\(\)\)?|\(?&(.*)\[0\]\)?", dst)
            if not m:
                continue
            V = (m.group(1) or m.group(2))
            last = R.key(c["args"][1])
            first = R.key(c["args"][0])
            mm = re.fullmatch(r"\((.*) \+ (.*)\)", last)
            N = mm.group(2) if mm and mm.group(1) == first else None
            rep.count("obligations:R13")
            key = "R13:png:reader_backend::read_header:copy into %s" % re.sub(r"this\.|this->", "", V)
            # the enclosing block and the statements before the copy
            sized = False
            for anc, field, idx in reversed(p):
                if anc.get("k") == "Compound" and isinstance(idx, int):
                    for st in (anc.get("c") or [])[:idx]:
                        for r, _ in R.find(st, lambda x: x.get("k") == "Call" and re.search(r"::(resize|assign)$", (x.get("callee") or {}).get("name", ""))):
                            k = R.key(r)
                            if k.startswith(V + ".resize(") and N is not None and k == "%s.resize(%s)" % (V, N):
                                sized = True
                    break
            if sized:
                rep.ok("R13-sized-copy", key, "%s.resize(%s) precedes the copy" % (V, N))
            else:
                rep.violation("R13-sized-copy", key, "%s:%s" % (rel(f), c.get("line")), {"copy": "std::copy(%s, %s, %s)" % (first, last, dst), "problem": "the destination vector is not sized before the copy",
                              "example": "a valid palette png with a hIST chunk and image_read_settings<png_tag>::_read_histogram = true: write through &_histogram.front() of an empty vector (SIGSEGV)"})
        # R14
        single = {}
        for c, p in R.find(g["body"], lambda x: x.get("k") == "Call" and (x.get("callee") or {}).get("name") in PNG_SINGLE_OUT):
            for i in PNG_SINGLE_OUT[c["callee"]["name"]]:
                if i < len(c["args"]):
                    a = R.key(c["args"][i]).strip("()")
                    if a.startswith("&"):
                        single[a[1:].strip("()")] = c["callee"]["name"]
        for v, api in sorted(single.items()):
            rep.count("obligations:R14")
            key = "R14:png:reader_backend::read_header:%s out-parameter %d" % (api, PNG_SINGLE_OUT[api][0] + 1)
            offs = []
            for x, _ in R.find(g["body"], lambda x: (x.get("k") == "Binary" and x.get("op") in ("+", "-") and v in (R.key(x["l"]), R.key(x["r"]))) or
                               (x.get("k") in ("Subscript", "Index") and R.key(x.get("base") or x.get("l") or {}) == v)):
                other = x.get("r") if x.get("k") == "Binary" and R.key(x["l"]) == v else (x.get("l") if x.get("k") == "Binary" else x.get("index") or x.get("r"))
                if _cval(other) != "0":
                    offs.append((R.key(x)[:80], x.get("line")))
            if offs:
                rep.violation("R14-single-object", key, "%s:%s" % (rel(f), offs[0][1]), {"pointer": v, "offset in": [o[0] for o in offs], "problem": "%s returns the address of one object inside png_info" % api,
                              "example": "a valid 8-bit palette png with a 200-entry tRNS chunk and _read_transparency_data = true: reads 200 png_color_16 (2000 bytes) from the single one in png_info"})
            else:
                rep.ok("R14-single-object", key, "%s is only dereferenced" % v)
    rep.floor("obligations:R13", 2)
    rep.floor("obligations:R14", 1)


def lockstep_bounds(rep, fns):
    """R15: a loop that walks two views in step and bounds the walk by one of them reads the other one out of bounds as soon as it is the smaller."""
    rep.rule("R15 tiff reader::read_palette_image(dst, indices): every loop whose body reads through an iterator taken from the index view (2nd parameter) is bounded by the "
             "index view's extent -- its condition, after inlining single-assignment locals, mentions the index view (directly or inside a min) -- because check_image_size() "
             "admits a destination larger than the picture")
    seen = set()
    for f in fns:
        if fmt_of(f) != "tiff" or "::".join(f["name"].split("::")[-2:]) != "reader::read_palette_image" or len(f["params"]) not in (2, 3):
            continue
        if (len(f["params"]) == 3 and "true" not in f["params"][2]["type"]) or f.get("line") in seen:
            continue
        seen.add(f.get("line"))
        g = R.canonize(f)
        inits = {}
        for dn, _ in R.find(g["body"], lambda x: x.get("k") == "Decl"):
            for dd in dn["decls"]:
                if dd.get("name") and dd.get("init") is not None:
                    inits[dd["name"]] = R.key(dd["init"])

        def expand(k, depth=0):
            # single-assignment locals that canonize keeps as names (iterators that are incremented later) are expanded through their initialisers
            if depth > 4:
                return k
            for n, v in inits.items():
                if re.search(r"(?<![\w%%#@&$])%s(?![\w])" % re.escape(n), k):
                    k = re.sub(r"(?<![\w%%#@&$])%s(?![\w])" % re.escape(n), lambda m: expand(v, depth + 1), k)
            return k
        loops = [lp for lp, _ in R.find(g["body"], lambda x: x.get("k") == "For")]
        for n, lp in enumerate(loops):
            names = {x.get("name") for x, _ in R.find(lp["body"], lambda x: x.get("k") == "DeclRef")}
            if "$1" not in names and not any("$1" in expand(inits.get(n, "")) for n in names if n):
                continue
            rep.count("obligations:R15")
            cond = expand(R.key(lp["cond"]))
            key = "R15:tiff:reader::read_palette_image:loop %d" % n
            if "$1" in cond:
                rep.ok("R15-lockstep-bound", key, cond[:160])
            else:
                rep.violation("R15-lockstep-bound", key, "%s:%s" % (rel(f), lp.get("line")), {"condition": cond[:200], "problem": "the loop steps through the index view but is bounded by the destination view only",
                              "example": "a valid 4x2 8-bit palette tiff read into a 5x3 rgb16 view: reads past the 8-byte index image"})
    rep.floor("obligations:R15", 2)


def _ieval(n, env):
    """integer value of a side-effect free expression over + - * / % >> << & | with the names in env (None if anything else occurs)"""
    n = R.strip(n)
    while isinstance(n, dict) and n.get("k") in ("Paren", "ImplicitCast", "ExplicitCast"):
        if "const" in n:
            return int(str(n["const"]), 0)
        n = R.strip(n.get("e"))
    if not isinstance(n, dict):
        return None
    if "const" in n:
        return int(str(n["const"]), 0)
    k = R.key(n)
    k2 = re.sub(r"this\.|this->", "", k)
    if k2 in env:
        return env[k2]
    if n.get("k") == "Binary" and n.get("op") in ("+", "-", "*", "/", "%", ">>", "<<", "&", "|"):
        a, b = _ieval(n["l"], env), _ieval(n["r"], env)
        if a is None or b is None:
            return None
        op = n["op"]
        if op in ("/", "%") and b == 0:
            return None
        return {"+": a + b, "-": a - b, "*": a * b, "/": int(a / b) if op == "/" else 0, "%": a - b * int(a / b) if op == "%" else 0, ">>": a >> b if op == ">>" else 0,
                "<<": a << b if op == "<<" else 0, "&": a & b, "|": a | b}[op]
    if n.get("k") == "Unary" and n.get("op") == "~":
        a = _ieval(n["e"], env)
        return None if a is None else ~a
    if n.get("k") == "Call" and (n.get("callee") or {}).get("name") in ("std::max", "std::min") and len(n.get("args", [])) == 2:
        a, b = _ieval(n["args"][0], env), _ieval(n["args"][1], env)
        if a is None or b is None:
            return None
        return max(a, b) if n["callee"]["name"] == "std::max" else min(a, b)
    return None


def bmp_pitch(rep, fns):
    """R16: the bmp reader allocates one row of _pitch bytes and hands it to the decoder of the file's depth, which walks `width` pixels through it."""
    rep.rule("R16 bmp reader::apply: for every depth that has a case in the switch, the row pitch computed before the switch is at least what that case's decoder consumes per row: "
             "width * bytes per pixel for depths >= 8 -- bytes per pixel taken from the decoder itself (the cursor stride `src += k` of read_data_15, the size of the source "
             "pixel of read_data<View_Src> / read_palette_image<View_Src>) -- and ceil(width * depth / 8) below 8. The pitch expressions are evaluated as written, for each depth and "
             "for widths 1..64")
    byid = {f["id"]: f for f in fns}
    done = False
    for f in fns:
        if done or fmt_of(f) != "bmp" or "::".join(f["name"].split("::")[-2:]) != "reader::apply":
            continue
        g = R.canonize(f)
        sws = [sw for sw, _ in R.find(g["body"], lambda x: x.get("k") == "Switch" and "_bits_per_pixel" in R.key(x["cond"]))]
        if not sws:
            continue
        done = True
        # the pitch as a function of (W, depth): replay the assignments to _pitch in order, under their guards on the depth
        assigns = []
        for a, p in R.find(g["body"], lambda x: (x.get("k") == "Assign" or (x.get("k") == "Call" and x.get("op") == "=")) and re.sub(r"this\.|this->", "", R.key(x.get("l") or x["args"][0])) == "_pitch"):
            conds = []
            for anc, field, idx in p:
                if anc.get("k") == "If" and field in ("then", "else"):
                    conds.append((anc["cond"], field == "then"))
            assigns.append((a.get("r") if a.get("k") == "Assign" else a["args"][1], conds, a.get("line")))

        def pitch(W, v):
            env = {"_info._width": W, "_info._bits_per_pixel": v, "_pitch": 0}
            for rhs, conds, _ in assigns:
                ok = True
                for c, want in conds:
                    ck = R.strip(c)
                    if ck.get("k") == "Binary" and ck.get("op") in ("<", "<=", ">", ">=", "==", "!="):
                        l, r = _ieval(ck["l"], env), _ieval(ck["r"], env)
                        if l is None or r is None:
                            return None
                        t = {"<": l < r, "<=": l <= r, ">": l > r, ">=": l >= r, "==": l == r, "!=": l != r}[ck["op"]]
                    else:
                        return None
                    ok = ok and (t == want)
                if ok:
                    val = _ieval(rhs, env)
                    if val is None:
                        return None
                    env["_pitch"] = val
            return env["_pitch"]
        for cs, pth in R.find(sws[0]["body"], lambda x: x.get("k") == "Case"):
            if any(a.get("k") == "Switch" for a, _, _ in pth):
                continue
            v = int(_cval(cs["v"]))
            rep.count("obligations:R16")
            key = "R16:bmp:reader::apply:depth %d" % v
            bpp_bytes = None
            how = None
            if v >= 8:
                for c, _ in R.find(cs["sub"], lambda x: x.get("k") == "Call" and x.get("member_call") and re.search(r"::read_(data|data_15|palette_image)$", (x.get("callee") or {}).get("name", ""))):
                    cal = c["callee"]
                    nm = cal["name"].split("::")[-1]
                    if nm == "read_data_15":
                        h = byid.get(cal.get("id"))
                        if h is not None:
                            hg = R.canonize(h)
                            for lp, _ in R.find(hg["body"], lambda x: x.get("k") == "For"):
                                m = re.search(r"\((%\d+) \+= (\d+)\)", R.key(lp["inc"]))
                                if m and R.find(lp["body"], lambda y: y.get("k") in ("Subscript", "Index", "Binary", "Call") and re.search(re.escape(m.group(1)) + r"\[", R.key(y))):
                                    bpp_bytes, how = int(m.group(2)), "cursor stride of read_data_15"
                    else:
                        full = cal.get("full", "")
                        i = full.find("boost::gil::pixel<")
                        pb = pixel_bytes(full[i:]) if i >= 0 else None
                        if pb:
                            bpp_bytes, how = pb, "size of the source pixel of %s" % nm
                if bpp_bytes is None:
                    rep.incon("R16-pitch", key, {"why": "no decoder with a recognisable stride in this case"})
                    continue
            bad = None
            unknown = False
            for W in range(1, 65):
                pv = pitch(W, v)
                if pv is None:
                    unknown = True
                    break
                need = W * bpp_bytes if v >= 8 else (W * v + 7) // 8
                if pv < need:
                    bad = (W, pv, need)
                    break
            if unknown:
                rep.incon("R16-pitch", key, {"why": "the pitch expression could not be evaluated"})
            elif bad:
                rep.violation("R16-pitch", key, R.fn_where(f), {"depth": v, "bytes per pixel the decoder reads": bpp_bytes, "from": how, "witness": "width %d: pitch %d bytes, the decoder reads %d" % bad,
                              "pitch assignments at lines": [a[2] for a in assigns]})
            else:
                rep.ok("R16-pitch", key, "pitch >= %s for widths 1..64" % ("width*%d (%s)" % (bpp_bytes, how) if v >= 8 else "ceil(width*%d/8)" % v))
    rep.floor("obligations:R16", 7)
