// C14 / D6: any_image::recreate(dims, alignment = 1) forwards to image::recreate(dims, alignment = 0): with the argument left out the same call
// means something else on the dynamic image. image::recreate(3,2) on a 3x2 image is a no-op; through any_image the alignment differed,
// the storage was reused and value-initialised: the pixels were cleared.
// Build: g++ -std=c++14 -I /repo/include any_image_recreate_default.cpp && ./a.out
#include <boost/gil.hpp>
#include <boost/gil/extension/dynamic_image/any_image.hpp>
#include <cstdio>
namespace gil = boost::gil;
int main()
{
    gil::rgb8_image_t img(3, 2);
    gil::fill_pixels(gil::view(img), gil::rgb8_pixel_t(1, 2, 3));
    gil::any_image<gil::gray8_image_t, gil::rgb8_image_t> a(img);
    img.recreate(3, 2);
    a.recreate(3, 2);
    auto p = gil::view(img)(2, 1);
    auto q = boost::variant2::get<1>(gil::view(a))(2, 1);
    std::printf("image: %d %d %d, any_image: %d %d %d\n", p[0], p[1], p[2], q[0], q[1], q[2]);
    return !(p == q);
}
