// irdump: load LLVM bitcode produced by clang from a /verif driver, inline everything that is
// not on the keep-as-call list into the root wrappers, run only sroa/mem2reg/simplifycfg (no pass
// that may exploit undefined behaviour), and dump the resulting SSA of each root as JSON.
// The abstract interpreters live in /verif/harness/ir (python); this tool only extracts.
#include "llvm/ADT/SmallString.h"
#include "llvm/Demangle/Demangle.h"
#include "llvm/IR/Constants.h"
#include "llvm/IR/DataLayout.h"
#include "llvm/IR/DebugInfoMetadata.h"
#include "llvm/IR/Function.h"
#include "llvm/IR/GetElementPtrTypeIterator.h"
#include "llvm/IR/InstIterator.h"
#include "llvm/IR/Instructions.h"
#include "llvm/IR/IntrinsicInst.h"
#include "llvm/IR/LLVMContext.h"
#include "llvm/IR/Module.h"
#include "llvm/IR/ModuleSlotTracker.h"
#include "llvm/IR/Operator.h"
#include "llvm/IR/Verifier.h"
#include "llvm/IRReader/IRReader.h"
#include "llvm/Passes/PassBuilder.h"
#include "llvm/Support/CommandLine.h"
#include "llvm/Support/JSON.h"
#include "llvm/Support/Regex.h"
#include "llvm/Support/SourceMgr.h"
#include "llvm/Support/raw_ostream.h"
#include "llvm/Support/FileSystem.h"
#include <map>
#include <set>
#include <string>
#include <vector>

using namespace llvm;

static cl::opt<std::string> Input(cl::Positional, cl::desc("<bitcode>"), cl::Required);
static cl::opt<std::string> Output("o", cl::desc("output json"), cl::Required);
static cl::list<std::string> Keep("keep", cl::desc("regex on demangled name: keep as call (noinline)"));
static cl::opt<std::string> Roots("roots", cl::desc("regex on (mangled) name of root functions"), cl::init("^w_"));
static cl::opt<bool> NoOpt("no-pipeline", cl::desc("do not run the inline pipeline"), cl::init(false));
static cl::opt<bool> Unroll("unroll", cl::desc("fully unroll loops with constant trip count"), cl::init(false));
static cl::opt<std::string> EmitLL("emit-ll", cl::desc("write the module after the pipeline as text"), cl::init(""));
static cl::opt<bool> EarlyCSE("cse", cl::desc("additionally run early-cse (no UB exploitation)"), cl::init(false));

static std::string typeStr(Type *T) {
  std::string S;
  raw_string_ostream OS(S);
  T->print(OS);
  return OS.str();
}

static std::string dem(StringRef N) { return llvm::demangle(N.str()); }

struct Dumper {
  const DataLayout &DL;
  ModuleSlotTracker &MST;
  std::map<const Value *, std::string> ids;
  int next = 0;
  Dumper(const DataLayout &DL, ModuleSlotTracker &MST) : DL(DL), MST(MST) {}

  std::string idOf(const Value *V) {
    auto it = ids.find(V);
    if (it != ids.end()) return it->second;
    std::string s;
    if (V->hasName()) s = V->getName().str();
    else s = "t" + std::to_string(next++);
    // make unique
    ids[V] = s;
    return s;
  }

  json::Value typeInfo(Type *T) {
    json::Object O;
    O["s"] = typeStr(T);
    if (T->isIntegerTy()) { O["k"] = "int"; O["bits"] = (int64_t)T->getIntegerBitWidth(); }
    else if (T->isFloatTy()) { O["k"] = "float"; O["bits"] = 32; }
    else if (T->isDoubleTy()) { O["k"] = "float"; O["bits"] = 64; }
    else if (T->isPointerTy()) { O["k"] = "ptr"; O["bits"] = 64;
      Type *E = T->getPointerElementType();
      if (E->isSized()) O["pointee_size"] = (int64_t)DL.getTypeAllocSize(E);
      O["pointee"] = typeStr(E);
    }
    else if (T->isVoidTy()) { O["k"] = "void"; }
    else if (T->isVectorTy()) { O["k"] = "vec"; }
    else if (T->isStructTy() || T->isArrayTy()) { O["k"] = "agg"; if (T->isSized()) O["size"] = (int64_t)DL.getTypeAllocSize(T); }
    else O["k"] = "other";
    return std::move(O);
  }

  json::Value operand(const Value *V) {
    json::Object O;
    if (auto *CI = dyn_cast<ConstantInt>(V)) {
      O["k"] = "c";
      SmallString<40> S; CI->getValue().toStringUnsigned(S);
      O["u"] = S.str().str();
      SmallString<40> S2; CI->getValue().toStringSigned(S2);
      O["s"] = S2.str().str();
      O["bits"] = (int64_t)CI->getBitWidth();
    } else if (auto *CF = dyn_cast<ConstantFP>(V)) {
      O["k"] = "cf";
      bool lost;
      APFloat F = CF->getValueAPF();
      O["bits"] = CF->getType()->isFloatTy() ? 32 : 64;
      F.convert(APFloat::IEEEdouble(), APFloat::rmNearestTiesToEven, &lost);
      char buf[64]; snprintf(buf, sizeof buf, "%a", F.convertToDouble());
      O["hex"] = std::string(buf);
    } else if (isa<ConstantPointerNull>(V)) {
      O["k"] = "null";
    } else if (isa<UndefValue>(V)) {
      O["k"] = "undef";
    } else if (auto *F = dyn_cast<Function>(V)) {
      O["k"] = "fn"; O["name"] = F->getName().str(); O["dem"] = dem(F->getName());
    } else if (auto *G = dyn_cast<GlobalVariable>(V)) {
      O["k"] = "g"; O["name"] = G->getName().str(); O["dem"] = dem(G->getName());
      O["const"] = G->isConstant();
      if (G->hasInitializer()) {
        if (auto *CDA = dyn_cast<ConstantDataSequential>(G->getInitializer())) {
          json::Array A;
          if (CDA->getElementType()->isIntegerTy() && CDA->getNumElements() <= 4096)
            for (unsigned i = 0; i < CDA->getNumElements(); ++i) A.push_back((int64_t)CDA->getElementAsInteger(i));
          O["init"] = std::move(A);
          O["elt_bits"] = (int64_t)(CDA->getElementType()->isIntegerTy() ? CDA->getElementType()->getIntegerBitWidth() : 0);
        }
      }
    } else if (auto *A = dyn_cast<Argument>(V)) {
      O["k"] = "arg"; O["idx"] = (int64_t)A->getArgNo(); O["id"] = idOf(A);
    } else if (auto *BB = dyn_cast<BasicBlock>(V)) {
      O["k"] = "bb"; O["id"] = idOf(BB);
    } else if (auto *CE = dyn_cast<ConstantExpr>(V)) {
      O["k"] = "ce"; O["op"] = CE->getOpcodeName();
      json::Array A;
      for (auto &U : CE->operands()) A.push_back(operand(U.get()));
      O["ops"] = std::move(A);
      if (auto *GEP = dyn_cast<GEPOperator>(CE)) {
        APInt Off(64, 0);
        if (GEP->accumulateConstantOffset(DL, Off)) O["gep_const"] = (int64_t)Off.getSExtValue();
      }
      O["type"] = typeInfo(CE->getType());
    } else if (isa<Instruction>(V)) {
      O["k"] = "v"; O["id"] = idOf(V);
    } else if (isa<MetadataAsValue>(V)) {
      O["k"] = "md";
    } else if (isa<InlineAsm>(V)) {
      O["k"] = "asm";
    } else if (isa<Constant>(V)) {
      O["k"] = "const_other"; O["s"] = typeStr(V->getType());
      if (isa<ConstantAggregateZero>(V)) O["zero"] = true;
    } else {
      O["k"] = "other";
    }
    return std::move(O);
  }

  json::Value dbg(const Instruction &I) {
    json::Array Chain;
    const DILocation *L = I.getDebugLoc().get();
    while (L) {
      json::Object O;
      O["file"] = (L->getDirectory() + "/" + L->getFilename()).str();
      if (L->getFilename().startswith("/")) O["file"] = L->getFilename().str();
      O["line"] = (int64_t)L->getLine();
      if (auto *SP = L->getScope()->getSubprogram()) {
        O["fn"] = SP->getName().str();
        O["link"] = SP->getLinkageName().str();
      }
      Chain.push_back(std::move(O));
      L = L->getInlinedAt();
    }
    return std::move(Chain);
  }

  json::Value inst(const Instruction &I) {
    json::Object O;
    O["op"] = I.getOpcodeName();
    if (!I.getType()->isVoidTy()) O["id"] = idOf(&I);
    O["type"] = typeInfo(I.getType());
    json::Array Ops;
    if (auto *PN = dyn_cast<PHINode>(&I)) {
      for (unsigned i = 0; i < PN->getNumIncomingValues(); ++i) {
        json::Object P;
        P["v"] = operand(PN->getIncomingValue(i));
        P["bb"] = idOf(PN->getIncomingBlock(i));
        Ops.push_back(std::move(P));
      }
      O["incoming"] = std::move(Ops);
    } else {
      for (auto &U : I.operands()) Ops.push_back(operand(U.get()));
      O["ops"] = std::move(Ops);
    }
    if (auto *C = dyn_cast<CmpInst>(&I)) O["pred"] = CmpInst::getPredicateName(C->getPredicate()).str();
    if (auto *G = dyn_cast<GetElementPtrInst>(&I)) {
      // decompose: const offset + sum(scale_i * index_i)
      int64_t Const = 0;
      json::Array Terms;
      for (gep_type_iterator GTI = gep_type_begin(G), E = gep_type_end(G); GTI != E; ++GTI) {
        Value *Idx = GTI.getOperand();
        if (StructType *STy = GTI.getStructTypeOrNull()) {
          unsigned F = cast<ConstantInt>(Idx)->getZExtValue();
          Const += DL.getStructLayout(STy)->getElementOffset(F);
        } else {
          int64_t Sz = DL.getTypeAllocSize(GTI.getIndexedType());
          if (auto *CI = dyn_cast<ConstantInt>(Idx)) Const += Sz * CI->getSExtValue();
          else { json::Object T; T["scale"] = Sz; T["v"] = operand(Idx); Terms.push_back(std::move(T)); }
        }
      }
      O["gep_const"] = Const;
      O["gep_terms"] = std::move(Terms);
      O["inbounds"] = G->isInBounds();
      O["src_elt"] = typeStr(G->getSourceElementType());
    }
    if (auto *A = dyn_cast<AllocaInst>(&I)) {
      O["alloc_size"] = (int64_t)DL.getTypeAllocSize(A->getAllocatedType());
      O["alloc_type"] = typeStr(A->getAllocatedType());
    }
    if (auto *L = dyn_cast<LoadInst>(&I)) { O["size"] = (int64_t)DL.getTypeStoreSize(L->getType()); O["volatile"] = L->isVolatile(); }
    if (auto *S = dyn_cast<StoreInst>(&I)) { O["size"] = (int64_t)DL.getTypeStoreSize(S->getValueOperand()->getType()); O["val_type"] = typeInfo(S->getValueOperand()->getType()); }
    if (auto *CB = dyn_cast<CallBase>(&I)) {
      if (Function *F = CB->getCalledFunction()) {
        O["callee"] = F->getName().str();
        O["callee_dem"] = dem(F->getName());
        O["noreturn"] = F->doesNotReturn() || CB->doesNotReturn();
        O["intrinsic"] = F->isIntrinsic();
        O["declared_only"] = F->isDeclaration();
      } else O["callee"] = "<indirect>";
      O["nargs"] = (int64_t)CB->arg_size();
    }
    if (auto *IV = dyn_cast<InsertValueInst>(&I)) { json::Array A; for (unsigned x : IV->indices()) A.push_back((int64_t)x); O["indices"] = std::move(A); }
    if (auto *EV = dyn_cast<ExtractValueInst>(&I)) { json::Array A; for (unsigned x : EV->indices()) A.push_back((int64_t)x); O["indices"] = std::move(A); }
    if (auto *SW = dyn_cast<SwitchInst>(&I)) {
      json::Array Cs;
      for (auto &C : SW->cases()) {
        json::Object CO; CO["val"] = (int64_t)C.getCaseValue()->getSExtValue(); CO["bb"] = idOf(C.getCaseSuccessor());
        Cs.push_back(std::move(CO));
      }
      O["cases"] = std::move(Cs);
      O["default"] = idOf(SW->getDefaultDest());
    }
    if (auto *BO = dyn_cast<OverflowingBinaryOperator>(&I)) { O["nsw"] = BO->hasNoSignedWrap(); O["nuw"] = BO->hasNoUnsignedWrap(); }
    if (auto *PE = dyn_cast<PossiblyExactOperator>(&I)) O["exact"] = PE->isExact();
    if (I.getDebugLoc()) O["dbg"] = dbg(I);
    return std::move(O);
  }

  json::Value function(const Function &F) {
    ids.clear(); next = 0;
    json::Object O;
    O["name"] = F.getName().str();
    O["dem"] = dem(F.getName());
    O["ret"] = typeInfo(F.getReturnType());
    json::Array Args;
    for (auto &A : F.args()) {
      json::Object AO; AO["id"] = idOf(&A); AO["type"] = typeInfo(A.getType());
      AO["sext"] = A.hasSExtAttr(); AO["zext"] = A.hasZExtAttr();
      if (A.hasStructRetAttr()) AO["sret"] = true;
      if (A.hasByValAttr()) AO["byval"] = true;
      if (A.getType()->isPointerTy() && A.getDereferenceableBytes()) AO["deref"] = (int64_t)A.getDereferenceableBytes();
      Args.push_back(std::move(AO));
    }
    O["args"] = std::move(Args);
    // name blocks first (stable ids)
    int bi = 0;
    for (auto &BB : F) { if (!BB.hasName()) ids[&BB] = "bb" + std::to_string(bi); else ids[&BB] = BB.getName().str(); ++bi; }
    // make value ids unique: give every unnamed or named inst a fresh id
    int vi = 0;
    for (auto &A : F.args()) ids[&A] = "a" + std::to_string(A.getArgNo());
    for (auto &BB : F) for (auto &I : BB) if (!I.getType()->isVoidTy()) ids[&I] = "v" + std::to_string(vi++);
    // re-emit args with final ids
    json::Array Args2;
    for (auto &A : F.args()) {
      json::Object AO; AO["id"] = idOf(&A); AO["type"] = typeInfo(A.getType());
      AO["sext"] = A.hasSExtAttr(); AO["zext"] = A.hasZExtAttr();
      AO["name"] = A.getName().str();
      if (A.hasStructRetAttr()) AO["sret"] = true;
      if (A.hasByValAttr()) AO["byval"] = true;
      if (A.getType()->isPointerTy() && A.getDereferenceableBytes()) AO["deref"] = (int64_t)A.getDereferenceableBytes();
      Args2.push_back(std::move(AO));
    }
    O["args"] = std::move(Args2);
    json::Array Blocks;
    for (auto &BB : F) {
      json::Object B; B["id"] = idOf(&BB);
      json::Array Is;
      for (auto &I : BB) {
        if (isa<DbgInfoIntrinsic>(&I)) continue;
        Is.push_back(inst(I));
      }
      B["insts"] = std::move(Is);
      json::Array Succ;
      for (const BasicBlock *S : successors(&BB)) Succ.push_back(idOf(S));
      B["succ"] = std::move(Succ);
      Blocks.push_back(std::move(B));
    }
    O["blocks"] = std::move(Blocks);
    return std::move(O);
  }
};

int main(int argc, char **argv) {
  // allow the inline threshold to be set through the ordinary option
  std::vector<const char *> Args(argv, argv + argc);
  cl::ParseCommandLineOptions(Args.size(), Args.data(), "irdump\n");
  LLVMContext Ctx;
  SMDiagnostic Err;
  std::unique_ptr<Module> M = parseIRFile(Input, Err, Ctx);
  if (!M) { Err.print("irdump", errs()); return 1; }

  std::vector<Regex> KeepRe;
  for (auto &K : Keep) KeepRe.emplace_back(K);
  Regex RootRe(Roots);

  std::set<std::string> keptNames;
  for (Function &F : *M) {
    if (F.isDeclaration()) continue;
    std::string D = dem(F.getName());
    bool keep = false;
    for (auto &R : KeepRe) if (R.match(D)) { keep = true; break; }
    bool root = RootRe.match(F.getName());
    F.removeFnAttr(Attribute::OptimizeNone);
    if (keep || root) {
      F.removeFnAttr(Attribute::AlwaysInline);
      F.addFnAttr(Attribute::NoInline);
      if (keep) { keptNames.insert(F.getName().str()); }
    } else {
      F.removeFnAttr(Attribute::NoInline);
      if (!F.hasFnAttribute(Attribute::AlwaysInline)) F.addFnAttr(Attribute::AlwaysInline);
    }
  }

  if (Unroll)   // clang -O1 marks every loop unroll.disable; drop loop metadata so constant-trip loops can be fully unrolled
    for (Function &F : *M) for (auto &BB : F) if (auto *T = BB.getTerminator()) T->setMetadata(LLVMContext::MD_loop, nullptr);
  if (!NoOpt) {
    const char *fake[] = {"irdump", "-inline-threshold=100000000"};
    (void)fake;
    LoopAnalysisManager LAM; FunctionAnalysisManager FAM; CGSCCAnalysisManager CGAM; ModuleAnalysisManager MAM;
    PassBuilder PB;
    PB.registerModuleAnalyses(MAM); PB.registerCGSCCAnalyses(CGAM); PB.registerFunctionAnalyses(FAM);
    PB.registerLoopAnalyses(LAM); PB.crossRegisterProxies(LAM, FAM, CGAM, MAM);
    std::string fnp = EarlyCSE ? "function(sroa,mem2reg,early-cse,simplifycfg)" : "function(sroa,mem2reg,simplifycfg)";
    std::string P = "always-inline," + fnp + ",always-inline," + fnp + ",always-inline," + fnp;
    if (Unroll) P += ",function(instsimplify,loop-simplify,lcssa,loop(loop-rotate,loop-unroll-full),instsimplify,simplifycfg,sroa,mem2reg,instsimplify,simplifycfg)";
    ModulePassManager MPM;
    if (auto E = PB.parsePassPipeline(MPM, P)) { errs() << "pipeline: " << toString(std::move(E)) << "\n"; return 1; }
    MPM.run(*M, MAM);
  }
  if (verifyModule(*M, &errs())) { errs() << "module broken after pipeline\n"; return 1; }

  if (!EmitLL.empty()) { std::error_code EC2; raw_fd_ostream O2(EmitLL, EC2, sys::fs::OF_None); M->print(O2, nullptr); }
  ModuleSlotTracker MST(M.get());
  Dumper D(M->getDataLayout(), MST);
  json::Array Fns;
  for (Function &F : *M) {
    if (F.isDeclaration()) continue;
    if (!RootRe.match(F.getName()) && !keptNames.count(F.getName().str())) continue;
    json::Value V = D.function(F);
    V.getAsObject()->insert({"is_root", (bool)RootRe.match(F.getName())});
    Fns.push_back(std::move(V));
  }
  json::Object Top;
  Top["module"] = Input.getValue();
  Top["functions"] = std::move(Fns);
  std::error_code EC;
  raw_fd_ostream OS(Output, EC, sys::fs::OF_None);
  if (EC) { errs() << "cannot write " << Output << "\n"; return 1; }
  OS << json::Value(std::move(Top));
  return 0;
}
