#!/bin/bash
# usage: tools/reseed_scratch.sh [name...]  -- like tools/reseed.sh (which checks fire NOW for each stored seeded change) but on
# scratch copies of /repo's HEAD include tree under /tmp/rs, several seeds in parallel; /repo itself is not touched.
set -u
cd /verif
NAMES=${@:-$(ls seeded | grep -v README)}
export IDS=$(python3 -c "import json;print(' '.join(c['property_id'] for c in json.load(open('MANIFEST.json'))['checks']))")
one() {
  n=$1; d=/tmp/rs/$n; rm -rf $d; mkdir -p $d/tree
  [ -f /verif/seeded/$n/patch.diff ] || return
  git -C /repo archive HEAD include | tar -x -C $d/tree
  (cd $d/tree && patch -p1 -s --no-backup-if-mismatch < /verif/seeded/$n/patch.diff) > $d/patch.log 2>&1 || { echo "$n: patch does not apply"; return; }
  # RESEED_ALL=1: every check; default: the seed's own property and the checks that fired for it before
  if [ -z "${RESEED_ALL:-}" ]; then
    IDS=$(python3 -c "
import json,sys
m=json.load(open('/verif/seeded/$n/meta.json'))
ids={'$n'.split('-')[0]}
for k in ('fired_now','checks_that_fired'):
    for x in m.get(k) or []:
        ids.add(str(x).split(':')[0])
print(' '.join(sorted(i for i in ids if i.startswith('C'))))")
  fi
  for id in $IDS; do VERIF_REPO=$d/tree VERIF_SCRATCH=$d/scratch ./check $id > $d/$id.out 2>&1; echo $? > $d/$id.rc; done
  FIRED=""; for id in $IDS; do r=$(cat $d/$id.rc); [ "$r" != "0" ] && FIRED="$FIRED $id:$r"; done
  RULES=$(for id in $IDS; do grep -hE "^  rule=" $d/$id.out | sed -E 's/^  rule=([^ ]+).*/\1/' | sort -u | sed "s/^/$id./"; done | tr '\n' ' ')
  python3 - "/verif/seeded/$n/meta.json" "$FIRED" "$RULES" <<'PY'
import json,sys
p,f,r=sys.argv[1:4]
m=json.load(open(p)); m["fired_now"]=f.split(); m["rules_now"]=r.split(); json.dump(m,open(p,"w"),indent=1)
PY
  echo "$n: fired now:$FIRED | rules: $RULES"
  rm -rf $d
}
export -f one
echo $NAMES | tr ' ' '\n' | xargs -P ${RESEED_JOBS:-8} -I{} bash -c 'one {}'
python3 tools/seedtable.py > /dev/null
